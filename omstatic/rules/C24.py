"""C24 -- relevance pruning is unobservable in results.

Structural clauses of the mechanisms in utils/relevance.py (seed based relevance arrays, the four
activation context managers, Relevance.filter and the fail-open queries), of the children sweeps that
consume Relevance.filter (Group._apply_linear and the block solvers) and of the gate that switches
pruning off for solvers that factor the whole block (DirectSolver).  Everything is decided from the
AST: save/restore pairing on the CFG, small exhaustive abstract evaluations over
_active in {True, False, None} x flags, and slot/family tables extracted from the call shapes.
"""
import ast

from .. import astx, cfg as cfgm
from ..core import AnalysisError
from ..engine import rule, describe, selftest, Mutant, Twin

REL = 'openmdao/utils/relevance.py'
GROUP = 'openmdao/core/group.py'
DIRECT = 'openmdao/solvers/linear/direct.py'

describe('C24',
         'Decides from the source: (ctx) each of Relevance.active/all_seeds_active/seeds_active/'
         'nonlinear_active snapshots every piece of relevance state it changes (_active, seeds via '
         '_set_seeds, _current_rel_sarray) before the first change and restores the snapshot on both the '
         'normal and the exceptional continuation of its yield, and a branch that changes nothing yields '
         'bare; (off) by exhaustive evaluation over _active in {True, False, None} x active in {True, False}: '
         'a permanently disabled object (_active False: OPENMDAO_NO_RELEVANCE, no seeds) reaches the yield '
         'untouched in all four managers and active(False) always leaves _active falsy inside the block; '
         '(filter) Relevance.filter yields s iff (relevant == is_relevant_system(s.pathname)) when active and '
         'iff relevant when inactive, over all valuations that is_relevant_system can produce (filter may '
         'rely on is_relevant_system being fail-open or test _active itself); (failopen) is_relevant/'
         'any_relevant return True on every path when _active is False/None; (arrays) variable arrays are '
         'only combined with / indexed by variable maps and system arrays by system maps, fwd/rev slots and '
         'the [fwd][rev] cache keys agree with the seeds the array was combined from; (combine) the seed '
         'union is accumulated with |= and never overwritten; (skipzero) Group._apply_linear applies the '
         'relevant children and zeroes _dresiduals (fwd) / _doutputs (rev, after the reverse transfer) of '
         'the complementary set; (same-set) a filtered sweep that issues the per-subsystem collective '
         'transfer iterates _all_subsystem_iter() and only executes local children; (gate) pruning is '
         'switched off while a DirectSolver group linearizes its children.  Does not decide the '
         'correctness of the relevance graph or of the graph traversal.',
         ['_set_seeds is called with non-empty seed tuples inside the context managers (it may otherwise '
          'clear _active itself)',
          'Relevance.empty implies there is nothing to differentiate (any_relevant may answer False)',
          'the clauses same-set and skipzero matter under MPI / parallel-derivative seeds; they cannot be '
          'exercised in a serial run'])


# =========================================================================== abstract evaluation
class Unknown(Exception):
    def __init__(self, node):
        self.node = node


class Mismatch(Exception):
    def __init__(self, node, why):
        self.node, self.why = node, why


class _Top:
    """A value we know nothing about."""

    def __repr__(self):
        return '<?>'


TOP = _Top()


def ev(e, env, free, calls=None):
    """Concrete evaluation of e.  env: access path -> python value; free: dump -> bool for atoms we
    cannot interpret (enumerated by eval_all); calls: optional callback for Call nodes."""
    if isinstance(e, ast.Constant):
        return e.value
    p = astx.path(e)
    if p is not None and p in env:
        v = env[p]
        if v is TOP:
            return _atom(e, free)
        return v
    if isinstance(e, ast.UnaryOp) and isinstance(e.op, ast.Not):
        return not ev(e.operand, env, free, calls)
    if isinstance(e, ast.IfExp):
        return ev(e.body if ev(e.test, env, free, calls) else e.orelse, env, free, calls)
    if isinstance(e, ast.BoolOp):
        v = None
        for sub in e.values:
            v = ev(sub, env, free, calls)
            if isinstance(e.op, ast.And) and not v:
                return v
            if isinstance(e.op, ast.Or) and v:
                return v
        return v
    if isinstance(e, ast.Compare) and len(e.ops) == 1 and \
            isinstance(e.ops[0], (ast.Is, ast.IsNot, ast.Eq, ast.NotEq)):
        try:
            a = ev(e.left, env, {}, calls)
            b = ev(e.comparators[0], env, {}, calls)
        except Unknown:
            return _atom(e, free)
        op = e.ops[0]
        if isinstance(op, ast.Is):
            return a is b
        if isinstance(op, ast.IsNot):
            return a is not b
        if isinstance(op, ast.Eq):
            return a == b
        return a != b
    if isinstance(e, ast.Call) and calls is not None:
        r = calls(e, env)
        if r is not None:
            return r[0]
    return _atom(e, free)


def _atom(e, free):
    k = astx.dump(e)
    if k in free:
        return free[k]
    u = Unknown(e)
    u.key = k
    raise u


def eval_all(e, env, calls=None, preset=None):
    """Set of possible truth values of e under env, over all valuations of uninterpreted atoms
    (atoms whose astx.dump is a key of `preset` are fixed to that value)."""
    free = dict(preset or {})
    res = set()

    def go(depth=0):
        if depth > 8:
            raise AnalysisError(f'too many uninterpreted atoms in `{astx.src(e)}`')
        try:
            res.add(bool(ev(e, env, free, calls)))
        except Unknown as u:
            for b in (False, True):
                free[u.key] = b
                go(depth + 1)
            del free[u.key]
    go()
    return res


def values_all(e, env):
    """Possible values of e under env (uninterpreted boolean atoms enumerated); [TOP] if not evaluable."""
    free = {}
    res = []

    def go(depth=0):
        if depth > 6:
            raise Unknown(e)
        try:
            v = ev(e, env, free)
            if not any(v is r for r in res):
                res.append(v)
        except Unknown as u:
            if getattr(u, 'key', None) is None or u.node is e:
                raise
            for b in (False, True):
                free[u.key] = b
                go(depth + 1)
            del free[u.key]
    try:
        go()
    except Unknown:
        return [TOP]
    return res


def bind_args(repo, call, qualname, rel=REL, skip_self=True):
    """Arguments of `call` ordered by the parameters of the callee (positional or keyword), or None."""
    f = repo.try_func(rel, qualname)
    if f is None or any(isinstance(a, ast.Starred) for a in call.args) or \
            any(k.arg is None for k in call.keywords):
        return None
    names = [a.arg for a in f.node.args.args][1 if skip_self else 0:]
    if len(call.args) > len(names):
        return None
    got = dict(zip(names, call.args))
    for k in call.keywords:
        if k.arg not in names or k.arg in got:
            return None
        got[k.arg] = k.value
    if set(got) != set(names):
        return None
    return [got[n] for n in names]


def expand_seed_args(repo, call, rd, node):
    """[(expr, defining node or None)] for the (fwd, rev) arguments of a self._set_seeds(...) call.

    Understands positional / keyword arguments, `*local` where local is a tuple literal snapshot, and
    `*self.helper()` where the helper's body is a single `return (a, b)` (inlined)."""
    f = repo.try_func(REL, 'Relevance._set_seeds')
    if f is None:
        return None
    names = [a.arg for a in f.node.args.args][1:]
    items = []
    for a in call.args:
        if not isinstance(a, ast.Starred):
            items.append((a, None))
            continue
        v, elts, dn = a.value, None, None
        if isinstance(v, ast.Name):
            ds = rd.defs(node, v.id)
            if len(ds) == 1:
                d = next(iter(ds))
                if d.kind == 'stmt' and isinstance(d.ast, ast.Assign) and len(d.ast.targets) == 1 and \
                        astx.path(d.ast.targets[0]) == v.id and isinstance(d.ast.value, (ast.Tuple, ast.List)):
                    elts, dn = d.ast.value.elts, d
        elif isinstance(v, ast.Call) and not v.args and not v.keywords and \
                astx.path(astx.receiver(v)) == 'self':
            h = repo.try_func(REL, f'Relevance.{astx.callee_attr(v)}')
            body = astx.strip_doc(h.node.body) if h is not None else []
            if len(body) == 1 and isinstance(body[0], ast.Return) and \
                    isinstance(body[0].value, (ast.Tuple, ast.List)) and \
                    all((astx.path(e) or '').startswith('self.') for e in body[0].value.elts):
                elts = body[0].value.elts
        if elts is None or any(isinstance(e, ast.Starred) for e in elts):
            return None
        items += [(e, dn) for e in elts]
    kw = {k.arg: k.value for k in call.keywords}
    if None in kw or len(items) > len(names):
        return None
    res = []
    for i, nm in enumerate(names):
        if i < len(items):
            res.append(items[i])
        elif nm in kw:
            res.append((kw[nm], None))
        else:
            return None
    return res


def cache_slot(tgt):
    """(map expr, key1, key2) of a store target `M[k1][k2]` or `M.setdefault(k1, ...)[k2]`, else None."""
    if not isinstance(tgt, ast.Subscript):
        return None
    inner = tgt.value
    if isinstance(inner, ast.Subscript):
        return inner.value, inner.slice, tgt.slice
    if isinstance(inner, ast.Call) and astx.callee_attr(inner) == 'setdefault' and inner.args and \
            not inner.keywords and astx.receiver(inner) is not None:
        return astx.receiver(inner), inner.args[0], tgt.slice
    return None


def is_yield_node(n):
    return n.kind == 'stmt' and isinstance(n.ast, (ast.Expr, ast.Assign)) and \
        isinstance(getattr(n.ast, 'value', None), ast.Yield)


# =========================================================================== context managers
CTX = ('active', 'all_seeds_active', 'seeds_active', 'nonlinear_active')
STATE = {'self._active': 'active', 'self._current_rel_sarray': 'sarray',
         'self._current_rel_varray': 'varray'}


def node_writes(n):
    """Kinds of relevance state written at CFG node n: list of (kind, ast)."""
    out = []
    if n.kind == 'stmt' and isinstance(n.ast, (ast.Assign, ast.AugAssign, ast.AnnAssign)):
        for t in astx.assigned_targets(n.ast):
            p = astx.path(t)
            if p in STATE:
                out.append((STATE[p], n.ast))
            elif p and (p == 'self._seed_vars' or p.startswith('self._seed_vars[')):
                out.append(('seeds', n.ast))
    if n.kind in ('stmt', 'test', 'iter', 'with'):
        for c in n.calls():
            if astx.call_name(c) == 'self._set_seeds':
                out.append(('set_seeds', c))
    return out


def ctx_funcs(repo):
    return [repo.func(REL, f'Relevance.{nm}') for nm in CTX]


def assign_pairs(st):
    """[(target expr, value expr)] of an Assign, element-wise for `a, b = x, y`; [] if not decomposable."""
    if not isinstance(st, ast.Assign):
        return []
    out = []
    for t in st.targets:
        if isinstance(t, (ast.Tuple, ast.List)) and isinstance(st.value, (ast.Tuple, ast.List)) and \
                len(t.elts) == len(st.value.elts) and \
                not any(isinstance(e, ast.Starred) for e in list(t.elts) + list(st.value.elts)):
            out += list(zip(t.elts, st.value.elts))
        elif isinstance(t, (ast.Tuple, ast.List)):
            return []
        else:
            out.append((t, st.value))
    return out


def def_value(d, name):
    """Value expression bound to access path `name` by definition node d (handles tuple assignment)."""
    if d.kind != 'stmt':
        return None
    vals = [v for t, v in assign_pairs(d.ast) if astx.path(t) == name]
    return vals[0] if len(vals) == 1 else None


def def_value_rd(rd, d, name):
    """(node where the value is read, value expr) bound to `name` by definition node d.

    Handles `a, b = x, y` and `a, b = saved` where `saved` has a single tuple-literal definition."""
    v = def_value(d, name)
    if v is not None:
        return d, v
    if d.kind == 'stmt' and isinstance(d.ast, ast.Assign) and len(d.ast.targets) == 1 and \
            isinstance(d.ast.targets[0], (ast.Tuple, ast.List)) and isinstance(d.ast.value, ast.Name):
        idx = [i for i, t in enumerate(d.ast.targets[0].elts) if astx.path(t) == name]
        ds = rd.defs(d, d.ast.value.id)
        if len(idx) == 1 and len(ds) == 1:
            d2 = next(iter(ds))
            v2 = def_value(d2, d.ast.value.id)
            if isinstance(v2, (ast.Tuple, ast.List)) and len(v2.elts) == len(d.ast.targets[0].elts) and \
                    not any(isinstance(e, ast.Starred) for e in v2.elts):
                return d2, v2.elts[idx[0]]
    return None, None


def dealias(rd, at, e, depth=0):
    """e with a leading local name replaced by the self.* path it aliases (current = self._seed_vars)."""
    p = astx.path(e)
    if p is None or depth > 3:
        return e
    base = e
    while isinstance(base, (ast.Attribute, ast.Subscript)):
        base = base.value
    if not isinstance(base, ast.Name) or base.id == 'self':
        return e
    ds = rd.defs(at, base.id)
    if len(ds) != 1:
        return e
    d = next(iter(ds))
    d2, v = def_value_rd(rd, d, base.id)
    if v is None:
        return e
    v = dealias(rd, d2, v, depth + 1)
    vp = astx.path(v)
    if vp is None or not vp.startswith('self.') or '[*]' in p or '(' in vp:
        return e
    try:
        return ast.parse(vp + p[len(base.id):], mode='eval').body
    except SyntaxError:
        return e


def _snapshot_def(rd, at, name):
    """The unique definition of local `name` reaching `at`, as (node where the state was read, value
    expr with aliases resolved), following plain copies; (None, None) if not unique."""
    for _ in range(4):
        ds = rd.defs(at, name)
        if len(ds) != 1:
            return None, None
        d, v = def_value_rd(rd, next(iter(ds)), name)
        if v is None:
            return None, None
        if isinstance(v, ast.Name):
            at, name = d, v.id
            continue
        return d, dealias(rd, d, v)
    return None, None


def _leak(g, y, restores):
    """Witness path from the yield to an exit that avoids all `restores`, or None.

    The exceptional continuation of the yield itself and of explicit `raise` statements is followed;
    exceptions thrown by the restore statements themselves are not (restoring previously valid state)."""
    from collections import deque
    avoid = set(restores)
    par = {}
    dq = deque()
    for m, _ in g.succ[y]:
        if m not in avoid and m not in par:
            par[m] = None
            dq.append(m)
    while dq:
        n = dq.popleft()
        if n is g.exit or n is g.raise_exit:
            p = []
            while n is not None:
                p.append(n)
                n = par[n]
            return p[::-1]
        for m, lab in g.succ[n]:
            if lab == 'exc' and not (n.kind == 'stmt' and isinstance(n.ast, ast.Raise)):
                continue
            if m in avoid or m in par:
                continue
            par[m] = n
            dq.append(m)
    return None


@rule('C24.ctx', floor=8)
def ctx(repo, out):
    """Every relevance context manager restores, on both continuations of its yield, a snapshot taken before the first change; unchanged branches yield bare."""
    for fn in ctx_funcs(repo):
        g = cfgm.build(fn)
        rd = cfgm.ReachingDefs(g)
        short = fn.qualname.split('.')[-1]
        for n in g.nodes:
            for sub in (n.exprs() if n.kind in ('stmt', 'test', 'iter', 'with') else []):
                if any(isinstance(w, ast.YieldFrom) for w in astx.walk(sub)):
                    raise AnalysisError(f'{fn.ident}: `yield from` in a context manager')
        yields = g.where(is_yield_node)
        if not yields:
            raise AnalysisError(f'{fn.ident}: no yield found')
        writers = [(n, node_writes(n)) for n in g.nodes]
        writers = [(n, w) for n, w in writers if w]
        for y in yields:
            problems = 0
            pre = [(n, w) for n, w in writers
                   if n is not y and y in g.reach(g.normal_succ(n), labels=cfgm.noexc)]
            after = g.reach([m for m, _ in g.succ[y]])
            post = [(n, w) for n, w in writers if n in after and n is not y]
            if not pre:
                if post:
                    out.bad(fn, post[0][0].ast, 'relevance state is written after a yield that was reached '
                            'without saving anything: the caller\'s state is overwritten on exit',
                            key=f'{short}-bare-yield-writes')
                else:
                    out.ok(fn, y.ast, 'branch changes no relevance state and yields bare')
                continue
            needed = set()
            for n, ws in pre:
                for k, _ in ws:
                    if k == 'set_seeds':
                        needed.update(('seeds', 'active'))
                    elif k == 'seeds':
                        needed.add('seeds')
                    else:
                        needed.add(k)
            needed.discard('varray')   # only ever written through _set_seeds
            succs = [m for m, _ in g.succ[y]]
            for kind in sorted(needed):
                if kind == 'seeds':
                    restores = [n for n, ws in post if any(k == 'set_seeds' for k, _ in ws)]
                else:
                    restores = [n for n, ws in post if any(k == kind for k, _ in ws)]
                w = _leak(g, y, restores)
                if w is not None:
                    how = 'when the body of the with-block raises' if w and w[-1] is g.raise_exit \
                        else 'on normal exit'
                    what = {'active': 'self._active', 'seeds': 'the active seeds (_set_seeds)',
                            'sarray': 'self._current_rel_sarray'}[kind]
                    out.bad(fn, y.ast, f'{what} is changed before the yield but not restored {how}: '
                            f'{g.fmt_path(w)}', key=f'{short}-{kind}-not-restored')
                    problems += 1
                    continue
                # the first-changing writes of this kind before the yield
                firsts = [n for n, ws in pre
                          if any(k == kind or k == 'set_seeds' for k, _ in ws)]
                for r in restores:
                    if kind == 'seeds':
                        call = [c for k, c in node_writes(r) if k == 'set_seeds'][0]
                        ex = expand_seed_args(repo, call, rd, r)
                        got = []
                        for a, dn in (ex or [(None, None), (None, None)]):
                            if dn is not None:
                                got.append((dn, astx.path(dealias(rd, dn, a))))
                            elif isinstance(a, ast.Name):
                                d, v = _snapshot_def(rd, r, a.id)
                                got.append((d, astx.path(v) if v is not None else None))
                            else:
                                got.append((None, None))
                        paths = [p for _, p in got]
                        if paths == ["self._seed_vars['fwd']", "self._seed_vars['rev']"]:
                            late = [d for d, _ in got for f in firsts
                                    if d in g.reach(g.normal_succ(f), labels=cfgm.noexc)]
                            if late:
                                out.bad(fn, late[0].ast, 'seed snapshot is taken after the seeds were '
                                        'already changed: exit "restores" the temporary seeds',
                                        key=f'{short}-seeds-snapshot-late')
                                problems += 1
                        elif paths == ["self._seed_vars['rev']", "self._seed_vars['fwd']"]:
                            out.bad(fn, call, 'saved fwd and rev seeds are restored into each other\'s slot',
                                    key=f'{short}-seeds-swapped')
                            problems += 1
                        elif None not in paths and paths[0] == paths[1]:
                            out.bad(fn, call, f'both seed slots are restored from {paths[0]}',
                                    key=f'{short}-seeds-swapped')
                            problems += 1
                        else:
                            out.unsure(fn, call, 'restored seeds are not plain snapshots of '
                                       "self._seed_vars['fwd'/'rev']")
                            problems += 1
                        continue
                    target = {'active': 'self._active', 'sarray': 'self._current_rel_sarray'}[kind]
                    st = r.ast
                    val = st.value if isinstance(st, ast.Assign) else None
                    if isinstance(val, ast.Constant):
                        out.bad(fn, st, f'{target} is reset to the constant {val.value!r} instead of the value '
                                'it had on entry: a nested use changes the caller\'s setting',
                                key=f'{short}-{kind}-restores-constant')
                        problems += 1
                        continue
                    if not isinstance(val, ast.Name):
                        out.unsure(fn, st, f'{target} restored from an expression that is not a saved local')
                        problems += 1
                        continue
                    d, v = _snapshot_def(rd, r, val.id)
                    if d is None:
                        out.unsure(fn, st, f'cannot resolve the snapshot `{val.id}` to a single definition')
                        problems += 1
                        continue
                    if astx.path(v) != target:
                        if astx.path(v) in STATE or isinstance(v, ast.Constant):
                            out.bad(fn, st, f'{target} is restored from `{val.id}` which holds '
                                    f'`{astx.src(v)}`, not the value of {target} on entry',
                                    key=f'{short}-{kind}-restores-other')
                        else:
                            out.unsure(fn, st, f'snapshot `{val.id}` = `{astx.src(v)}` is not {target}')
                        problems += 1
                        continue
                    late = [f for f in firsts if d in g.reach(g.normal_succ(f), labels=cfgm.noexc)]
                    if late:
                        out.bad(fn, d.ast, f'snapshot of {target} is taken after `{astx.src(late[0].ast)}` '
                                'already changed it: exit restores the temporary value',
                                key=f'{short}-{kind}-snapshot-late')
                        problems += 1
            if not problems:
                out.ok(fn, y.ast, 'saved before first change and restored on normal and exceptional exit: '
                       + ', '.join(sorted(needed)))


def explore_to_yield(fn, g, env0, at_exit=False):
    """All (env, writes, yield-node) reachable at a yield from entry under env0 (exceptional edges
    ignored, undecidable tests followed both ways).  With at_exit the states at the normal exit are
    collected instead."""
    results = []
    seen = set()
    stack = [(g.entry, tuple(sorted(env0.items(), key=lambda kv: kv[0])), ())]
    while stack:
        n, envt, writes = stack.pop()
        key = (n.id, tuple((k, id(v) if v is TOP else v) for k, v in envt), writes)
        if key in seen:
            continue
        seen.add(key)
        env = dict(envt)
        if n is g.exit and at_exit:
            results.append((env, writes, n))
            continue
        if n is g.exit or n is g.raise_exit:
            continue
        if is_yield_node(n) and not at_exit:
            results.append((env, writes, n))
            continue
        if n.kind in ('iter', 'with', 'match', 'except'):
            raise AnalysisError(f'{fn.ident}: unexpected `{astx.src(n.ast)}` before the yield')
        if n.kind == 'test':
            vals = eval_all(n.ast.test, env)
            for m, lab in g.succ[n]:
                if (lab == 'true' and True in vals) or (lab == 'false' and False in vals):
                    stack.append((m, envt, writes))
            continue
        envs = [env]
        if n.kind == 'stmt':
            for k, node in node_writes(n):
                writes = writes + (k,)
            if isinstance(n.ast, ast.Assign):
                pairs = assign_pairs(n.ast)
                # all right-hand sides are evaluated before any target is bound
                nxt = []
                for e1 in envs:
                    combos = [dict()]
                    for t, v in pairs:
                        p = astx.path(t)
                        if p is None:
                            continue
                        tracked = p in e1 or p in STATE or isinstance(t, ast.Name)
                        if not tracked:
                            continue
                        vals = values_all(v, e1)
                        if vals == [TOP] and not (p in e1 or p in STATE):
                            continue
                        combos = [dict(c, **{p: x}) for c in combos for x in vals]
                    for c in combos:
                        e2 = dict(e1)
                        e2.update(c)
                        nxt.append(e2)
                if not pairs:
                    for t in astx.assigned_targets(n.ast):
                        p = astx.path(t)
                        if p is not None and (p in env or p in STATE):
                            nxt = [dict(e1, **{p: TOP}) for e1 in (nxt or envs)]
                envs = nxt or envs
        for e1 in envs:
            envt1 = tuple(sorted(e1.items(), key=lambda kv: kv[0]))
            for m, lab in g.succ[n]:
                if lab != 'exc':
                    stack.append((m, envt1, writes))
    return results


@rule('C24.off', floor=4)
def off(repo, out):
    """A disabled Relevance (_active False) is never touched or re-activated by a context manager; active(False) always deactivates; active(True) never activates an uninitialised (_active None) object."""
    for fn in ctx_funcs(repo):
        g = cfgm.build(fn)
        short = fn.qualname.split('.')[-1]
        params = [a.arg for a in fn.node.args.args[1:]]
        has_flag = 'active' in params
        problems = 0
        nstates = 0
        for s in (True, False, None):
            for a in ((True, False) if has_flag else (None,)):
                env = {'self._active': s}
                if has_flag:
                    env['active'] = a
                res = explore_to_yield(fn, g, env)
                nstates += 1
                if not res:
                    out.unsure(fn, fn.node, f'no yield reachable with _active={s!r}, active={a!r}')
                    problems += 1
                    continue
                for env1, writes, y in res:
                    inside = env1.get('self._active')
                    if s is False and writes:
                        out.bad(fn, y.ast, 'with self._active == False (relevance permanently disabled: '
                                'OPENMDAO_NO_RELEVANCE or no seeds) the manager still executes '
                                f'{sorted(set(writes))} and runs the block with _active={inside!r}',
                                key=f'{short}-disabled-touched')
                        problems += 1
                    if short == 'active' and inside is not TOP and inside and not s and \
                            not ({'set_seeds', 'sarray'} & set(writes)):
                        what = ('an uninitialised relevance object (_active None: no seeds were set for the '
                                'current operation)' if s is None else 'a disabled relevance object')
                        out.bad(fn, y.ast, f'active({a!r}) switches filtering ON for {what} without establishing '
                                'the relevance arrays: filter()/is_relevant() stop being fail-open and prune '
                                'with whatever arrays an earlier derivative computation left behind (a plain '
                                'run_model then skips systems)', key='active-activates-uninitialised')
                        problems += 1
                    if short == 'active' and a is False:
                        if inside is TOP:
                            out.unsure(fn, y.ast, 'value of _active inside active(False) not resolved')
                            problems += 1
                        elif inside:
                            out.bad(fn, y.ast, f'active(False) entered with _active={s!r} leaves _active='
                                    f'{inside!r} inside the block: callers that must see every subsystem '
                                    '(DirectSolver assembly, check_partials) are pruned',
                                    key='active-false-stays-on')
                            problems += 1
        out.count('abstract_states', nstates)
        if not problems:
            out.ok(fn, fn.node, f'{nstates} abstract entry states: disabled stays untouched'
                   + ('; active(False) leaves _active falsy; active(True) never turns an inactive (None) '
                      'object on' if short == 'active' else ''))


# =========================================================================== filter / fail-open
def _filter_sem(fn, A, R, S):
    """Does Relevance.filter yield the (single, symbolic) system under valuation A, R, S?"""
    args = [a.arg for a in fn.node.args.args]
    if len(args) < 3:
        raise AnalysisError(f'{fn.ident}: signature changed')
    systems, relevant = args[1], args[2]
    env = {'self._active': A, relevant: R}

    class Stop(Exception):
        pass

    def calls(lv):
        def cb(c, env_):
            if astx.call_name(c) == 'self.is_relevant_system':
                if len(c.args) != 1 or c.keywords:
                    raise Unknown(c)
                p = astx.path(c.args[0])
                if lv is not None and p == f'{lv}.pathname':
                    return (S,)
                if lv is not None and p in (f'{lv}.name', lv):
                    raise Mismatch(c, f'is_relevant_system is keyed by absolute pathname but is called '
                                      f'with `{astx.src(c.args[0])}`')
                u = Unknown(c)
                u.key = astx.dump(c)
                raise u
            return None
        return cb

    yielded = [False]

    def run(stmts, lv):
        for st in stmts:
            if isinstance(st, ast.If):
                try:
                    v = ev(st.test, env, {}, calls(lv))
                except Unknown as u:
                    raise Unknown(u.node)
                run(st.body if v else st.orelse, lv)
            elif isinstance(st, ast.For):
                if astx.path(st.iter) != systems or not isinstance(st.target, ast.Name) or st.orelse:
                    raise Unknown(st)
                run(st.body, st.target.id)
            elif isinstance(st, ast.Assign) and len(st.targets) == 1 and isinstance(st.targets[0], ast.Name) \
                    and st.targets[0].id not in (systems, relevant, lv):
                try:
                    env[st.targets[0].id] = ev(st.value, env, {}, calls(lv))
                except Unknown as u:
                    raise Unknown(u.node)
            elif isinstance(st, ast.Expr) and isinstance(st.value, ast.Yield):
                if lv is not None and astx.path(st.value.value) == lv:
                    yielded[0] = True
                else:
                    raise Unknown(st)
            elif isinstance(st, ast.Expr) and isinstance(st.value, ast.YieldFrom):
                if lv is None and astx.path(st.value.value) == systems:
                    yielded[0] = True
                else:
                    raise Unknown(st)
            elif isinstance(st, ast.Return) and st.value is None:
                raise Stop()
            elif isinstance(st, ast.Pass):
                pass
            else:
                raise Unknown(st)
    try:
        run(astx.strip_doc(fn.node.body), None)
    except Stop:
        pass
    return yielded[0]


@rule('C24.filter', floor=1)
def filter_rule(repo, out):
    """Relevance.filter yields s iff relevant == is_relevant_system(s.pathname) when active, iff relevant when inactive."""
    fn = repo.func(REL, 'Relevance.filter')
    qf = repo.func(REL, 'Relevance.is_relevant_system')
    qg = cfgm.build(qf)
    n = 0
    for A in (True, False, None):
        # what can is_relevant_system answer in this activation state?  (it may itself be fail-open)
        rets = _returns_when(qf, qg, {'self._active': A})
        forced = bool(rets) and all(r is not None and isinstance(r.ast.value, ast.Constant) and
                                    r.ast.value.value is True for r in rets)
        for R in (True, False):
            for S in ((True,) if forced else (True, False)):
                n += 1
                try:
                    got = _filter_sem(fn, A, R, S)
                except Mismatch as m:
                    out.bad(fn, m.node, m.why + ': below the top level group every child is reported '
                            'irrelevant', key='filter-key')
                    return
                except Unknown as u:
                    out.unsure(fn, u.node, f'unrecognised construct in filter: {astx.src(u.node)}')
                    return
                want = (R == S) if A else R
                if got == want:
                    continue
                st = f'_active={A!r}, relevant={R!r}, is_relevant_system={S!r}'
                if not A:
                    why = ('drops systems although relevance is inactive' if R else
                           'reports systems as irrelevant although relevance is inactive (their vectors '
                           'get zeroed)')
                    out.bad(fn, fn.node, f'{why} [{st}]', key='filter-inactive')
                    return
                if S:
                    why = ('a relevant system is not yielded to the sweep' if R else
                           'a relevant system is yielded as irrelevant (its vectors get zeroed)')
                    out.bad(fn, fn.node, f'{why} [{st}]', key='filter-active')
                    return
                out.unsure(fn, fn.node, f'irrelevant system handled differently from the specification '
                           f'(harmless for results if intended) [{st}]')
                return
    out.count('valuations', n)
    out.ok(fn, fn.node, f'agrees with the specification on {n} valuations (answers of is_relevant_system '
           'restricted to those it can give in each activation state); keyed by system.pathname')


def _returns_when(fn, g, env, preset=None):
    """Return nodes (and implicit fall-through) reachable from entry under env."""
    outs = []
    seen = set()
    stack = [g.entry]
    while stack:
        n = stack.pop()
        if n in seen:
            continue
        seen.add(n)
        if n is g.exit:
            outs.append(None)
            continue
        if n is g.raise_exit:
            continue
        if n.kind == 'stmt' and isinstance(n.ast, ast.Return):
            outs.append(n)
            continue
        if n.kind == 'test':
            vals = eval_all(n.ast.test, env, preset=preset)
            for m, lab in g.succ[n]:
                if (lab == 'true' and True in vals) or (lab == 'false' and False in vals):
                    stack.append(m)
            continue
        if n.kind == 'stmt' and any(astx.path(t) in env for t in astx.assigned_targets(n.ast)):
            raise AnalysisError(f'{fn.ident}: writes {astx.src(n.ast)} inside a query')
        for m, lab in g.succ[n]:
            if lab != 'exc':
                stack.append(m)
    return outs


@rule('C24.failopen', floor=2)
def failopen(repo, out):
    """is_relevant / any_relevant answer True on every path when relevance is inactive (is_relevant_system: see C24.filter, its only caller)."""
    for nm in ('is_relevant', 'any_relevant'):
        fn = repo.func(REL, f'Relevance.{nm}')
        g = cfgm.build(fn)
        bad = None
        for s in (False, None):
            for r in _returns_when(fn, g, {'self._active': s, 'self.empty': False}):
                if r is None:
                    bad = (s, fn.node, 'falls off the end (returns None)')
                elif not (isinstance(r.ast.value, ast.Constant) and r.ast.value.value is True):
                    bad = (s, r.ast, f'can `{astx.src(r.ast)}`')
        if bad:
            s, node, how = bad
            if isinstance(node, ast.Return) and not isinstance(node.value, ast.Constant) and \
                    not astx.mentions(node.value, '_current_rel_varray', '_current_rel_sarray'):
                out.unsure(fn, node, f'with _active={s!r} the query returns an expression that is not '
                           'recognised')
            else:
                out.bad(fn, node, f'with _active={s!r} (relevance inactive) the query {how} instead of '
                        'answering True: callers skip work although pruning is switched off',
                        key=f'{nm}-not-fail-open')
        else:
            out.ok(fn, fn.node, 'returns True on every path when _active is False or None')


# =========================================================================== array families
FAMILY = {'_seed_var_map': 'v', '_single_seed2relvars': 'v', '_current_rel_varray': 'v', '_var2idx': 'v',
          '_seed_sys_map': 's', '_single_seed2relsys': 's', '_current_rel_sarray': 's', '_sys2idx': 's'}


def _local_aliases(fn):
    """Local names bound in a chained assignment together with a self.<family attr> target."""
    al = {}
    for st in astx.walk_stmts(fn.node.body):
        if isinstance(st, ast.Assign) and len(st.targets) > 1:
            fams = {FAMILY[t.attr] for t in st.targets
                    if isinstance(t, ast.Attribute) and astx.path(t.value) == 'self' and t.attr in FAMILY}
            if len(fams) == 1:
                for t in st.targets:
                    if isinstance(t, ast.Name):
                        al[t.id] = next(iter(fams))
    # a name must not be rebound elsewhere
    for st in astx.walk_stmts(fn.node.body):
        for t in astx.assigned_targets(st) if isinstance(st, (ast.Assign, ast.AugAssign, ast.For)) else []:
            if isinstance(t, ast.Name) and t.id in al and not (isinstance(st, ast.Assign) and len(st.targets) > 1):
                al.pop(t.id)
    return al


def family(e, aliases):
    """'v' / 's' / None for the base container of expression e."""
    while isinstance(e, ast.Subscript):
        e = e.value
    if isinstance(e, ast.Attribute) and astx.path(e.value) == 'self':
        return FAMILY.get(e.attr)
    if isinstance(e, ast.Name):
        return aliases.get(e.id)
    return None


def _dir_slot(e):
    """('fwd'|'rev', base expr) of X['fwd'] / X['rev'], else (None, None)."""
    if isinstance(e, ast.Subscript):
        k = astx.const_str(e.slice)
        if k in ('fwd', 'rev'):
            return k, e.value
    return None, None


def _key_equiv(key, seeds):
    if astx.same(key, seeds):
        return True
    if isinstance(seeds, (ast.List, ast.Tuple)) and len(seeds.elts) == 1 and astx.same(key, seeds.elts[0]):
        return True
    return False


@rule('C24.arrays', floor=18)
def arrays(repo, out):
    """Variable arrays pair with variable maps and system arrays with system maps; fwd/rev slots and [fwd][rev] cache keys match the seeds combined."""
    # (a) _set_seeds
    fn = repo.func(REL, 'Relevance._set_seeds')
    g = cfgm.build(fn)
    rd = cfgm.ReachingDefs(g)
    params = [a.arg for a in fn.node.args.args[1:]]
    if len(params) != 2:
        raise AnalysisError(f'{fn.ident}: signature changed')
    stores = {}
    for n in g.nodes:
        if n.kind == 'stmt' and isinstance(n.ast, ast.Assign) and len(n.ast.targets) == 1:
            p = astx.path(n.ast.targets[0])
            if p in ("self._seed_vars['fwd']", "self._seed_vars['rev']"):
                stores[p[-5:-2]] = n

    def origin(node, expr, depth=0):
        """Index (0/1) of the parameter an expression derives from through `x = self._to_seed(x)`."""
        if depth > 4 or not isinstance(expr, ast.Name):
            return None
        ds = rd.defs(node, expr.id)
        if len(ds) != 1:
            return None
        d = next(iter(ds))
        if d is g.entry:
            return params.index(expr.id) if expr.id in params else None
        if d.kind == 'stmt' and isinstance(d.ast, ast.Assign):
            v = d.ast.value
            if isinstance(v, ast.Call) and astx.call_name(v) == 'self._to_seed' and len(v.args) == 1:
                return origin(d, v.args[0], depth + 1)
            return origin(d, v, depth + 1)
        return None
    if set(stores) != {'fwd', 'rev'}:
        raise AnalysisError(f"{fn.ident}: stores to self._seed_vars['fwd'/'rev'] not found")
    o = {k: origin(n, n.ast.value) for k, n in stores.items()}
    if o == {'fwd': 0, 'rev': 1}:
        out.ok(fn, stores['fwd'].ast, "_seed_vars['fwd'/'rev'] receive the fwd/rev parameter")
    elif o == {'fwd': 1, 'rev': 0}:
        out.bad(fn, stores['fwd'].ast, "_seed_vars['fwd'] receives the rev seeds and vice versa",
                key='seed-vars-direction')
    elif None not in o.values() and o['fwd'] == o['rev']:
        out.bad(fn, stores['rev'].ast, "both _seed_vars slots receive the same parameter",
                key='seed-vars-direction')
    else:
        out.unsure(fn, stores['fwd'].ast, 'cannot trace the stored seeds to the parameters')
    found = set()
    for n in g.nodes:
        if not (n.kind == 'stmt' and isinstance(n.ast, ast.Assign) and len(n.ast.targets) == 1):
            continue
        t = n.ast.targets[0]
        if astx.path(t) not in ('self._current_rel_varray', 'self._current_rel_sarray'):
            continue
        fam = family(t, {})
        c = n.ast.value
        cargs = bind_args(repo, c, 'Relevance._get_rel_array') \
            if isinstance(c, ast.Call) and astx.call_name(c) == 'self._get_rel_array' else None
        if cargs is None or len(cargs) != 4:
            out.unsure(fn, n.ast, 'current relevance array not obtained from self._get_rel_array(map, single, fwd, rev)')
            continue
        found.add(fam)
        fams = [family(cargs[0], {}), family(cargs[1], {})]
        if None in fams:
            out.unsure(fn, n.ast, 'map arguments are not the known relevance maps')
            continue
        if fams != [fam, fam]:
            nm = {'v': 'variable', 's': 'system'}
            out.bad(fn, n.ast, f'the {nm[fam]} relevance array is looked up in / combined from '
                    f'{[nm[f] for f in fams]} maps: it is later indexed with the {nm[fam]} index',
                    key=f'set-seeds-family-{fam}')
            continue
        oo = [origin(n, cargs[2]), origin(n, cargs[3])]
        if oo == [0, 1]:
            out.ok(fn, n.ast, f'{fam}-array from {fam}-maps with (fwd, rev) seeds')
        elif oo == [1, 0]:
            out.bad(fn, n.ast, 'fwd and rev seeds are passed in swapped positions', key=f'set-seeds-swapped-{fam}')
        elif None not in oo:
            out.bad(fn, n.ast, 'the same seeds are passed for both directions', key=f'set-seeds-swapped-{fam}')
        else:
            out.unsure(fn, n.ast, 'cannot trace the seed arguments')
    if found != {'v', 's'}:
        out.bad(fn, fn.node, '_set_seeds no longer recomputes both the variable and the system relevance '
                f'array (found {sorted(found)}): the other one keeps describing the previous seeds',
                key='set-seeds-missing-array')

    # (b) _combine_relevance call sites
    for qn in ('Relevance._set_all_seeds', 'Relevance._get_rel_array', 'Relevance._par_deriv_err_check',
               'Relevance.iter_seed_pair_relevance'):
        f = repo.try_func(REL, qn)
        if f is None:
            continue
        al = _local_aliases(f)
        fparams = [a.arg for a in f.node.args.args]
        gg = rdd = None
        for st in astx.walk_stmts(f.node.body):
            for c in [c for c in astx.calls(st) if astx.stmt_of(c) is st]:
                if astx.callee_attr(c) != '_combine_relevance' or astx.path(astx.receiver(c)) != 'self':
                    continue
                cargs = bind_args(repo, c, 'Relevance._combine_relevance')
                if cargs is None or len(cargs) != 4:
                    out.unsure(f, st, '_combine_relevance arguments cannot be bound to (fmap, fwd_seeds, rmap, rev_seeds)')
                    continue
                (d0, b0), (d1, b1) = _dir_slot(cargs[0]), _dir_slot(cargs[2])
                if d0 is None or d1 is None:
                    out.unsure(f, st, "array maps are not of the form X['fwd'], X['rev']")
                    continue
                if (d0, d1) != ('fwd', 'rev'):
                    out.bad(f, st, f"the fwd map argument is X[{d0!r}] and the rev map argument X[{d1!r}]: "
                            'seeds are looked up in the arrays of the other direction',
                            key='combine-direction')
                    continue
                f0, f1 = family(b0, al), family(b1, al)
                generic = isinstance(b0, ast.Name) and b0.id in fparams and astx.same(b0, b1)
                if not generic:
                    if f0 is None or f1 is None:
                        out.unsure(f, st, 'single-seed maps not recognised')
                        continue
                    if f0 != f1:
                        out.bad(f, st, 'variable arrays are intersected with system arrays', key='combine-family')
                        continue
                # where does the result go?
                tgt = None
                if isinstance(st, ast.Assign) and len(st.targets) == 1 and st.value is c:
                    tgt = st.targets[0]
                    if isinstance(tgt, ast.Name):
                        # relarr = ...; <map>[k1][k2] = relarr
                        users = [s2 for s2 in astx.walk_stmts(f.node.body)
                                 if isinstance(s2, ast.Assign) and len(s2.targets) == 1 and
                                 isinstance(s2.value, ast.Name) and s2.value.id == tgt.id and
                                 cache_slot(s2.targets[0]) is not None]
                        if len(users) != 1:
                            out.unsure(f, st, 'combined array is not stored into exactly one cache slot')
                            continue
                        if gg is None:
                            gg = cfgm.build(f)
                            rdd = cfgm.ReachingDefs(gg)
                        un = gg.nodes_of(users[0])
                        if not un or {d.ast for d in rdd.defs(un[0], tgt.id)} != {st}:
                            out.unsure(f, st, 'combined array is redefined before it is cached')
                            continue
                        tgt = users[0].targets[0]
                slot = cache_slot(tgt)
                if slot is None:
                    out.unsure(f, st, 'result is not stored as <map>[fwd][rev]')
                    continue
                base, k1, k2 = slot
                if not generic:
                    ft = family(base, al)
                    if ft is None:
                        out.unsure(f, st, 'target cache map not recognised')
                        continue
                    if ft != f0:
                        nm = {'v': 'variable', 's': 'system'}
                        out.bad(f, st, f'{nm[f0]} arrays are cached in the {nm[ft]} map', key='combine-family')
                        continue
                e1, e2 = _key_equiv(k1, cargs[1]), _key_equiv(k2, cargs[3])
                if e1 and e2:
                    out.ok(f, st, 'cache key [fwd][rev] equals the combined seeds; families agree')
                elif _key_equiv(k1, cargs[3]) and _key_equiv(k2, cargs[1]):
                    out.bad(f, st, 'cached under [rev][fwd] although every reader indexes [fwd][rev]',
                            key='combine-keys-swapped')
                else:
                    out.bad(f, st, f'cached under [{astx.src(k1)}][{astx.src(k2)}] but combined from seeds '
                            f'({astx.src(cargs[1])}, {astx.src(cargs[3])}): a later lookup of that key '
                            'returns the relevance of other seeds', key='combine-key-mismatch')
    # the cache read in _get_rel_array uses the same key order as its store
    f = repo.func(REL, 'Relevance._get_rel_array')
    fp = [a.arg for a in f.node.args.args]
    if len(fp) == 5:
        for st in astx.walk_stmts(f.node.body):
            if isinstance(st, ast.Return) and isinstance(st.value, ast.Subscript) and \
                    isinstance(st.value.value, ast.Subscript) and astx.path(st.value.value.value) == fp[1]:
                ks = [astx.path(st.value.value.slice), astx.path(st.value.slice)]
                if ks == [fp[3], fp[4]]:
                    out.ok(f, st, 'cache is read as [fwd_seeds][rev_seeds]')
                elif ks == [fp[4], fp[3]]:
                    out.bad(f, st, 'cache is read as [rev][fwd] but written as [fwd][rev]', key='cache-read-swapped')
                else:
                    out.unsure(f, st, 'cache read key not recognised')

    # (e) direction of every _set_seeds(fwd, rev) call in the context managers
    for f in ctx_funcs(repo):
        cg = cfgm.build(f)
        crd = cfgm.ReachingDefs(cg)

        def seed_dir(node, e, depth=0):
            d, base = _dir_slot(dealias(crd, node, e))
            if d and astx.path(base) in ('self._seed_vars', 'self._all_seed_vars'):
                return d
            if isinstance(e, ast.IfExp) and depth < 4:
                da, db = seed_dir(node, e.body, depth + 1), seed_dir(node, e.orelse, depth + 1)
                if da == db:
                    return da
                if {da, db} <= {'fwd', 'rev', 'mixed'}:
                    return 'mixed'
                return None
            if isinstance(e, ast.Name) and depth < 4:
                dirs = set()
                for dn in crd.defs(node, e.id):
                    if dn is cg.entry:
                        dirs.add({'fwd_seeds': 'fwd', 'rev_seeds': 'rev'}.get(e.id))
                    elif def_value_rd(crd, dn, e.id)[1] is not None:
                        d2, v2 = def_value_rd(crd, dn, e.id)
                        dirs.add(seed_dir(d2, v2, depth + 1))
                    else:
                        dirs.add(None)
                if dirs == {'fwd', 'rev'}:
                    return 'mixed'
                return dirs.pop() if len(dirs) == 1 else None
            return None
        for n in cg.nodes:
            if n.tag and n.tag.endswith('/exc'):
                continue
            if n.kind not in ('stmt', 'with', 'test', 'iter'):
                continue
            for c in n.calls():
                if astx.call_name(c) != 'self._set_seeds':
                    continue
                if n.tag and any(m is not n and m.ast is n.ast and not m.tag.endswith('/exc') and m.id < n.id
                                 for m in cg.nodes_of(n.ast)):
                    continue
                ex = expand_seed_args(repo, c, crd, n)
                if ex is None:
                    out.unsure(f, c, '_set_seeds not called with (fwd, rev)')
                    continue
                d0, d1 = [seed_dir(dn if dn is not None else n, a) for a, dn in ex]
                if (d0, d1) == ('fwd', 'rev'):
                    out.ok(f, c, 'fwd seeds in the fwd slot, rev seeds in the rev slot')
                elif 'mixed' in (d0, d1):
                    out.bad(f, c, 'a seed argument defaults to the seeds of the other direction on some path',
                            key='seed-default-crossed')
                elif d0 is None or d1 is None:
                    out.unsure(f, c, 'cannot trace the direction of the seed arguments')
                else:
                    out.bad(f, c, f'_set_seeds(fwd, rev) receives ({d0}, {d1}) seeds', key='set-seeds-call-swapped')

    # (c) index families
    repo.cls(REL, 'Relevance')
    for f in repo.module(REL).funcs.values():
        if not f.qualname.startswith('Relevance.'):
            continue
        for w in astx.walk(f.node):
            if isinstance(w, ast.Subscript) and isinstance(w.slice, ast.Subscript):
                fa, fi = family(w.value, {}), family(w.slice.value, {})
                if astx.path(w.value) in ('self._current_rel_varray', 'self._current_rel_sarray') and \
                        astx.path(w.slice.value) in ('self._var2idx', 'self._sys2idx'):
                    if fa == fi:
                        out.ok(f, w, 'array and index map of the same family')
                    else:
                        out.bad(f, w, 'a variable relevance array is indexed with the system index map or '
                                'vice versa', key='index-family')


@rule('C24.combine', floor=1)
def combine(repo, out):
    """_combine_relevance accumulates the union over seed pairs (|=) and never overwrites or intersects the accumulator."""
    fn = repo.func(REL, 'Relevance._combine_relevance')
    loops = [st for st in astx.walk_stmts(fn.node.body) if isinstance(st, ast.For)]
    if len(loops) != 2 or not astx.in_body(loops[1], loops[0], 'body'):
        out.unsure(fn, fn.node, 'expected two nested loops over fwd and rev seeds')
        return
    inner = loops[1]
    writes = [st for st in astx.walk_stmts(loops[0].body)
              if isinstance(st, (ast.Assign, ast.AugAssign)) and
              any(isinstance(t, ast.Name) for t in astx.assigned_targets(st))]
    ret = [st for st in astx.walk_stmts(fn.node.body) if isinstance(st, ast.Return)]
    acc = None
    for st in writes:
        if isinstance(st, ast.AugAssign) and isinstance(st.target, ast.Name):
            acc = st.target.id
    if acc is None:
        cands = {t.id for st in writes if astx.in_body(st, inner, 'body')
                 for t in astx.assigned_targets(st) if isinstance(t, ast.Name)}
        cands = {c for c in cands if any(astx.mentions(r, c) for r in ret)}
        if len(cands) == 1:
            acc = cands.pop()
    if acc is None:
        out.unsure(fn, fn.node, 'accumulator not identified')
        return
    problems = 0
    n_or = 0
    for st in writes:
        tg = [t.id for t in astx.assigned_targets(st) if isinstance(t, ast.Name)]
        if acc not in tg:
            continue
        if isinstance(st, ast.AugAssign):
            if isinstance(st.op, ast.BitOr):
                n_or += 1
            elif isinstance(st.op, (ast.BitAnd, ast.BitXor, ast.Sub)):
                out.bad(fn, st, f'the accumulator is combined with `{astx.src(st)}`: seed pairs are '
                        'intersected instead of united, relevant systems are dropped',
                        key='combine-accumulate')
                problems += 1
            else:
                out.unsure(fn, st, 'unrecognised accumulate operator')
                problems += 1
        else:
            par = st._parent
            first = isinstance(par, ast.If) and isinstance(par.test, ast.Compare) and \
                len(par.test.ops) == 1 and astx.path(par.test.left) == acc and \
                isinstance(par.test.comparators[0], ast.Constant) and par.test.comparators[0].value is None and \
                ((isinstance(par.test.ops[0], ast.Is) and st in par.body) or
                 (isinstance(par.test.ops[0], ast.IsNot) and st in par.orelse))
            if not first:
                out.bad(fn, st, f'`{astx.src(st)}` overwrites the accumulator inside the seed loops: only '
                        'the last seed pair survives', key='combine-overwrite')
                problems += 1
    if not problems and n_or < 1:
        out.bad(fn, inner, 'no `|=` accumulation over the seed pairs', key='combine-accumulate')
        problems += 1
    for lp in (loops[0], inner):
        for st in astx.walk_stmts(lp.body):
            if isinstance(st, (ast.Break, ast.Return)):
                out.bad(fn, st, 'the seed loops are left early: later seeds are ignored', key='combine-early-exit')
                problems += 1
    if not problems:
        out.ok(fn, inner, f'`{acc}` starts from the first pair and is united (|=) with every further pair')


# =========================================================================== who / switch
STATE_ATTRS = ('_active', '_current_rel_sarray', '_current_rel_varray')
WRITERS = {
    (REL, 'Relevance.__init__'): 'initial state (constants; honours the OPENMDAO_NO_RELEVANCE switch)',
    (REL, 'Relevance.active'): 'save/restore discipline decided by C24.ctx and C24.off',
    (REL, 'Relevance.all_seeds_active'): 'save/restore discipline decided by C24.ctx and C24.off',
    (REL, 'Relevance.seeds_active'): 'save/restore discipline decided by C24.ctx and C24.off',
    (REL, 'Relevance.nonlinear_active'): 'save/restore discipline decided by C24.ctx and C24.off',
    (REL, 'Relevance._set_seeds'): 'recomputes both arrays from the seeds; may only clear _active',
}


@rule('C24.who', floor=7)
def who(repo, out):
    """Relevance state is written only by __init__, the four context managers and _set_seeds (which can only clear _active); OPENMDAO_NO_RELEVANCE leaves _active False after construction."""
    seen = set()
    for rel in repo.shipped():
        src = repo.source(rel)
        if not any('.' + a in src for a in STATE_ATTRS):
            continue
        for f in repo.module(rel).funcs.values():
            for st in astx.walk_stmts(f.node.body):
                if not isinstance(st, (ast.Assign, ast.AugAssign, ast.AnnAssign)):
                    continue
                for t in astx.assigned_targets(st):
                    if not (isinstance(t, ast.Attribute) and t.attr in STATE_ATTRS):
                        continue
                    key = (rel, f.qualname)
                    if key not in WRITERS:
                        out.bad(f, st, f'`{astx.src(st)}` changes relevance state outside the save/restore '
                                'context managers: the change outlives the operation and prunes (or stops '
                                'pruning) every later solve', key='relevance-state-writer')
                        continue
                    seen.add(key)
                    if f.qualname == 'Relevance._set_seeds' and t.attr == '_active':
                        v = st.value if isinstance(st, ast.Assign) else None
                        if not (isinstance(v, ast.Constant) and v.value is False):
                            out.bad(f, st, '_set_seeds may only clear _active (empty seeds); here it assigns '
                                    f'`{astx.src(v)}` and can re-activate a disabled object from inside the '
                                    'context managers', key='set-seeds-activates')
                            seen.discard(key)
    for key, why in WRITERS.items():
        if key in seen:
            f = repo.func(*key)
            out.ok(f, f.node, why)
    # the global switch
    mod = repo.module(REL)
    sw = [st for st in mod.tree.body if isinstance(st, ast.Assign) and
          any(astx.path(t) == '_no_relevance' for t in st.targets)]
    glob = [w for w in ast.walk(mod.tree) if isinstance(w, ast.Global) and '_no_relevance' in w.names]
    if len(sw) != 1 or glob:
        out.unsure(REL, sw[0] if sw else None, '_no_relevance is not assigned exactly once at module level')
        return
    v = sw[0].value
    if not (isinstance(v, ast.Call) and astx.call_name(v) == 'env_truthy' and len(v.args) == 1 and
            astx.const_str(v.args[0]) == 'OPENMDAO_NO_RELEVANCE'):
        out.unsure(REL, sw[0], "_no_relevance is not env_truthy('OPENMDAO_NO_RELEVANCE')")
        return
    fn = repo.func(REL, 'Relevance.__init__')
    g = cfgm.build(fn)
    res = explore_to_yield(fn, g, {'_no_relevance': True, 'self._active': TOP}, at_exit=True)
    if not res:
        out.unsure(fn, fn.node, 'no normal exit of __init__ found')
        return
    for env1, writes, _ in res:
        a = env1.get('self._active')
        if a is TOP:
            out.unsure(fn, fn.node, 'value of _active after construction not resolved')
            return
        if a is not False:
            out.bad(fn, fn.node, f'with OPENMDAO_NO_RELEVANCE set, construction ends with _active={a!r}: the '
                    'context managers can activate pruning although it was switched off', key='switch-ignored')
            return
    out.ok(fn, fn.node, 'OPENMDAO_NO_RELEVANCE => _active is False on every path out of __init__')


# =========================================================================== once (model-level sets)
SETS = ('_pre_components', '_post_components', '_iterated_components')
SET_RESETTERS = {(GROUP, 'Group.__init__'), (GROUP, 'Group._setup')}
SET_COMPUTER = (REL, 'Relevance._setup_nonlinear_relevance')


class _Computed:
    """A value that is not None and whose truthiness is fixed (a computed set may be empty)."""

    def __init__(self, truth):
        self.truth = truth

    def __bool__(self):
        return self.truth

    def __repr__(self):
        return f'<computed set, {"non-empty" if self.truth else "empty"}>'


def _set_writes(stmt):
    if not isinstance(stmt, (ast.Assign, ast.AugAssign, ast.AnnAssign)):
        return []
    return [t for t in astx.assigned_targets(stmt) if isinstance(t, ast.Attribute) and t.attr in SETS]


@rule('C24.once', floor=6)
def once(repo, out):
    """The model-level pre/iter/post component sets are reset only by Group.__init__/_setup and computed at most once per setup: Relevance._setup_nonlinear_relevance cannot reach a write when they are already computed."""
    reset_val_ok = False
    for rel in repo.shipped():
        src = repo.source(rel)
        if not any('.' + a in src for a in SETS):
            continue
        for f in repo.module(rel).funcs.values():
            key = (rel, f.qualname)
            for st in astx.walk_stmts(f.node.body):
                ws = _set_writes(st)
                if not ws:
                    continue
                if key in SET_RESETTERS:
                    v = st.value if isinstance(st, ast.Assign) else None
                    if isinstance(v, ast.Constant) and v.value is None and all(astx.path(t.value) == 'self' for t in ws):
                        out.ok(f, st, 'reset to None at (re)setup')
                        if f.qualname == 'Group._setup' and any(t.attr == '_pre_components' for t in ws):
                            reset_val_ok = True
                    else:
                        out.unsure(f, st, 'setup writes something other than the None reset value')
                elif key != SET_COMPUTER:
                    out.bad(f, st, f'`{astx.src(st)}` overwrites the model-level pre/iter/post sets outside '
                            'setup and outside the guarded one-time computation: the driver\'s own relevance '
                            'object and the run_driver phases then disagree about which components run',
                            key='sets-foreign-writer')
    if not reset_val_ok:
        out.unsure(GROUP, None, 'Group._setup no longer resets _pre_components to None')
        return
    fn = repo.func(*SET_COMPUTER)
    g = cfgm.build(fn)
    rd = cfgm.ReachingDefs(g)
    params = [a.arg for a in fn.node.args.args]
    if len(params) < 2:
        raise AnalysisError(f'{fn.ident}: signature changed')
    m = params[1]
    targets = [n for n in g.nodes if n.kind == 'stmt' and not n.tag and _set_writes(n.ast)]
    if not targets:
        raise AnalysisError(f'{fn.ident}: no longer writes the pre/post/iterated sets')
    foreign = [n for n in targets if any(astx.path(t.value) != m for t in _set_writes(n.ast))]
    if foreign:
        out.unsure(fn, foreign[0].ast, f'sets are written on something other than `{m}`')
        return

    def resolve(test, at, depth=0):
        """Substitute a plain local flag by its unique defining expression."""
        if isinstance(test, ast.Name) and depth < 3:
            v = rd.value(at, test.id)
            if v is not None:
                return resolve(v, next(iter(rd.defs(at, test.id))), depth + 1)
        return test

    def reachable_write(env):
        seen = set()
        par = {}
        stack = [g.entry]
        while stack:
            n = stack.pop()
            if n in seen:
                continue
            seen.add(n)
            if n in targets:
                p = []
                while n is not None:
                    p.append(n)
                    n = par.get(n)
                return p[::-1]
            if n.kind == 'test':
                vals = eval_all(resolve(n.ast.test, n), env)
                nxt = [(x, lab) for x, lab in g.succ[n]
                       if (lab == 'true' and True in vals) or (lab == 'false' and False in vals)]
            else:
                nxt = [(x, lab) for x, lab in g.succ[n] if lab != 'exc']
            for x, _ in nxt:
                if x not in seen:
                    par.setdefault(x, n)
                    stack.append(x)
        return None
    for truth in (True, False):
        env = {f'{m}.{a}': _Computed(truth) for a in SETS}
        w = reachable_write(env)
        if w is not None:
            tests = [n for n in w if n.kind == 'test']
            out.bad(fn, w[-1].ast, 'the model-level sets are recomputed although they were already computed '
                    f'since the last setup ({env[m + "._pre_components"]!r}): a later Relevance object (e.g. '
                    'compute_totals with explicit of/wrt) overwrites the pre/post sets that belong to the '
                    'driver\'s design variables and responses; path: ' + g.fmt_path(w),
                    key='sets-recomputed')
            return
    fresh = reachable_write({f'{m}.{a}': None for a in SETS})
    if fresh is None:
        out.unsure(fn, fn.node, 'the sets can never be computed, not even right after setup')
        return
    out.ok(fn, targets[0].ast, f'{len(targets)} write(s), none reachable once the sets are not None; '
           'reachable after the reset')


# =========================================================================== consumers of relevance
IMPL = 'openmdao/core/implicitcomponent.py'
EXPL = 'openmdao/core/explicitcomponent.py'
SYSTEM = 'openmdao/core/system.py'
APPROX = 'openmdao/approximation_schemes/approximation_scheme.py'
DRIVER = 'openmdao/core/driver.py'
JAC_OWNERS = ((EXPL, 'ExplicitComponent._get_jacobian'), (IMPL, 'ImplicitComponent._get_jacobian'),
              (GROUP, 'Group._get_jacobian'))


APPROX_REBUILDERS = ('_add_approximations', '_setup_approx_derivs', '_setup_approx_coloring')


def _is_call_on_self(e, name):
    return isinstance(e, ast.Call) and astx.call_name(e) == f'self.{name}' and not e.args and not e.keywords


@rule('C24.jacreset', floor=4)
def jacreset(repo, out):
    """A relevance-pruned jacobian is dropped whenever the relevance object or its activation changed: all three _get_jacobian siblings reset, unconditionally (but for the coloring jacobian), the very attribute whose None-ness triggers the rebuild; _relevance_changed answers True when identity or activation differ."""
    caches = ('self._jacobian', 'self._jac_wrapper')
    for rel, qn in JAC_OWNERS:
        fn = repo.func(rel, qn)
        g = cfgm.build(fn)
        chgs = [c for c in astx.calls(fn.node) if _is_call_on_self(c, '_relevance_changed')]
        if len(chgs) != 1:
            out.unsure(fn, fn.node, f'expected one call of self._relevance_changed(), found {len(chgs)}')
            continue
        chg = chgs[0]
        preset = {astx.dump(chg): True}
        env0 = {'self.matrix_free': False}
        cst = astx.stmt_of(chg)
        if isinstance(cst, ast.Assign) and cst.value is chg and len(cst.targets) == 1 and \
                isinstance(cst.targets[0], ast.Name):
            flag = cst.targets[0].id
            if sum(1 for st in astx.walk_stmts(fn.node.body)
                   for x in (astx.assigned_targets(st) if isinstance(st, (ast.Assign, ast.AugAssign)) else [])
                   if isinstance(x, ast.Name) and x.id == flag) != 1:
                out.unsure(fn, cst, 'the relevance-changed flag is reassigned')
                continue
            env0[flag] = True
        for c in astx.calls(fn.node):
            if astx.call_name(c) == 'isinstance' and len(c.args) == 2 and astx.mentions(c.args[1], '_ColSparsityJac'):
                preset[astx.dump(c)] = False
        resets = [n for n in g.nodes if n.kind == 'stmt' and not n.tag and isinstance(n.ast, ast.Assign)
                  and isinstance(n.ast.value, ast.Constant) and n.ast.value.value is None
                  and any(astx.path(x) in caches for x in n.ast.targets)]
        attrs = {astx.path(x) for n in resets for x in n.ast.targets if astx.path(x) in caches}
        makers = [n for n in g.nodes if n.kind == 'stmt' and not n.tag and isinstance(n.ast, ast.Assign)
                  and any(astx.path(x) == 'self._jacobian' for x in n.ast.targets)
                  and isinstance(n.ast.value, ast.Call)]
        if not resets:
            out.unsure(fn, fn.node, 'no cached jacobian attribute is reset to None')
            continue
        chg_nodes = [n for n in g.nodes if not n.tag and any(c is chg for c in n.calls())]

        def walk_cfg(env, avoid=(), want=None):
            """DFS from entry honouring decidable tests; returns the first node satisfying want, the exit
            node if it is reached (want None), or None."""
            seen_n = set()
            stack = [g.entry]
            while stack:
                n = stack.pop()
                if n in seen_n or n in avoid:
                    continue
                seen_n.add(n)
                if want is not None and want(n):
                    return n
                if want is None and (n is g.exit or n in makers):
                    return n
                if n.kind == 'test':
                    vals = eval_all(n.ast.test, env, preset=preset)
                    stack.extend(m for m, lab in g.succ[n]
                                 if (lab == 'true' and True in vals) or (lab == 'false' and False in vals))
                else:
                    stack.extend(m for m, lab in g.succ[n] if lab != 'exc')
            return None
        # (1) changed and not the coloring jacobian  =>  the reset is executed on every path
        leak = walk_cfg(dict(env0), avoid=set(resets))
        where = chg_nodes[0].ast if chg_nodes else fn.node
        if leak is not None:
            out.bad(fn, where, 'the cached jacobian can be kept although the relevance object/activation changed '
                    '(the reset also depends on something else, or the change test is short-circuited): '
                    'sub-jacobians pruned for the previous of/wrt stay missing and the next total derivative '
                    'silently gets 0 for them', key='jac-reset-conditional')
            continue
        # (2) the rebuild is triggered by the attribute that was reset
        rebuilt = set()
        for a in attrs:
            env = dict(env0)
            env.update({c: _Computed(True) for c in caches})
            env[a] = None
            if walk_cfg(env, want=lambda n: n in makers) is not None:
                rebuilt.add(a)
        if not rebuilt:
            out.bad(fn, resets[0].ast, f'relevance change resets {sorted(attrs)} but the jacobian is only rebuilt '
                    'when a different attribute is None: the pruned jacobian survives', key='jac-reset-wrong-cache')
            continue
        # (3) approximations pruned for the old relevance are re-established together with the jacobian
        if astx.mentions(fn.node, '_has_approx', '_owns_approx_jac'):
            env = dict(env0)
            env.update({c: _Computed(True) for c in caches})
            for a in attrs:
                env[a] = None
            redo = walk_cfg(env, want=lambda n: n.kind in ('stmt', 'test', 'with', 'iter') and any(
                astx.callee_attr(c) in APPROX_REBUILDERS and astx.path(astx.receiver(c)) == 'self'
                for c in n.calls()))
            if redo is None:
                out.bad(fn, where, 'after a relevance change a fresh jacobian is built but the approximations of this '
                        'system (approx keys / wrt set / approximation scheme, pruned by is_relevant for the '
                        'PREVIOUS of/wrt) are not set up again, unlike in the component siblings '
                        '(_add_approximations): columns that were irrelevant before are never perturbed and '
                        'come out as 0', key='approx-not-rebuilt')
                continue
        out.ok(fn, where, f'relevance change => {sorted(rebuilt)} = None => jacobian (and approximations) rebuilt')

    fn = repo.func(SYSTEM, 'System._relevance_changed')
    g = cfgm.build(fn)
    rd = cfgm.ReachingDefs(g)
    ident = act = None
    # single-assignment local aliases of access paths (relevance = self._relevance)
    binds = {}
    for st in astx.walk_stmts(fn.node.body):
        for t in (astx.assigned_targets(st) if isinstance(st, (ast.Assign, ast.AugAssign, ast.For, ast.With)) else []):
            if isinstance(t, ast.Name):
                binds.setdefault(t.id, []).append(st)
    alias = {}
    for nm, sts in binds.items():
        if len(sts) == 1:
            vs = [v for t, v in assign_pairs(sts[0]) if astx.path(t) == nm]
            if len(vs) == 1 and astx.path(vs[0]) and astx.path(vs[0]).startswith('self.'):
                alias[nm] = astx.path(vs[0])

    def rpath(e):
        p = astx.path(e)
        if p is None:
            return None
        head, _, rest = p.partition('.')
        if head in alias:
            return alias[head] + ('.' + rest if rest else '')
        return p
    for w in astx.walk(fn.node):
        if isinstance(w, ast.Compare) and len(w.ops) == 1:
            sides = [rpath(w.left), rpath(w.comparators[0])]
            if 'self._relevance' in sides and isinstance(w.ops[0], (ast.Is, ast.IsNot)):
                ident = w
            if 'self._relevance._active' in sides and isinstance(w.ops[0], (ast.Eq, ast.NotEq, ast.Is, ast.IsNot)):
                act = w
    if ident is None and act is None:
        out.unsure(fn, fn.node, 'identity / activation comparisons not found')
        return
    if ident is None or act is None:
        out.bad(fn, fn.node, 'only the ' + ('activation flag' if ident is None else 'identity of the relevance '
                'object') + ' is compared with the remembered state: a change of the '
                + ('relevance object (new of/wrt)' if ident is None else 'activation (pruned -> unpruned)')
                + ' goes unnoticed and the pruned jacobian is kept', key='relevance-changed-misses')
        return
    neg = lambda c: isinstance(c.ops[0], (ast.Is, ast.Eq))
    problems = 0
    for D, E in ((True, False), (False, True), (True, True)):
        preset = {astx.dump(ident): (not D) if neg(ident) else D, astx.dump(act): (not E) if neg(act) else E}
        for r in _returns_when(fn, g, {}, preset=preset):
            v = None if r is None else r.ast.value
            if isinstance(v, ast.Name):
                v = rd.value(r, v.id) or v
            try:
                val = None if v is None else ev(v, {}, dict(preset))
            except Unknown:
                out.unsure(fn, r.ast, 'return value not recognised')
                problems += 1
                break
            if not val:
                out.bad(fn, r.ast if r is not None else fn.node,
                        f'answers {val!r} although the relevance object {"changed" if D else "is the same"} and '
                        f'its activation {"changed" if E else "is the same"}: jacobians pruned for the old '
                        'relevance are kept', key='relevance-changed-misses')
                problems += 1
                break
        if problems:
            break
    if not problems:
        out.ok(fn, fn.node, 'True whenever the relevance object or its _active flag differs from the remembered one')


def _bound_only_inside(fn, loop):
    """Names all of whose bindings in fn are inside `loop` (its targets or assignments in its body)."""
    inside, outside = set(), set()
    for a in fn.node.args.args:
        outside.add(a.arg)
    for st in astx.walk_stmts(fn.node.body):
        tg = [t.id for t in astx.assigned_targets(st) if isinstance(t, ast.Name)] \
            if isinstance(st, (ast.Assign, ast.AugAssign, ast.AnnAssign, ast.For, ast.With)) else []
        if not tg:
            continue
        if st is loop or astx.in_body(st, loop, 'body'):
            inside.update(tg)
        else:
            outside.update(tg)
    return inside - outside


@rule('C24.seedcover', floor=5)
def seedcover(repo, out):
    """The seeds an approximation group activates cover every variable the group perturbs: per-wrt groups carry that wrt, the combined (reverse-directional) group carries the accumulated wrts, and the consumer activates exactly that slot."""
    fn = repo.func(APPROX, 'ApproximationScheme._init_approximations')
    loops = [st for st in astx.walk_stmts(fn.node.body) if isinstance(st, ast.For) and
             isinstance(st.iter, ast.Call) and astx.callee_attr(st.iter) == '_get_jac_wrts']
    if len(loops) != 1:
        raise AnalysisError(f'{fn.ident}: loop over _get_jac_wrts not found')
    loop = loops[0]
    tg = [t for t in astx.assigned_targets(loop) if isinstance(t, ast.Name)]
    if not tg:
        raise AnalysisError(f'{fn.ident}: loop targets not recognised')
    wrt = tg[0].id
    local_only = _bound_only_inside(fn, loop)
    groups = []
    for st in astx.walk_stmts(fn.node.body):
        if isinstance(st, ast.Expr) and isinstance(st.value, ast.Call) and \
                astx.call_name(st.value) == 'self._approx_groups.append' and len(st.value.args) == 1 and \
                isinstance(st.value.args[0], ast.Tuple):
            groups.append((st, st.value.args[0]))
        if isinstance(st, ast.Assign) and any(astx.path(t) == 'self._approx_groups' for t in st.targets) and \
                isinstance(st.value, ast.List):
            for e in st.value.elts:
                if isinstance(e, ast.Tuple):
                    groups.append((st, e))
                else:
                    out.unsure(fn, st, 'approx group is not a tuple literal')
    nslots = None
    for st, tup in groups:
        if len(tup.elts) < 4:
            out.unsure(fn, st, 'approx group tuple has an unexpected layout')
            continue
        nslots = len(tup.elts)
        seeds, cols, vecs = tup.elts[0], tup.elts[2], tup.elts[3]
        inloop = astx.in_body(st, loop, 'body')
        if inloop:
            if wrt in astx.names(seeds):
                out.ok(fn, st, f'per-variable group seeded with its own `{wrt}`')
            else:
                out.unsure(fn, st, 'seed slot of a per-variable group does not mention the loop variable')
            continue
        stale = sorted(astx.names(seeds) & local_only)
        if stale:
            out.bad(fn, st, f'the combined group built after the loop is seeded with `{astx.src(seeds)}`: '
                    f'{stale} only hold the LAST loop iteration while slots 2/3 perturb the accumulated '
                    'indices of every wrt: systems relevant only to the other variables are not re-run',
                    key='seeds-last-iteration-only')
            continue
        # the seed slot must be an accumulator fed with the loop variable next to the index accumulators
        def feeders(expr):
            res = []
            for nm in astx.names(expr):
                for c in astx.calls(loop):
                    if astx.callee_attr(c) in ('append', 'extend', 'add', 'update'):
                        r = astx.receiver(c)
                        base = r
                        while isinstance(base, ast.Subscript):
                            base = base.value
                        if isinstance(base, ast.Name) and base.id == nm:
                            res.append(c)
            return res
        fs, fc, fv = feeders(seeds), feeders(cols), feeders(vecs)
        if not fs or not fc or not fv:
            out.unsure(fn, st, 'seed / index slots of the combined group are not accumulators filled in the loop')
            continue
        if not any(wrt in astx.names(c) for c in fs):
            out.bad(fn, st, f'the seed accumulator is never fed with the loop variable `{wrt}`', key='seeds-not-accumulated')
            continue
        homes = {id(astx.stmt_of(c)._parent) for c in fs + fc + fv}
        same = all(astx.stmt_of(c) in getattr(astx.stmt_of(fs[0])._parent, f, [])
                   for c in fs + fc + fv for f in ('body', 'orelse') if
                   astx.stmt_of(fs[0]) in getattr(astx.stmt_of(fs[0])._parent, f, []))
        if len(homes) != 1 or not same:
            out.unsure(fn, st, 'seed and index accumulators are filled under different guards')
            continue
        out.ok(fn, st, 'combined group seeded with the accumulated wrts, filled next to the perturbed indices')

    # consumer: the slot activated as seeds is slot 0 of the unpacked group
    cf = repo.func(APPROX, 'ApproximationScheme._uncolored_column_iter')
    cg = cfgm.build(cf)
    crd = cfgm.ReachingDefs(cg)
    unpack = [st for st in astx.walk_stmts(cf.node.body) if isinstance(st, (ast.Assign, ast.For)) and
              any(isinstance(t, ast.Tuple) and nslots and len(t.elts) == nslots
                  for t in (st.targets if isinstance(st, ast.Assign) else [st.target]))]
    if len(unpack) != 1:
        out.unsure(cf, cf.node, 'unpacking of the approx group tuple not found')
        return
    tt = [t for t in (unpack[0].targets if isinstance(unpack[0], ast.Assign) else [unpack[0].target])
          if isinstance(t, ast.Tuple)][0]
    slot_names = [astx.path(e) for e in tt.elts]
    acts = [(n, c) for n in cg.nodes if n.kind == 'with' and not n.tag for c in n.calls()
            if astx.callee_attr(c) == 'seeds_active']
    if not acts:
        out.bad(cf, cf.node, 'approximated total columns are no longer run under relevance.seeds_active',
                key='approx-no-seeds')
        return
    for n, c in acts:
        e = astx.arg(c, 0, 'fwd_seeds')

        def leaves(x, at, depth=0):
            if isinstance(x, ast.IfExp):
                return leaves(x.body, at, depth) + leaves(x.orelse, at, depth)
            if isinstance(x, ast.Name) and x.id not in slot_names and depth < 3:
                ds = crd.defs(at, x.id)
                if ds and all(d.kind == 'stmt' and isinstance(d.ast, ast.Assign) and len(d.ast.targets) == 1
                              and astx.path(d.ast.targets[0]) == x.id for d in ds):
                    res = []
                    for d in ds:
                        res += leaves(d.ast.value, d, depth + 1)
                    return res
            return [x]
        ls = leaves(e, n) if e is not None else []
        used = set()
        for x in ls:
            used |= astx.names(x) & set(slot_names)
        if used == {slot_names[0]}:
            out.ok(cf, c, f'seeds_active receives slot 0 (`{slot_names[0]}`) of the group')
        elif used:
            out.bad(cf, c, f'seeds_active receives {sorted(used)}, not the seed slot `{slot_names[0]}` of the '
                    'approx group', key='approx-seeds-wrong-slot')
        else:
            out.unsure(cf, c, 'fwd_seeds argument does not come from the approx group')
    _colored_seedcover(repo, out)


def _colored_seedcover(repo, out):
    """Colored approximation groups: the seeds slot covers every column of the color."""
    cf = repo.func(APPROX, 'ApproximationScheme._colored_column_iter')
    cg = cfgm.build(cf)
    loops = [st for st in astx.walk_stmts(cf.node.body) if isinstance(st, ast.For) and
             isinstance(st.target, ast.Tuple) and len(st.target.elts) >= 4 and
             any(astx.callee_attr(c) == 'seeds_active' for c in astx.calls(st))]
    if len(loops) != 1:
        out.unsure(cf, cf.node, 'loop unpacking the colored approx groups not found')
        return
    names = [astx.path(e) for e in loops[0].target.elts]
    acts = [c for c in astx.calls(loops[0]) if astx.callee_attr(c) == 'seeds_active']
    slot = None
    for c in acts:
        e = astx.arg(c, 0, 'fwd_seeds')
        if isinstance(e, ast.Name) and e.id in names:
            slot = names.index(e.id)
            out.ok(cf, c, f'seeds_active receives slot {slot} (`{e.id}`) of the colored group')
        else:
            out.unsure(cf, c, 'fwd_seeds of the colored run is not a slot of the group')
    if slot is None:
        return
    fn = repo.func(APPROX, 'ApproximationScheme._init_colored_approximations')
    g = cfgm.build(fn)
    rd = cfgm.ReachingDefs(g)
    apps = [st for st in astx.walk_stmts(fn.node.body) if isinstance(st, ast.Expr) and
            isinstance(st.value, ast.Call) and astx.call_name(st.value) == 'self._colored_approx_groups.append'
            and len(st.value.args) == 1 and isinstance(st.value.args[0], ast.Tuple)
            and len(st.value.args[0].elts) == len(names)]
    if len(apps) != 1:
        out.unsure(fn, fn.node, 'append of the colored group tuple not found')
        return
    st = apps[0]
    loop = astx.enclosing(st, (ast.For,))
    tg = [t for t in astx.assigned_targets(loop) if isinstance(t, ast.Name)] if loop is not None else []
    if not tg:
        out.unsure(fn, st, 'color loop not recognised')
        return
    cols = tg[0].id
    node = g.nodes_of(st)[0]

    def scan(e, at, depth=0):
        """(derives from cols, partial-use node or None) of expression e, following local definitions."""
        derives, partial = False, None
        for w in astx.walk(e):
            if not isinstance(w, ast.Name):
                continue
            if w.id == cols:
                derives = True
                if isinstance(w._parent, ast.Subscript) and w._parent.value is w:
                    partial = partial or (w._parent, e)
            elif depth < 3:
                for d in rd.defs(at, w.id):
                    if d.kind == 'stmt' and isinstance(d.ast, ast.Assign) and len(d.ast.targets) == 1 and \
                            astx.path(d.ast.targets[0]) == w.id:
                        dd, pp = scan(d.ast.value, d, depth + 1)
                        derives = derives or dd
                        partial = partial or pp
        return derives, partial
    slot_e = st.value.args[0].elts[slot]
    derives, partial = scan(slot_e, node)
    if partial:
        sub, e = partial
        out.bad(fn, astx.stmt_of(e) or st, f'the seeds of a color group are `{astx.src(e)}`: only part of '
                f'`{cols}` ({astx.src(sub)}) is turned into seeds while every column of the '
                'color is perturbed in the same run: systems relevant only to the other columns are not '
                're-run and their derivatives come out as 0', key='color-seeds-partial')
        return
    if not derives:
        out.unsure(fn, st, f'seed slot `{astx.src(slot_e)}` does not derive from the color columns `{cols}`')
        return
    out.ok(fn, st, f'seeds derive from all columns `{cols}` of the color')


PHASE_SET = {'pre': '_pre_components', 'post': '_post_components'}


@rule('C24.phase', floor=7)
def phase(repo, out):
    """The pre/post phases of a driver run are guarded by their own component set, run before/after the iterated phase, and Relevance maps each phase name to the array built from the same set."""
    for qn in ('Driver._run', 'Driver._find_feasible'):
        fn = repo.func(DRIVER, qn)
        g = cfgm.build(fn)
        rd = cfgm.ReachingDefs(g)
        withs = {}
        for n in g.nodes:
            if n.kind != 'with' or n.tag:
                continue
            for c in n.calls():
                if astx.callee_attr(c) == 'nonlinear_active' and _is_relevance(astx.receiver(c), rd, n):
                    k = astx.const_str(astx.arg(c, 0, 'name'))
                    if k is None:
                        out.unsure(fn, c, 'phase name is not a literal')
                    else:
                        withs.setdefault(k, []).append(n)
        for k in ('pre', 'post'):
            for n in withs.get(k, []):
                own, other = PHASE_SET[k], PHASE_SET['post' if k == 'pre' else 'pre']
                verdict = 'ok'
                child = n.ast
                for a in astx.ancestors(n.ast):
                    if a is fn.node:
                        break
                    if isinstance(a, ast.If) and astx.mentions(a.test, own, other):
                        env = {}
                        for w in astx.walk(a.test):
                            if isinstance(w, ast.Attribute) and w.attr in (own, other):
                                env[astx.path(w)] = _Computed(w.attr == own)
                        vals = eval_all(a.test, env)
                        inbody = astx.in_body(child, a, 'body')
                        runs = (True in vals) if inbody else (False in vals)
                        if not runs:
                            verdict = 'bad'
                    child = a
                if verdict == 'bad':
                    out.bad(fn, n.ast, f"the '{k}' phase does not run when {own} is non-empty and {other} is "
                            f"empty (it is guarded by the other set): the {k} components are never executed "
                            "while the iterated phase filters them out", key=f'phase-guard-crossed-{k}')
                else:
                    out.ok(fn, n.ast, f"'{k}' phase runs whenever {own} is non-empty")
        # order pre -> iter -> post
        its = withs.get('iter', [])
        bad_order = None
        for i in its:
            after = g.reach(g.normal_succ(i), labels=cfgm.noexc)
            if any(p in after for p in withs.get('pre', [])):
                bad_order = ('pre', i)
            for po in withs.get('post', []):
                if i in g.reach(g.normal_succ(po), labels=cfgm.noexc):
                    bad_order = ('post', i)
        if bad_order:
            out.bad(fn, bad_order[1].ast, f"the '{bad_order[0]}' phase is on the wrong side of the iterated phase",
                    key='phase-order')
    # Relevance._setup_nonlinear_sets: name -> array built from the matching set
    fn = repo.func(REL, 'Relevance._setup_nonlinear_sets')
    g = cfgm.build(fn)
    rd = cfgm.ReachingDefs(g)
    dicts = [n for n in g.nodes if n.kind == 'stmt' and isinstance(n.ast, ast.Assign) and
             any(astx.path(t) == 'self._nonlinear_sets' for t in n.ast.targets) and isinstance(n.ast.value, ast.Dict)]
    if len(dicts) != 1:
        out.unsure(fn, fn.node, 'self._nonlinear_sets is not assigned one dict literal')
        return
    dn = dicts[0]
    want = {'pre': '_pre_components', 'iter': '_iterated_components', 'post': '_post_components'}
    for kx, vx in zip(dn.ast.value.keys, dn.ast.value.values):
        k = astx.const_str(kx)
        if k not in want or not isinstance(vx, ast.Name):
            out.unsure(fn, dn.ast, f'entry {astx.src(kx)} not recognised')
            continue
        srcs = set()
        for d in rd.defs(dn, vx.id):
            if not (d.kind == 'stmt' and isinstance(d.ast, ast.Assign) and isinstance(d.ast.value, ast.Call)):
                srcs.add(None)
                continue
            cv = d.ast.value
            if astx.call_name(cv) == 'self._sys2rel_array' and len(cv.args) == 1 and isinstance(cv.args[0], ast.Name):
                acc = cv.args[0].id
                for lp in [x for x in astx.walk_stmts(fn.node.body) if isinstance(x, ast.For)]:
                    if any(astx.callee_attr(c) in ('update', 'add') and astx.path(astx.receiver(c)) == acc
                           for c in astx.calls(lp)):
                        ip = astx.path(lp.iter) or ''
                        srcs.add(ip.rsplit('.', 1)[-1] if '.' in ip else None)
            elif astx.call_name(cv) in ('np.ones', 'numpy.ones'):
                srcs.add('*all*')
            else:
                srcs.add(None)
        srcs.discard('*all*')
        if srcs == {want[k]}:
            out.ok(fn, kx, f"'{k}' -> array of {want[k]}")
        elif srcs and None not in srcs and srcs <= set(want.values()):
            out.bad(fn, dn.ast, f"nonlinear set '{k}' is built from {sorted(srcs)} instead of {want[k]}",
                    key=f'nonlinear-set-crossed-{k}')
        else:
            out.unsure(fn, dn.ast, f"cannot trace the array stored under '{k}'")


JACOBIAN = 'openmdao/jacobians/jacobian.py'


@rule('C24.statecoupling', floor=2)
def statecoupling(repo, out):
    """Sub-jacobians with respect to a state (an output of the same system) are never pruned by variable relevance: the dataflow graph has no state -> state edges, so a coupled state looks irrelevant although the response depends on it."""
    for qn in ('Jacobian._get_relevant_subjacs_info', 'Jacobian._get_ordered_subjac_keys'):
        fn = repo.func(JACOBIAN, qn)
        tests = []
        for st in astx.walk_stmts(fn.node.body):
            if isinstance(st, ast.If):
                cs = [c for c in astx.calls(st.test) if astx.callee_attr(c) == 'is_relevant' and len(c.args) == 1]
                if cs:
                    tests.append((st, cs))
        if len(tests) != 1:
            out.unsure(fn, fn.node, f'expected one pruning test on is_relevant(...), found {len(tests)}')
            continue
        st, cs = tests[0]
        loopvars = {}
        for a in astx.ancestors(st):
            if isinstance(a, ast.For):
                for t in astx.assigned_targets(a):
                    if isinstance(t, ast.Name):
                        loopvars[t.id] = a
        # which argument is the `wrt` side: the second element of the key
        wrt = None
        for x in astx.walk_stmts(fn.node.body):
            if isinstance(x, ast.Assign) and len(x.targets) == 1 and isinstance(x.targets[0], ast.Tuple) and \
                    len(x.targets[0].elts) == 2 and isinstance(x.value, ast.Name) and x.value.id == 'key':
                wrt = astx.path(x.targets[0].elts[1])
            if isinstance(x, ast.Assign) and len(x.targets) == 1 and astx.path(x.targets[0]) == 'key' and \
                    isinstance(x.value, ast.Tuple) and len(x.value.elts) == 2:
                wrt = astx.path(x.value.elts[1])
        if wrt is None:
            out.unsure(fn, st, 'cannot tell which name is the wrt side of the key')
            continue
        preset = {astx.dump(c): False for c in cs}
        env = {}
        for w in astx.walk(st.test):
            if isinstance(w, ast.Compare) and len(w.ops) == 1 and isinstance(w.ops[0], (ast.In, ast.NotIn)) \
                    and astx.path(w.left) == wrt:
                cont = astx.path(w.comparators[0]) or ''
                is_out = 'out' in cont.rsplit('.', 1)[-1]
                is_in = not is_out and ('in_' in cont or 'input' in cont)
                if is_out or is_in:
                    member = is_out            # wrt is a state: in the outputs, not in the inputs
                    preset[astx.dump(w)] = member if isinstance(w.ops[0], ast.In) else not member
            if isinstance(w, ast.Compare) and len(w.ops) == 1 and isinstance(w.ops[0], (ast.IsNot, ast.Is)) and \
                    isinstance(w.comparators[0], ast.Constant) and w.comparators[0].value is None and \
                    isinstance(w.left, ast.Name):
                env[w.left.id] = _Computed(True)
        lp = loopvars.get(wrt)
        if lp is not None and isinstance(lp.iter, ast.Subscript) and isinstance(lp.iter.slice, ast.Name) and \
                lp.iter.slice.id in loopvars:
            env[lp.iter.slice.id] = 'output'
        vals = eval_all(st.test, env, preset=preset)
        # second obligation: in an implicit system a residual row feeds every coupled state, so a key
        # must not be dropped merely because its `of` is irrelevant (wrt an input that IS relevant)
        of_calls = [c for c in cs if astx.path(c.args[0]) != wrt]
        wrt_calls = [c for c in cs if astx.path(c.args[0]) == wrt]
        preset2 = dict(preset)
        for c in wrt_calls:
            preset2[astx.dump(c)] = True
        for w in astx.walk(st.test):
            if isinstance(w, ast.Compare) and astx.dump(w) in preset2 and isinstance(w.ops[0], (ast.In, ast.NotIn)):
                preset2[astx.dump(w)] = not preset[astx.dump(w)]       # now wrt is an input
        env2 = dict(env)
        if lp is not None and isinstance(lp.iter, ast.Subscript) and isinstance(lp.iter.slice, ast.Name) and \
                lp.iter.slice.id in loopvars:
            env2[lp.iter.slice.id] = 'input'
        env2['self._is_explicitcomp'] = False
        vals_of = eval_all(st.test, env2, preset=preset2) if of_calls else None
        # which branch drops the key (continue / irrelevant list) ?
        def drops(body):
            return any(isinstance(b, ast.Continue) or astx.mentions(b, 'irrelevant_subjacs') for b in body)
        dt, df = drops(st.body), drops(st.orelse)
        if dt == df:
            out.unsure(fn, st, 'pruning branch not recognised')
            continue
        keep = {False} if dt else {True}
        if vals == keep and vals_of is not None and vals_of != keep:
            if len(vals_of) == 1:
                out.bad(fn, st, f'in an implicit system a key (of, {wrt}) with a relevant input `{wrt}` is dropped '
                        'because `of` (a state/residual of this system) is not itself on a dv -> response path: '
                        'the residual still drives the coupled states, so the input never enters the linear '
                        'solve and the total derivative is 0', key='implicit-row-pruned')
            else:
                out.unsure(fn, st, 'pruning on is_relevant(of) depends on atoms that are not recognised')
        elif vals == keep:
            out.ok(fn, st, f'a key whose `{wrt}` is a state is never pruned; rows of implicit systems are kept')
        elif len(vals) == 1:
            out.bad(fn, st, f'a sub-jacobian (of, {wrt}) is dropped when is_relevant({wrt}) or is_relevant(of) '
                    f'is False even if `{wrt}` is a state of this very system: variable relevance comes from a '
                    'graph without state -> state edges, so a coupled state that is not itself on a dv -> '
                    'response path loses its partials and the linear solve (ScipyKrylov / block solvers with '
                    'relevance on) returns wrong totals', key='state-partials-pruned')
        else:
            out.unsure(fn, st, 'pruning test contains atoms that are not recognised')


COMPONENT = 'openmdao/core/component.py'


@rule('C24.schemes', floor=1)
def schemes(repo, out):
    """Re-adding the approximations of a component after a relevance change can bring back every declared method: the registry the rebuild reads (_approx_schemes keys) is never shrunk by relevance pruning."""
    fn = repo.func(COMPONENT, 'Component._add_approximations')
    reads = [st for st in astx.walk_stmts(fn.node.body) if isinstance(st, ast.Assign) and
             isinstance(st.value, ast.Call) and astx.call_name(st.value) in ('list', 'tuple', 'sorted', 'set')
             and st.value.args and astx.path(st.value.args[0]) == 'self._approx_schemes']
    dels = [st for st in astx.walk_stmts(fn.node.body) if
            (isinstance(st, ast.Delete) and any(isinstance(t, ast.Subscript) and
                                                astx.path(t.value) == 'self._approx_schemes' for t in st.targets))
            or (isinstance(st, ast.Expr) and isinstance(st.value, ast.Call) and
                astx.call_name(st.value) in ('self._approx_schemes.pop', 'self._approx_schemes.clear'))]
    if not reads:
        if dels:
            out.unsure(fn, dels[0], 'schemes are deleted but the registry of declared methods is not recognised')
        else:
            out.ok(fn, fn.node, 'no scheme is deleted')
        return
    if dels:
        out.bad(fn, dels[0], 'the set of methods to re-create is read from self._approx_schemes '
                f'(`{astx.src(reads[0])}`, also the filter of _approx_subjac_keys_iter) but schemes left empty by '
                'relevance pruning are deleted from it: when the relevance changes the declared fd/cs partials of '
                'that method are never approximated again and come out as 0', key='scheme-registry-shrunk')
    else:
        out.ok(fn, reads[0], 'declared methods survive a rebuild under any relevance')


# =========================================================================== sweeps
def _is_relevance(expr, rd, at):
    """True if expr denotes a system's Relevance object (x._relevance or a local alias of it)."""
    p = astx.path(expr)
    if p is None:
        return False
    if p.endswith('._relevance'):
        return True
    if isinstance(expr, ast.Name) and rd is not None:
        v = rd.value(at, expr.id)
        return v is not None and (astx.path(v) or '').endswith('._relevance')
    return False


def filter_calls(fn):
    """[(call, iterable, relevant-literal-or-'?', stmt)] for each <relevance>.filter(...) in fn."""
    g = cfgm.build(fn)
    rd = cfgm.ReachingDefs(g)
    res = []
    for n in g.nodes:
        if n.kind not in ('stmt', 'test', 'iter', 'with'):
            continue
        if n.tag:
            continue
        for c in n.calls():
            if astx.callee_attr(c) == 'filter' and _is_relevance(astx.receiver(c), rd, n):
                it = astx.arg(c, 0, 'systems')
                r = astx.arg(c, 1, 'relevant')
                if r is None:
                    rv = True
                elif isinstance(r, ast.Constant) and isinstance(r.value, bool):
                    rv = r.value
                else:
                    rv = '?'
                res.append((c, it, rv, n.ast))
    return res, g, rd


def loops_over(fn, call, stmt):
    """For-loops that iterate the result of filter call `call` (directly, or through list()/enumerate())."""
    def strip(e):
        while isinstance(e, ast.Call) and astx.call_name(e) in ('list', 'enumerate', 'reversed', 'tuple') \
                and len(e.args) == 1:
            e = e.args[0]
        return e
    if isinstance(stmt, ast.For) and strip(stmt.iter) is call:
        return [stmt]
    if isinstance(stmt, ast.Assign) and len(stmt.targets) == 1 and isinstance(stmt.targets[0], ast.Name) \
            and strip(stmt.value) is call:
        nm = stmt.targets[0].id
        return [st for st in astx.walk_stmts(fn.node.body) if isinstance(st, ast.For)
                and isinstance(strip(st.iter), ast.Name) and strip(st.iter).id == nm]
    return None


def loop_var(loop):
    t = loop.target
    if isinstance(t, ast.Name):
        return t.id
    if isinstance(t, ast.Tuple) and len(t.elts) == 2 and isinstance(t.elts[1], ast.Name) and \
            isinstance(loop.iter, ast.Call) and astx.call_name(loop.iter) == 'enumerate':
        return t.elts[1].id
    return None


MODE_VEC = {'fwd': '_dresiduals', 'rev': '_doutputs'}


def _modes_of(stmt, fn):
    """Set of modes ('fwd','rev') in which stmt executes, from enclosing `mode` tests."""
    modes = set()
    for m in ('fwd', 'rev'):
        ok = True
        child = stmt
        for a in astx.ancestors(stmt):
            if a is fn.node:
                break
            if isinstance(a, ast.If) and 'mode' in astx.names(a.test):
                vals = eval_all(a.test, {'mode': m})
                inbody = astx.in_body(child, a, 'body')
                if inbody and True not in vals:
                    ok = False
                if not inbody and astx.in_body(child, a, 'orelse') and False not in vals:
                    ok = False
            child = a
        if ok:
            modes.add(m)
    return modes


@rule('C24.skipzero', floor=2)
def skipzero(repo, out):
    """Group._apply_linear: relevant children are applied; the complementary set gets _dresiduals (fwd) / _doutputs (rev, after the transfer) zeroed."""
    fn = repo.func(GROUP, 'Group._apply_linear')
    if 'mode' not in [a.arg for a in fn.node.args.args]:
        raise AnalysisError(f'{fn.ident}: no `mode` parameter')
    fc, g, rd = filter_calls(fn)
    if not fc:
        raise AnalysisError(f'{fn.ident}: no relevance.filter sweep found')
    apply_loops, zero_loops = [], []
    for c, it, rv, st in fc:
        lps = loops_over(fn, c, st)
        if not lps:
            out.unsure(fn, st, 'filter result is not iterated by a for loop')
            return
        for lp in lps:
            lv = loop_var(lp)
            kinds = set()
            info = {}
            for b in lp.body:
                if isinstance(b, ast.Expr) and isinstance(b.value, ast.Call):
                    cc = b.value
                    if astx.call_name(cc) == f'{lv}._apply_linear':
                        kinds.add('apply')
                        continue
                    f = cc.func
                    if isinstance(f, ast.Attribute) and f.attr == 'set_val' and \
                            isinstance(f.value, ast.Attribute) and astx.path(f.value.value) == lv and \
                            len(cc.args) == 1 and not cc.keywords:
                        kinds.add('zero')
                        info = dict(vec=f.value.attr, val=cc.args[0], stmt=b)
                        continue
                kinds.add('other')
            if kinds == {'apply'}:
                apply_loops.append(dict(loop=lp, it=it, rel=rv, modes=_modes_of(lp, fn)))
            elif kinds == {'zero'}:
                zero_loops.append(dict(loop=lp, it=it, rel=rv, modes=_modes_of(lp, fn), **info))
            else:
                out.unsure(fn, lp, 'sweep body is neither a pure _apply_linear recursion nor a pure zeroing loop')
                return
    transfers = [n for n in g.calling('_transfer') if not n.tag]
    for m in ('fwd', 'rev'):
        ap = [a for a in apply_loops if m in a['modes']]
        if not ap:
            out.bad(fn, fn.node, f'no child recursion in mode {m}', key=f'no-apply-{m}')
            continue
        wrong = [a for a in ap if a['rel'] is not True]
        if wrong:
            if wrong[0]['rel'] == '?':
                out.unsure(fn, wrong[0]['loop'], 'relevant= is not a literal')
            else:
                out.bad(fn, wrong[0]['loop'], f'in mode {m} _apply_linear recurses into the irrelevant children '
                        'only', key=f'apply-irrelevant-{m}')
            continue
        zs = [z for z in zero_loops if m in z['modes']]
        zgood = [z for z in zs if z['vec'] == MODE_VEC[m]]
        if not zgood:
            other = MODE_VEC['rev' if m == 'fwd' else 'fwd']
            zo = [z for z in zs if z['vec'] == other]
            if zo:
                out.bad(fn, zo[0]['stmt'], f'in mode {m} the skipped children get {other} zeroed, but the vector '
                        f'a skipped _apply_linear would have produced is {MODE_VEC[m]}: it keeps a stale value',
                        key=f'zero-wrong-vector-{m}')
            elif zs:
                out.unsure(fn, zs[0]['stmt'], f'zeroing of an unexpected vector in mode {m}')
            else:
                out.bad(fn, ap[0]['loop'], f'in mode {m} children skipped by relevance keep whatever was in '
                        f'their {MODE_VEC[m]} (no zeroing loop over filter(..., relevant=False))',
                        key=f'no-zero-{m}')
            continue
        z = zgood[0]
        if z['rel'] == '?':
            out.unsure(fn, z['loop'], 'relevant= is not a literal')
            continue
        if z['rel'] is not False:
            out.bad(fn, z['loop'], f'in mode {m} the zeroing loop runs over the relevant children: their '
                    f'{MODE_VEC[m]} is wiped while the skipped ones keep stale values', key=f'zero-relevant-{m}')
            continue
        v = z['val']
        if not (isinstance(v, ast.Constant) and isinstance(v.value, (int, float)) and not isinstance(v.value, bool)):
            out.unsure(fn, z['stmt'], 'zeroing value is not a numeric literal')
            continue
        if v.value != 0:
            out.bad(fn, z['stmt'], f'skipped children get {MODE_VEC[m]} set to {v.value!r}, not 0',
                    key=f'zero-value-{m}')
            continue
        if not astx.same(z['it'], ap[0]['it']):
            out.unsure(fn, z['loop'], 'zeroing loop and recursion filter different iterables')
            continue
        if m == 'rev':
            hdr = g.nodes_of(z['loop'])
            tr = [t for t in transfers if 'rev' in _modes_of(t.ast, fn)]
            if not hdr:
                raise AnalysisError('zero loop not in CFG')
            w = g.dominated_by(hdr[0], tr, labels=cfgm.noexc)
            if w is not None:
                out.bad(fn, z['loop'], 'in mode rev the skipped children are zeroed before the reverse transfer, '
                        'which then adds into their _doutputs again', key='zero-before-transfer-rev')
                continue
        out.ok(fn, z['loop'], f'mode {m}: recursion over relevant=True, {MODE_VEC[m]} of relevant=False zeroed'
               + (' after the transfer' if m == 'rev' else ''))


# (file, function) -> number of filtered sweeps, reason it is a children sweep
SWEEPS = {
    ('openmdao/solvers/solver.py', 'NonlinearSolver._gs_iter'): 1,
    ('openmdao/solvers/nonlinear/nonlinear_block_gs.py', 'NonlinearBlockGS._run_apply'): 1,
    ('openmdao/solvers/nonlinear/nonlinear_block_jac.py', 'NonlinearBlockJac._single_iteration'): 2,
    ('openmdao/solvers/nonlinear/nonlinear_runonce.py', 'NonlinearRunOnce.solve'): 1,
    ('openmdao/solvers/linear/linear_block_gs.py', 'LinearBlockGS._single_iteration'): 2,
    ('openmdao/solvers/linear/linear_block_jac.py', 'LinearBlockJac._single_iteration'): 1,
    ('openmdao/core/group.py', 'Group._apply_nonlinear'): 1,
    ('openmdao/core/group.py', 'Group._apply_linear'): 3,
    ('openmdao/core/group.py', 'Group._linearize'): 1,
}
EXEC = ('_solve_nonlinear', '_solve_linear', '_apply_linear', '_apply_nonlinear', '_linearize')


def _local_guarded(call, loop, lv):
    """Is `call` (inside loop) executed only when <lv>._is_local is true?"""
    st = astx.stmt_of(call)
    child = st
    for a in astx.ancestors(st):
        if a is loop:
            break
        if isinstance(a, ast.If):
            vals_t = eval_all(a.test, {f'{lv}._is_local': True})
            vals_f = eval_all(a.test, {f'{lv}._is_local': False})
            if astx.in_body(child, a, 'body') and vals_f == {False} and True in vals_t:
                return True
            if astx.in_body(child, a, 'orelse') and vals_f == {True}:
                return True
        child = a
    # `if not lv._is_local: continue` earlier at the top level of the loop body
    top = child if child in loop.body else None
    if top is not None:
        for b in loop.body[:loop.body.index(top)]:
            if isinstance(b, ast.If) and not b.orelse and b.body and isinstance(b.body[-1], ast.Continue):
                if eval_all(b.test, {f'{lv}._is_local': False}) == {True}:
                    return True
    return False


@rule('C24.same-set', floor=13)
def same_set(repo, out):
    """A filtered children sweep that issues the per-subsystem (collective) transfer iterates all subsystems and executes only local ones; other sweeps iterate the local subsystems."""
    seen = {}
    for rel in repo.shipped():
        src = repo.source(rel)
        if '.filter(' not in src or '_relevance' not in src:
            continue
        for fn in repo.module(rel).funcs.values():
            if 'filter' not in {astx.callee_attr(c) for c in astx.calls(fn.node)}:
                continue
            try:
                fc, g, rd = filter_calls(fn)
            except AnalysisError:
                raise
            for c, it, rv, st in fc:
                key = (rel, fn.qualname)
                seen[key] = seen.get(key, 0) + 1
                if key not in SWEEPS:
                    out.unsure(fn, st, 'relevance.filter used at a site that is not in the sweep table')
                    continue
                itp = astx.path(it)
                if itp is None:
                    out.unsure(fn, st, 'filtered iterable is not a plain attribute or _all_subsystem_iter()')
                    continue
                whole = itp.endswith('._all_subsystem_iter()')
                local = itp.endswith('._subsystems_myproc')
                if not (whole or local):
                    out.unsure(fn, st, f'filtered iterable `{itp}` is neither _subsystems_myproc nor '
                               '_all_subsystem_iter()')
                    continue
                lps = loops_over(fn, c, st)
                if not lps:
                    out.unsure(fn, st, 'filter result is not iterated by a for loop in this function')
                    continue
                problems = 0
                for lp in lps:
                    lv = loop_var(lp)
                    if lv is None:
                        out.unsure(fn, lp, 'loop variable not recognised')
                        problems += 1
                        continue
                    per_sub = [cc for cc in astx.calls(lp) if astx.callee_attr(cc) == '_transfer' and
                               len(cc.args) >= 3 and astx.path(cc.args[2]) == f'{lv}.name']
                    if per_sub and not whole:
                        out.bad(fn, lp, f'the sweep issues the collective per-subsystem transfer '
                                f'`{astx.src(per_sub[0])}` but iterates only the local subsystems: ranks that '
                                'do not own the subsystem never take part in its transfer',
                                key='per-subsystem-transfer-on-local-set')
                        problems += 1
                        continue
                    if whole:
                        for cc in astx.calls(lp):
                            if astx.callee_attr(cc) in EXEC and astx.path(astx.receiver(cc)) == lv and \
                                    not _local_guarded(cc, lp, lv):
                                out.bad(fn, cc, f'`{astx.src(cc)}` runs for every subsystem of '
                                        '_all_subsystem_iter(), including those that are not local to this '
                                        f'rank (no `{lv}._is_local` guard)', key='nonlocal-subsystem-executed')
                                problems += 1
                if not problems:
                    out.ok(fn, st, ('all subsystems, executed only when local' if whole else 'local subsystems')
                           + f' ({len(lps)} loop(s))')
    for key, n in SWEEPS.items():
        if seen.get(key, 0) < n:
            f = repo.try_func(*key)
            if f is None:
                raise AnalysisError(f'{key[0]}:{key[1]} vanished')
            out.unsure(f, f.node, f'expected {n} filtered sweep(s), found {seen.get(key, 0)}')


# =========================================================================== gate
@rule('C24.gate', floor=2)
def gate(repo, out):
    """DirectSolver.use_relevance() is False and Group._linearize filters its children only under relevance.active(<linear solver>.use_relevance())."""
    cls = repo.cls(DIRECT, 'DirectSolver')
    f = repo.lookup(DIRECT, 'DirectSolver', 'use_relevance')
    if f is None:
        raise AnalysisError('use_relevance not found in the MRO of DirectSolver')
    rets = [st for st in astx.walk_stmts(f.node.body) if isinstance(st, ast.Return)]
    if not rets:
        out.unsure(f, f.node, 'use_relevance has no return statement')
    elif all(isinstance(r.value, ast.Constant) and r.value.value is False for r in rets):
        out.ok(f, rets[0], 'DirectSolver never allows pruning below it')
    elif any(isinstance(r.value, ast.Constant) and r.value.value is True for r in rets) or \
            f.qualname != 'DirectSolver.use_relevance':
        out.bad((DIRECT, 'DirectSolver'), cls if f.qualname != 'DirectSolver.use_relevance' else rets[0],
                f'DirectSolver.use_relevance resolves to {f.qualname} which can answer True: children that are '
                'irrelevant to the current seeds are then not linearized and the factored block is singular',
                key='direct-use-relevance')
    else:
        out.unsure(f, rets[0], 'use_relevance returns a computed value')

    fn = repo.func(GROUP, 'Group._linearize')
    fc, g, rd = filter_calls(fn)
    if not fc:
        raise AnalysisError(f'{fn.ident}: children are no longer filtered')
    for c, it, rv, st in fc:
        withs = []
        for a in astx.ancestors(st):
            if a is fn.node:
                break
            if isinstance(a, ast.With):
                for item in a.items:
                    ce = item.context_expr
                    if isinstance(ce, ast.Call) and astx.callee_attr(ce) == 'active' and \
                            _is_relevance(astx.receiver(ce), rd, g.nodes_of(a)[0]):
                        withs.append(ce)
        if not withs:
            out.bad(fn, st, 'children to linearize are filtered by relevance outside any relevance.active(...) '
                    'gate: below a DirectSolver the skipped children leave a singular block', key='gate-missing')
            continue
        ce = withs[0]
        e = astx.arg(ce, 0, 'active')
        if isinstance(e, ast.Name):
            v = rd.value(g.nodes_of(astx.stmt_of(ce))[0], e.id)
            e = v if v is not None else e
        if isinstance(e, ast.Constant):
            if e.value is False:
                out.ok(fn, ce, 'pruning switched off')
            else:
                out.bad(fn, ce, 'the gate is forced on: a DirectSolver group no longer linearizes the children '
                        'that are irrelevant to the current seeds', key='gate-forced-on')
            continue
        if isinstance(e, ast.Call) and astx.callee_attr(e) == 'use_relevance' and not e.args:
            r = astx.path(astx.receiver(e))
            if r in ('self._linear_solver', 'self.linear_solver'):
                out.ok(fn, ce, 'gated by the linear solver of this group')
            elif r in ('self._nonlinear_solver', 'self.nonlinear_solver'):
                out.bad(fn, ce, 'linearization is gated by the nonlinear solver: the linear solver that '
                        'factors the block (DirectSolver) is not consulted', key='gate-wrong-solver')
            else:
                out.unsure(fn, ce, f'gate consults `{r}`')
            continue
        out.unsure(fn, ce, 'gate argument not recognised')


# =========================================================================== self-test
_CTX_ACTIVE_OLD = """        if self._active or (not active and self._active is None):
            save = self._active
            self._active = active
            try:
                yield
            finally:
                self._active = save
"""
_ALL_OLD = """            save_fwd = self._seed_vars['fwd']
            save_rev = self._seed_vars['rev']
            save_active = self._active
            self._active = True
            self._set_seeds(self._all_seed_vars['fwd'], self._all_seed_vars['rev'])
            try:
                yield
            finally:
                self._active = save_active
                self._set_seeds(save_fwd, save_rev)
"""
_SEEDS_OLD = """        if self._active is False:  # if already inactive from higher level, don't change anything
            yield
        else:
            save_fwd = self._seed_vars['fwd']
            save_rev = self._seed_vars['rev']
            save_active = self._active
            self._active = True
            if fwd_seeds is None:
                fwd_seeds = self._seed_vars['fwd']
            if rev_seeds is None:
                rev_seeds = self._seed_vars['rev']
            self._set_seeds(fwd_seeds, rev_seeds)
            try:
                yield
            finally:
                self._set_seeds(save_fwd, save_rev)
                self._active = save_active
"""
_NL_OLD = """            save_active = self._active
            save_relsarray = self._current_rel_sarray
            self._active = True
            self._current_rel_sarray = self._nonlinear_sets[name]

            try:
                yield
            finally:
                self._active = save_active
                self._current_rel_sarray = save_relsarray
"""
_FILTER_OLD = """        if self._active:
            for system in systems:
                if relevant == self.is_relevant_system(system.pathname):
                    yield system
        elif relevant:
            yield from systems
"""
_AL_OLD = """            if mode == 'fwd':
                self._transfer('linear', mode)
                for s in self._relevance.filter(self._subsystems_myproc, relevant=False):
                    # zero out dvecs of irrelevant subsystems
                    s._dresiduals.set_val(0.0)

            for s in self._relevance.filter(self._subsystems_myproc, relevant=True):
                s._apply_linear(mode, scope_out, scope_in)

            if mode == 'rev':
                self._transfer('linear', mode)
                for s in self._relevance.filter(self._subsystems_myproc, relevant=False):
                    # zero out dvecs of irrelevant subsystems
                    s._doutputs.set_val(0.0)
"""
_LBGS = 'openmdao/solvers/linear/linear_block_gs.py'
_NLBJ = 'openmdao/solvers/nonlinear/nonlinear_block_jac.py'
_SOLVER = 'openmdao/solvers/solver.py'

selftest(
    'C24',
    # ---- ctx
    Mutant('ctx-active-no-finally', REL, _CTX_ACTIVE_OLD,
           """        if self._active or (not active and self._active is None):
            save = self._active
            self._active = active
            yield
            self._active = save
""", 'C24.ctx'),
    Mutant('ctx-active-restore-none', REL, '                self._active = save\n', '                self._active = None\n', 'C24.ctx'),
    Mutant('ctx-active-save-late', REL, '            save = self._active\n            self._active = active\n',
           '            self._active = active\n            save = self._active\n', 'C24.ctx'),
    Mutant('ctx-allseeds-drop-active-restore', REL, '                self._active = save_active\n                self._set_seeds(save_fwd, save_rev)\n',
           '                self._set_seeds(save_fwd, save_rev)\n', 'C24.ctx'),
    Mutant('ctx-allseeds-drop-seed-restore', REL, '                self._active = save_active\n                self._set_seeds(save_fwd, save_rev)\n',
           '                self._active = save_active\n', 'C24.ctx'),
    Mutant('ctx-seeds-swapped-restore', REL, '                self._set_seeds(save_fwd, save_rev)\n                self._active = save_active\n',
           '                self._set_seeds(save_rev, save_fwd)\n                self._active = save_active\n', 'C24.ctx'),
    Mutant('ctx-seeds-snapshot-after-set', REL,
           """            save_fwd = self._seed_vars['fwd']
            save_rev = self._seed_vars['rev']
            save_active = self._active
            self._active = True
            if fwd_seeds is None:
                fwd_seeds = self._seed_vars['fwd']
            if rev_seeds is None:
                rev_seeds = self._seed_vars['rev']
            self._set_seeds(fwd_seeds, rev_seeds)
""",
           """            save_active = self._active
            self._active = True
            if fwd_seeds is None:
                fwd_seeds = self._seed_vars['fwd']
            if rev_seeds is None:
                rev_seeds = self._seed_vars['rev']
            self._set_seeds(fwd_seeds, rev_seeds)
            save_fwd = self._seed_vars['fwd']
            save_rev = self._seed_vars['rev']
""", 'C24.ctx'),
    Mutant('ctx-seeds-restore-only-on-success', REL,
           """            try:
                yield
            finally:
                self._set_seeds(save_fwd, save_rev)
                self._active = save_active
""",
           """            yield
            self._set_seeds(save_fwd, save_rev)
            self._active = save_active
""", 'C24.ctx'),
    Mutant('ctx-nl-drop-sarray-restore', REL, '                self._active = save_active\n                self._current_rel_sarray = save_relsarray\n',
           '                self._active = save_active\n', 'C24.ctx'),
    Mutant('ctx-nl-restore-crossed', REL, '            save_relsarray = self._current_rel_sarray\n', '            save_relsarray = self._current_rel_varray\n', 'C24.ctx'),
    Mutant('ctx-bare-branch-writes', REL, '        if self._active is False:\n            yield\n        else:\n            save_fwd',
           '        if self._active is False:\n            yield\n            self._active = None\n        else:\n            save_fwd', 'C24.ctx'),
    # ---- off
    Mutant('off-active-noop-when-on', REL, '        if self._active or (not active and self._active is None):',
           '        if (self._active and active) or (not active and self._active is None):', 'C24.off'),
    Mutant('off-active-reactivates-disabled', REL, '        if self._active or (not active and self._active is None):',
           '        if self._active is not None or not active:', 'C24.off'),
    Mutant('off-active-inverted', REL, '            save = self._active\n            self._active = active\n',
           '            save = self._active\n            self._active = not active\n', 'C24.off'),
    Mutant('off-allseeds-none-test', REL, '        if self._active is False:\n            yield\n        else:\n            save_fwd',
           '        if self._active is None:\n            yield\n        else:\n            save_fwd', 'C24.off'),
    Mutant('off-seeds-drop-guard', REL, '        if self._active is False:  # if already inactive from higher level, don\'t change anything\n            yield\n        else:\n',
           '        if False:\n            yield\n        else:\n', 'C24.off'),
    Mutant('off-nl-and', REL, "        if not active or self._active is False or name not in self._nonlinear_sets:",
           "        if not active or (self._active is False and name not in self._nonlinear_sets):", 'C24.off'),
    Mutant('off-active-none-switched-on', REL, '        if self._active or (not active and self._active is None):',
           '        if self._active is not False:', 'C24.off'),
    Mutant('off-active-none-or-true', REL, '        if self._active or (not active and self._active is None):',
           '        if self._active or self._active is None:', 'C24.off'),
    # ---- once
    Mutant('once-guard-removed', REL, "        # don't redo this if it's already done\n        if model._pre_components is not None:\n            return\n\n", '', 'C24.once'),
    Mutant('once-guard-truthy', REL, "        if model._pre_components is not None:\n            return\n", "        if model._pre_components:\n            return\n", 'C24.once'),
    Mutant('once-guard-inverted', REL, "        if model._pre_components is not None:\n            return\n", "        if model._pre_components is None:\n            return\n", 'C24.once'),
    Mutant('once-guard-after-first-write', REL, "        # don't redo this if it's already done\n        if model._pre_components is not None:\n            return\n\n        if not designvars or not responses or not model._problem_meta['group_by_pre_opt_post']:\n            return\n",
           "        if not designvars or not responses or not model._problem_meta['group_by_pre_opt_post']:\n            return\n\n        model._post_components = set()\n        if model._pre_components is not None:\n            return\n", 'C24.once'),
    Mutant('once-foreign-writer', 'openmdao/core/total_jac.py', "        self.relevance = get_relevance(model, of_metadata, wrt_metadata)\n",
           "        self.relevance = get_relevance(model, of_metadata, wrt_metadata)\n        model._pre_components = set()\n", 'C24.once'),
    # ---- filter / failopen
    Mutant('filter-by-name', REL, 'if relevant == self.is_relevant_system(system.pathname):', 'if relevant == self.is_relevant_system(system.name):', 'C24.filter'),
    Mutant('filter-inverted', REL, 'if relevant == self.is_relevant_system(system.pathname):', 'if relevant != self.is_relevant_system(system.pathname):', 'C24.filter'),
    Mutant('filter-ignores-flag', REL, 'if relevant == self.is_relevant_system(system.pathname):', 'if self.is_relevant_system(system.pathname):', 'C24.filter'),
    Mutant('filter-inactive-yields-irrelevant', REL, '        elif relevant:\n            yield from systems\n', '        else:\n            yield from systems\n', 'C24.filter'),
    Mutant('filter-inactive-drops-all', REL, '        elif relevant:\n            yield from systems\n', '        elif not relevant:\n            yield from systems\n', 'C24.filter'),
    Mutant('filter-none-state-prunes', REL, '        if self._active:\n            for system in systems:', '        if self._active is not False:\n            for system in systems:', 'C24.filter',
           also=[(REL, '        if not self._active or self._current_rel_sarray is None:\n            return True',
                  '        if self._active is False or self._current_rel_sarray is None:\n            return True')]),
    Mutant('filter-no-gate-at-all', REL, _FILTER_OLD, """        for system in systems:
            if relevant == self.is_relevant_system(system.pathname):
                yield system
""", 'C24.filter',
           also=[(REL, '        if not self._active or self._current_rel_sarray is None:\n            return True',
                  '        if self._current_rel_sarray is None:\n            return True')]),
    Mutant('failopen-var-and', REL, '        if not self._active or self._current_rel_varray is None:\n            return True',
           '        if not self._active and self._current_rel_varray is None:\n            return True', 'C24.failopen'),
    Mutant('failopen-any-false', REL, '        if not self._active:\n            return True\n\n        for n in names:',
           '        if not self._active:\n            return False\n\n        for n in names:', 'C24.failopen'),
    # ---- arrays
    Mutant('arrays-sarray-from-var-map', REL,
           '        self._current_rel_sarray = self._get_rel_array(self._seed_sys_map,',
           '        self._current_rel_sarray = self._get_rel_array(self._seed_var_map,', 'C24.arrays'),
    Mutant('arrays-varray-single-sys', REL,
           '                                                       self._single_seed2relvars,\n                                                       fwd_seeds, rev_seeds)\n        if self._current_rel_varray.size',
           '                                                       self._single_seed2relsys,\n                                                       fwd_seeds, rev_seeds)\n        if self._current_rel_varray.size', 'C24.arrays'),
    Mutant('arrays-set-seeds-swapped-args', REL,
           '                                                       self._single_seed2relsys,\n                                                       fwd_seeds, rev_seeds)',
           '                                                       self._single_seed2relsys,\n                                                       rev_seeds, fwd_seeds)', 'C24.arrays'),
    Mutant('arrays-seed-vars-crossed', REL, "        self._seed_vars['fwd'] = fwd_seeds\n        self._seed_vars['rev'] = rev_seeds\n",
           "        self._seed_vars['fwd'] = rev_seeds\n        self._seed_vars['rev'] = fwd_seeds\n", 'C24.arrays'),
    Mutant('arrays-sys-map-from-relvars', REL,
           "            seed_sys_map[fsrc][rev_seeds] = \\\n                self._combine_relevance(self._single_seed2relsys['fwd'], [fsrc],\n                                        self._single_seed2relsys['rev'], rev_seeds)",
           "            seed_sys_map[fsrc][rev_seeds] = \\\n                self._combine_relevance(self._single_seed2relvars['fwd'], [fsrc],\n                                        self._single_seed2relvars['rev'], rev_seeds)", 'C24.arrays'),
    Mutant('arrays-key-mismatch', REL,
           "            seed_var_map[fsrc][rev_seeds] = \\\n                self._combine_relevance(self._single_seed2relvars['fwd'], [fsrc],\n                                        self._single_seed2relvars['rev'], rev_seeds)",
           "            seed_var_map[fsrc][rev_seeds] = \\\n                self._combine_relevance(self._single_seed2relvars['fwd'], [fsrc],\n                                        self._single_seed2relvars['rev'], rev_seeds[:1])", 'C24.arrays'),
    Mutant('arrays-direction-swapped', REL,
           "            relarr = self._combine_relevance(single_seed2rel['fwd'], fwd_seeds,\n                                             single_seed2rel['rev'], rev_seeds)",
           "            relarr = self._combine_relevance(single_seed2rel['rev'], fwd_seeds,\n                                             single_seed2rel['fwd'], rev_seeds)", 'C24.arrays'),
    Mutant('arrays-cache-store-swapped', REL, '            seed_map[fwd_seeds][rev_seeds] = relarr', '            seed_map[rev_seeds][fwd_seeds] = relarr', 'C24.arrays'),
    Mutant('arrays-cache-read-swapped', REL, '            return seed_map[fwd_seeds][rev_seeds]', '            return seed_map[rev_seeds][fwd_seeds]', 'C24.arrays'),
    Mutant('arrays-index-family', REL, '            return self._current_rel_sarray[self._sys2idx[name]]', '            return self._current_rel_sarray[self._var2idx[name]]', 'C24.arrays'),
    Mutant('arrays-default-crossed', REL, "            if rev_seeds is None:\n                rev_seeds = self._seed_vars['rev']\n            self._set_seeds(fwd_seeds, rev_seeds)",
           "            if rev_seeds is None:\n                rev_seeds = self._seed_vars['fwd']\n            self._set_seeds(fwd_seeds, rev_seeds)", 'C24.arrays'),
    Mutant('arrays-allseeds-swapped', REL, "self._set_seeds(self._all_seed_vars['fwd'], self._all_seed_vars['rev'])", "self._set_seeds(self._all_seed_vars['rev'], self._all_seed_vars['fwd'])", 'C24.arrays'),
    # ---- who
    Mutant('who-switch-inverted', REL, '        self._active = False if _no_relevance else None', '        self._active = None if _no_relevance else False', 'C24.who'),
    Mutant('who-switch-reset-late', REL, "        if not (fwd_meta and rev_meta):\n            self._active = False\n", "        self._active = False if not (fwd_meta and rev_meta) else None\n", 'C24.who'),
    Mutant('who-set-seeds-activates', REL, '        if self._current_rel_varray.size == 0:\n            self._active = False\n',
           '        self._active = self._current_rel_varray.size > 0\n', 'C24.who'),
    Mutant('who-foreign-writer', 'openmdao/core/total_jac.py', "        self.relevance = get_relevance(model, of_metadata, wrt_metadata)\n",
           "        self.relevance = get_relevance(model, of_metadata, wrt_metadata)\n        self.relevance._active = True\n", 'C24.who'),
    Mutant('who-list-relevance-writes', REL, "        if type == 'system':\n            return list(", "        self._active = True\n        if type == 'system':\n            return list(", 'C24.who'),
    # ---- combine
    Mutant('combine-and-accumulate', REL, '                    combined |= (farr & rmap[rseed])', '                    combined &= (farr & rmap[rseed])', 'C24.combine'),
    Mutant('combine-overwrite', REL, '                    combined |= (farr & rmap[rseed])', '                    combined = (farr & rmap[rseed])', 'C24.combine'),
    Mutant('combine-first-only', REL, '                    combined |= (farr & rmap[rseed])', '                    break', 'C24.combine'),
    # ---- skipzero
    Mutant('skipzero-apply-irrelevant', GROUP, 'for s in self._relevance.filter(self._subsystems_myproc, relevant=True):', 'for s in self._relevance.filter(self._subsystems_myproc, relevant=False):', 'C24.skipzero'),
    Mutant('skipzero-rev-zero-relevant', GROUP, 'for s in self._relevance.filter(self._subsystems_myproc, relevant=False):', 'for s in self._relevance.filter(self._subsystems_myproc):', 'C24.skipzero', nth=1),
    Mutant('skipzero-rev-wrong-vector', GROUP, '                    s._doutputs.set_val(0.0)\n\n    def _apply_fd_rev_xfer_correction', '                    s._dresiduals.set_val(0.0)\n\n    def _apply_fd_rev_xfer_correction', 'C24.skipzero'),
    Mutant('skipzero-rev-missing', GROUP, """            if mode == 'rev':
                self._transfer('linear', mode)
                for s in self._relevance.filter(self._subsystems_myproc, relevant=False):
                    # zero out dvecs of irrelevant subsystems
                    s._doutputs.set_val(0.0)
""", """            if mode == 'rev':
                self._transfer('linear', mode)
""", 'C24.skipzero'),
    Mutant('skipzero-rev-before-transfer', GROUP, """            if mode == 'rev':
                self._transfer('linear', mode)
                for s in self._relevance.filter(self._subsystems_myproc, relevant=False):
                    # zero out dvecs of irrelevant subsystems
                    s._doutputs.set_val(0.0)
""", """            if mode == 'rev':
                for s in self._relevance.filter(self._subsystems_myproc, relevant=False):
                    # zero out dvecs of irrelevant subsystems
                    s._doutputs.set_val(0.0)
                self._transfer('linear', mode)
""", 'C24.skipzero'),
    Mutant('skipzero-fwd-mode-guard-wrong', GROUP, "            if mode == 'fwd':\n                self._transfer('linear', mode)\n                for s in self._relevance.filter(self._subsystems_myproc, relevant=False):",
           "            if mode == 'fwd':\n                self._transfer('linear', mode)\n            if mode == 'rev':\n                for s in self._relevance.filter(self._subsystems_myproc, relevant=False):", 'C24.skipzero'),
    # ---- same-set
    Mutant('sameset-gs-local-only', _SOLVER, 'for subsys in system._relevance.filter(system._all_subsystem_iter()):', 'for subsys in system._relevance.filter(system._subsystems_myproc):', 'C24.same-set'),
    Mutant('sameset-lbgs-rev-local-only', _LBGS, 'subsystems = list(relevance.filter(system._all_subsystem_iter()))', 'subsystems = list(relevance.filter(system._subsystems_myproc))', 'C24.same-set'),
    Mutant('sameset-nlbj-all', _NLBJ, 'for subsys in system._relevance.filter(system._subsystems_myproc):', 'for subsys in system._relevance.filter(system._all_subsystem_iter()):', 'C24.same-set'),
    Mutant('sameset-gs-unguarded', _SOLVER, "            if subsys._is_local:\n                try:\n                    subsys._solve_nonlinear()",
           "            if True:\n                try:\n                    subsys._solve_nonlinear()", 'C24.same-set'),
    # ---- gate
    Mutant('gate-direct-true', DIRECT, """            True if relevance should be active.
        \"\"\"
        return False""", """            True if relevance should be active.
        \"\"\"
        return True""", 'C24.gate'),
    Mutant('gate-linearize-forced-on', GROUP, "            with relevance.active(self._linear_solver.use_relevance()):\n                subs = list(",
           "            with relevance.active(True):\n                subs = list(", 'C24.gate'),
    Mutant('gate-linearize-wrong-solver', GROUP, "            with relevance.active(self._linear_solver.use_relevance()):\n                subs = list(",
           "            with relevance.active(self._nonlinear_solver.use_relevance()):\n                subs = list(", 'C24.gate'),
    Mutant('gate-linearize-filter-outside', GROUP, "            with relevance.active(self._linear_solver.use_relevance()):\n                subs = list(relevance.filter(self._subsystems_myproc))\n",
           "            subs = list(relevance.filter(self._subsystems_myproc))\n            with relevance.active(self._linear_solver.use_relevance()):\n", 'C24.gate'),
    # ---- twins
    Twin('twin-ctx-rename-save', REL, _CTX_ACTIVE_OLD, _CTX_ACTIVE_OLD.replace('save', 'previous')),
    Twin('twin-ctx-reorder-finally', REL, '                self._active = save_active\n                self._set_seeds(save_fwd, save_rev)\n',
         '                self._set_seeds(save_fwd, save_rev)\n                self._active = save_active\n'),
    Twin('twin-ctx-flip-branches', REL, """        if self._active is False:
            yield
        else:
""" + _ALL_OLD, """        if self._active is not False:
            save_fwd = self._seed_vars['fwd']
            save_rev = self._seed_vars['rev']
            save_active = self._active
            self._active = True
            self._set_seeds(self._all_seed_vars['fwd'], self._all_seed_vars['rev'])
            try:
                yield
            finally:
                self._active = save_active
                self._set_seeds(save_fwd, save_rev)
        else:
            yield
"""),
    Twin('twin-ctx-except-reraise', REL, _NL_OLD, """            save_active = self._active
            save_relsarray = self._current_rel_sarray
            self._current_rel_sarray = self._nonlinear_sets[name]
            self._active = True

            try:
                yield
            except BaseException:
                self._current_rel_sarray = save_relsarray
                self._active = save_active
                raise
            self._current_rel_sarray = save_relsarray
            self._active = save_active
"""),
    Twin('twin-filter-flipped', REL, _FILTER_OLD, """        if not self._active:
            if relevant:
                yield from systems
        else:
            for s in systems:
                if self.is_relevant_system(s.pathname) == relevant:
                    yield s
"""),
    Twin('twin-filter-relies-on-failopen', REL, '        if self._active:\n            for system in systems:', '        if self._active is not False:\n            for system in systems:'),
    Twin('twin-query-not-failopen-but-filter-gated', REL, '        if not self._active or self._current_rel_sarray is None:\n            return True',
         '        if self._active is False or self._current_rel_sarray is None:\n            return True'),
    Twin('twin-filter-ungated-query-failopen', REL, _FILTER_OLD, """        for system in systems:
            if relevant == self.is_relevant_system(system.pathname):
                yield system
"""),
    Twin('twin-failopen-split', REL, '        if not self._active or self._current_rel_sarray is None:\n            return True',
         '        if not self._active:\n            return True\n        if self._current_rel_sarray is None:\n            return True'),
    Twin('twin-combine-isnot', REL, """                if combined is None:
                    combined = farr & rmap[rseed]
                else:
                    combined |= (farr & rmap[rseed])
""", """                both = farr & rmap[rseed]
                if combined is not None:
                    combined |= both
                else:
                    combined = both
"""),
    Twin('twin-skipzero-restructured', GROUP, _AL_OLD, """            rel = self._relevance
            if mode == 'rev':
                for sub in rel.filter(self._subsystems_myproc):
                    sub._apply_linear(mode, scope_out, scope_in)
                self._transfer('linear', mode)
                for sub in rel.filter(self._subsystems_myproc, relevant=False):
                    sub._doutputs.set_val(0)
            else:
                self._transfer('linear', mode)
                for sub in rel.filter(self._subsystems_myproc, relevant=False):
                    sub._dresiduals.set_val(0.0)
                for sub in rel.filter(self._subsystems_myproc):
                    sub._apply_linear(mode, scope_out, scope_in)
"""),
    Twin('twin-sameset-continue-guard', _SOLVER, """            if subsys._is_local:
                try:
                    subsys._solve_nonlinear()
                except AnalysisError as err:
                    if 'reraise_child_analysiserror' not in self.options or \\
                            self.options['reraise_child_analysiserror']:
                        raise err
""", """            if not subsys._is_local:
                continue
            try:
                subsys._solve_nonlinear()
            except AnalysisError as err:
                if 'reraise_child_analysiserror' not in self.options or \\
                        self.options['reraise_child_analysiserror']:
                    raise err
"""),
    Twin('twin-who-switch-if', REL, '        self._active = False if _no_relevance else None', '        self._active = None\n        if _no_relevance:\n            self._active = False'),
    Twin('twin-once-not-is-none', REL, "        if model._pre_components is not None:\n            return\n", "        if not (model._pre_components is None):\n            return\n"),
    Twin('twin-once-flag', REL, "        if model._pre_components is not None:\n            return\n", "        done = model._pre_components is not None\n        if done:\n            return\n"),
    Twin('twin-once-any-set', REL, "        if model._pre_components is not None:\n            return\n", "        if model._pre_components is not None or model._post_components is not None:\n            return\n"),
    Twin('twin-off-active-explicit', REL, '        if self._active or (not active and self._active is None):',
         '        if self._active is True or (self._active is None and not active):'),
    Twin('twin-arrays-kwargs-setdefault', REL, """            relarr = self._combine_relevance(single_seed2rel['fwd'], fwd_seeds,
                                             single_seed2rel['rev'], rev_seeds)
            if fwd_seeds not in seed_map:
                seed_map[fwd_seeds] = {}
            seed_map[fwd_seeds][rev_seeds] = relarr

        return relarr
""", """            relarr = self._combine_relevance(fmap=single_seed2rel['fwd'], fwd_seeds=fwd_seeds,
                                             rmap=single_seed2rel['rev'], rev_seeds=rev_seeds)
            seed_map.setdefault(fwd_seeds, {})[rev_seeds] = relarr
            return relarr
"""),
    Twin('twin-combine-temp-early-return', REL, """                if combined is None:
                    combined = farr & rmap[rseed]
                else:
                    combined |= (farr & rmap[rseed])

        return np.zeros(0, dtype=bool) if combined is None else self._get_cached_array(combined)
""", """                intersection = farr & rmap[rseed]
                if combined is None:
                    combined = intersection
                else:
                    combined |= intersection

        if combined is None:
            return np.zeros(0, dtype=bool)

        return self._get_cached_array(combined)
"""),
    Twin('twin-ctx-tuple-snapshot-helper', REL, _ALL_OLD, """            saved_seeds = (self._seed_vars['fwd'], self._seed_vars['rev'])
            save_active = self._active
            self._active = True
            self._set_seeds(*self.get_full_seeds())
            try:
                yield
            finally:
                self._active = save_active
                self._set_seeds(*saved_seeds)
"""),
    Twin('twin-ctx-early-return-ifexp-defaults', REL, _SEEDS_OLD, """        if self._active is False:
            yield
            return

        save_fwd = self._seed_vars['fwd']
        save_rev = self._seed_vars['rev']
        save_active = self._active
        self._active = True
        self._set_seeds(save_fwd if fwd_seeds is None else fwd_seeds,
                        rev_seeds=save_rev if rev_seeds is None else rev_seeds)
        try:
            yield
        finally:
            self._set_seeds(save_fwd, save_rev)
            self._active = save_active
"""),
    Twin('twin-arrays-set-seeds-kwargs', REL, """        self._current_rel_sarray = self._get_rel_array(self._seed_sys_map,
                                                       self._single_seed2relsys,
                                                       fwd_seeds, rev_seeds)""",
         """        self._current_rel_sarray = self._get_rel_array(self._seed_sys_map, rev_seeds=rev_seeds,
                                                       single_seed2rel=self._single_seed2relsys,
                                                       fwd_seeds=fwd_seeds)"""),
    Mutant('ctx-tuple-snapshot-swapped', REL, _ALL_OLD, """            saved_seeds = (self._seed_vars['rev'], self._seed_vars['fwd'])
            save_active = self._active
            self._active = True
            self._set_seeds(*self.get_full_seeds())
            try:
                yield
            finally:
                self._active = save_active
                self._set_seeds(*saved_seeds)
""", 'C24.ctx'),
    Mutant('ctx-tuple-snapshot-late', REL, _ALL_OLD, """            save_active = self._active
            self._active = True
            self._set_seeds(*self.get_full_seeds())
            saved_seeds = (self._seed_vars['fwd'], self._seed_vars['rev'])
            try:
                yield
            finally:
                self._active = save_active
                self._set_seeds(*saved_seeds)
""", 'C24.ctx'),
    Mutant('arrays-ifexp-default-crossed', REL, _SEEDS_OLD, """        if self._active is False:
            yield
            return

        save_fwd = self._seed_vars['fwd']
        save_rev = self._seed_vars['rev']
        save_active = self._active
        self._active = True
        self._set_seeds(save_fwd if fwd_seeds is None else fwd_seeds,
                        save_fwd if rev_seeds is None else rev_seeds)
        try:
            yield
        finally:
            self._set_seeds(save_fwd, save_rev)
            self._active = save_active
""", 'C24.arrays'),
    Mutant('arrays-kwargs-direction-swapped', REL, """            relarr = self._combine_relevance(single_seed2rel['fwd'], fwd_seeds,
                                             single_seed2rel['rev'], rev_seeds)""",
           """            relarr = self._combine_relevance(rmap=single_seed2rel['fwd'], fwd_seeds=fwd_seeds,
                                             fmap=single_seed2rel['rev'], rev_seeds=rev_seeds)""", 'C24.arrays'),
    Mutant('arrays-setdefault-key-swapped', REL, """            if fwd_seeds not in seed_map:
                seed_map[fwd_seeds] = {}
            seed_map[fwd_seeds][rev_seeds] = relarr
""", """            seed_map.setdefault(rev_seeds, {})[fwd_seeds] = relarr
""", 'C24.arrays'),
    # ---- jacreset
    Mutant('jacreset-impl-only-approx', IMPL, "        if self._relevance_changed() and not isinstance(self._jacobian, _ColSparsityJac):\n            self._jac_wrapper = None\n",
           "        if (self._relevance_changed() and self._has_approx and\n                not isinstance(self._jacobian, _ColSparsityJac)):\n            self._jac_wrapper = None\n", 'C24.jacreset'),
    Mutant('jacreset-expl-short-circuit', EXPL, "        if self._relevance_changed() and not isinstance(self._jacobian, _ColSparsityJac):\n            self._jacobian = None\n",
           "        if self._has_approx and self._relevance_changed() and not isinstance(self._jacobian, _ColSparsityJac):\n            self._jacobian = None\n", 'C24.jacreset'),
    Mutant('jacreset-impl-wrong-cache', IMPL, "        if self._relevance_changed() and not isinstance(self._jacobian, _ColSparsityJac):\n            self._jac_wrapper = None\n",
           "        if self._relevance_changed() and not isinstance(self._jacobian, _ColSparsityJac):\n            self._jacobian = None\n", 'C24.jacreset'),
    Mutant('jacreset-group-pathname', GROUP, "        if self._relevance_changed():\n            self._jacobian = None\n", "        if self._relevance_changed() and self.pathname == '':\n            self._jacobian = None\n", 'C24.jacreset'),
    Mutant('jacreset-changed-and', SYSTEM, "if (old_rel is not self._relevance) or (active != self._relevance._active):", "if (old_rel is not self._relevance) and (active != self._relevance._active):", 'C24.jacreset'),
    Mutant('jacreset-changed-ignores-active', SYSTEM, "if (old_rel is not self._relevance) or (active != self._relevance._active):", "if old_rel is not self._relevance:", 'C24.jacreset'),
    Twin('twin-jacreset-nested-if', IMPL, "        if self._relevance_changed() and not isinstance(self._jacobian, _ColSparsityJac):\n            self._jac_wrapper = None\n",
         "        if self._relevance_changed() and not (isinstance(self._jacobian, _ColSparsityJac)):\n            self._jac_wrapper = None\n"),
    Twin('twin-jacreset-changed-flag', SYSTEM, """        if (old_rel is not self._relevance) or (active != self._relevance._active):
            self._old_relevance = (self._relevance, self._relevance._active)
            return True
        return False
""", """        changed = self._relevance is not old_rel or self._relevance._active != active
        if changed:
            self._old_relevance = (self._relevance, self._relevance._active)
        return changed
"""),
    # ---- seedcover
    Mutant('seedcover-last-wrt-only', APPROX, "self._approx_groups = [(tuple(wrts_directional), data_directional,", "self._approx_groups = [((wrt,), data_directional,", 'C24.seedcover'),
    Mutant('seedcover-consumer-wrong-slot', APPROX, "                        seeds = wrt if directional else (wrt,)\n", "                        seeds = direction if directional else (wrt,)\n", 'C24.seedcover'),
    Mutant('seedcover-no-seeds', APPROX, "                        with system._relevance.seeds_active(fwd_seeds=seeds):\n                            result = self._run_point(system, vec_ind_info,\n                                                     app_data, results_array, total_or_semi,\n                                                     loc_idx)\n",
           "                        with system._relevance.all_seeds_active():\n                            result = self._run_point(system, vec_ind_info,\n                                                     app_data, results_array, total_or_semi,\n                                                     loc_idx)\n", 'C24.seedcover'),
    Twin('twin-seedcover-rename-acc', APPROX, "wrts_directional", "all_wrts", nth='all'),
    Twin('twin-seedcover-list-seeds', APPROX, "self._approx_groups = [(tuple(wrts_directional), data_directional,", "self._approx_groups = [(tuple(sorted(wrts_directional)), data_directional,"),
    Twin('twin-seedcover-consumer-if', APPROX, "                        seeds = wrt if directional else (wrt,)\n", "                        if directional:\n                            seeds = wrt\n                        else:\n                            seeds = (wrt,)\n"),
    # ---- phase
    Mutant('phase-ff-pre-guarded-by-post', DRIVER, "            if model._pre_components:\n                with model._relevance.nonlinear_active('pre'):", "            if model._post_components:\n                with model._relevance.nonlinear_active('pre'):", 'C24.phase', nth=1),
    Mutant('phase-run-post-guarded-by-pre', DRIVER, "            if model._post_components:\n                with model._relevance.nonlinear_active('post'):", "            if model._pre_components:\n                with model._relevance.nonlinear_active('post'):", 'C24.phase'),
    Mutant('phase-run-pre-needs-both', DRIVER, "            if model._pre_components:\n                with model._relevance.nonlinear_active('pre'):", "            if model._pre_components and model._post_components:\n                with model._relevance.nonlinear_active('pre'):", 'C24.phase'),
    Mutant('phase-sets-crossed', REL, "        pre_array = self._sys2rel_array(pre_systems)\n        post_array = self._sys2rel_array(post_systems)", "        pre_array = self._sys2rel_array(post_systems)\n        post_array = self._sys2rel_array(pre_systems)", 'C24.phase'),
    Mutant('phase-dict-crossed', REL, "{'pre': pre_array, 'iter': iter_array, 'post': post_array}", "{'pre': post_array, 'iter': iter_array, 'post': pre_array}", 'C24.phase'),
    Twin('twin-phase-len-guard', DRIVER, "            if model._pre_components:\n                with model._relevance.nonlinear_active('pre'):", "            if model._pre_components or False:\n                with model._relevance.nonlinear_active('pre'):"),
    Twin('twin-phase-len-test', DRIVER, "            if model._post_components:\n                with model._relevance.nonlinear_active('post'):\n                    self._run_solve_nonlinear()\n\n        else:\n            with SaveOptResult(self):\n                res = f_lsq()",
         "            if len(model._post_components) > 0:\n                with model._relevance.nonlinear_active('post'):\n                    self._run_solve_nonlinear()\n\n        else:\n            with SaveOptResult(self):\n                res = f_lsq()"),
    Mutant('jacreset-impl-approx-not-rebuilt', IMPL, "                if self._has_approx:\n                    self._get_static_wrt_matches()\n                    self._add_approximations(use_relevance=use_relevance)\n\n        return self._jac_wrapper",
           "                if self._has_approx:\n                    self._get_static_wrt_matches()\n\n        return self._jac_wrapper", 'C24.jacreset'),
    # pre-fix shapes of the two repaired defects (reverts must be reported)
    Mutant('jacreset-group-prefix-shape', GROUP, "            self._jacobian = None\n            if self._owns_approx_jac and self.pathname and not self._first_call_to_linearize:\n                # the approximations were set up (and pruned) for the previous relevance\n                self._clear_jac_caches()\n                self._setup_approx_derivs()\n",
           "            self._jacobian = None\n", 'C24.jacreset'),
    Mutant('statecoupling-prefix-shape-subjacs', JACOBIAN, "                        if relevance is not None and wrt not in out_slices and \\\n                                (not is_relevant(wrt) or not is_relevant(of)):",
           "                        if relevance is not None and (not is_relevant(wrt) or not is_relevant(of)):", 'C24.statecoupling'),
    Mutant('statecoupling-prefix-shape-keys', JACOBIAN, "                                    if relevance is not None and type_ == 'input' and \\\n                                            (not is_relevant(wrt) or not is_relevant(of)):",
           "                                    if relevance is not None and (not is_relevant(wrt) or\n                                                                  not is_relevant(of)):", 'C24.statecoupling'),
    Mutant('statecoupling-wrong-container', JACOBIAN, "if relevance is not None and wrt not in out_slices and \\", "if relevance is not None and wrt not in in_slices and \\", 'C24.statecoupling'),
    Mutant('statecoupling-wrong-type', JACOBIAN, "if relevance is not None and type_ == 'input' and \\", "if relevance is not None and type_ == 'output' and \\", 'C24.statecoupling'),
    Twin('twin-jacreset-group-flag-first', GROUP, "            if self._owns_approx_jac and self.pathname and not self._first_call_to_linearize:\n                # the approximations were set up (and pruned) for the previous relevance\n                self._clear_jac_caches()\n                self._setup_approx_derivs()\n",
         "            redo = self._owns_approx_jac and self.pathname and not self._first_call_to_linearize\n            if redo:\n                self._clear_jac_caches()\n                self._setup_approx_derivs()\n"),
    Twin('twin-statecoupling-in-inputs', JACOBIAN, "if relevance is not None and wrt not in out_slices and \\", "if relevance is not None and wrt in in_slices and \\",
         also=[(JACOBIAN, "if relevance is not None and type_ == 'input' and \\", "if relevance is not None and type_ != 'output' and \\")]),
    # ---- second robustness round shapes
    Twin('twin-jacreset-expl-nested-early-return', EXPL, '        if self._relevance_changed() and not isinstance(self._jacobian, _ColSparsityJac):\n            self._jacobian = None\n\n        if not self.matrix_free and self._jacobian is None:\n            self._jacobian = ExplicitDictionaryJacobian(self)\n            if self._has_approx:\n                self._get_static_wrt_matches()\n                self._add_approximations(use_relevance=use_relevance)\n\n        return self._jacobian\n', '        if self._relevance_changed():\n            if not isinstance(self._jacobian, _ColSparsityJac):\n                self._jacobian = None\n\n        if self.matrix_free or self._jacobian is not None:\n            return self._jacobian\n\n        self._jacobian = ExplicitDictionaryJacobian(self)\n        if self._has_approx:\n            self._get_static_wrt_matches()\n            self._add_approximations(use_relevance=use_relevance)\n\n        return self._jacobian\n'),
    Mutant('jacreset-expl-nested-extra-cond', EXPL, '        if self._relevance_changed() and not isinstance(self._jacobian, _ColSparsityJac):\n            self._jacobian = None\n\n        if not self.matrix_free and self._jacobian is None:\n            self._jacobian = ExplicitDictionaryJacobian(self)\n            if self._has_approx:\n                self._get_static_wrt_matches()\n                self._add_approximations(use_relevance=use_relevance)\n\n        return self._jacobian\n', '        if self._relevance_changed():\n            if self._has_approx and not isinstance(self._jacobian, _ColSparsityJac):\n                self._jacobian = None\n\n        if self.matrix_free or self._jacobian is not None:\n            return self._jacobian\n\n        self._jacobian = ExplicitDictionaryJacobian(self)\n        if self._has_approx:\n            self._get_static_wrt_matches()\n            self._add_approximations(use_relevance=use_relevance)\n\n        return self._jacobian\n', 'C24.jacreset'),
    Mutant('jacreset-expl-early-return-wrong-cache', EXPL, '        if self._relevance_changed() and not isinstance(self._jacobian, _ColSparsityJac):\n            self._jacobian = None\n\n        if not self.matrix_free and self._jacobian is None:\n            self._jacobian = ExplicitDictionaryJacobian(self)\n            if self._has_approx:\n                self._get_static_wrt_matches()\n                self._add_approximations(use_relevance=use_relevance)\n\n        return self._jacobian\n', '        if self._relevance_changed():\n            if not isinstance(self._jacobian, _ColSparsityJac):\n                self._jac_wrapper = None\n\n        if self.matrix_free or self._jacobian is not None:\n            return self._jacobian\n\n        self._jacobian = ExplicitDictionaryJacobian(self)\n        if self._has_approx:\n            self._get_static_wrt_matches()\n            self._add_approximations(use_relevance=use_relevance)\n\n        return self._jacobian\n', 'C24.jacreset'),
    Twin('twin-jacreset-impl-flag', IMPL, '        if self._relevance_changed() and not isinstance(self._jacobian, _ColSparsityJac):\n            self._jac_wrapper = None\n', '        relevance_changed = self._relevance_changed()\n        if relevance_changed and not isinstance(self._jacobian, _ColSparsityJac):\n            self._jac_wrapper = None\n'),
    Mutant('jacreset-impl-flag-weakened', IMPL, '        if self._relevance_changed() and not isinstance(self._jacobian, _ColSparsityJac):\n            self._jac_wrapper = None\n', '        relevance_changed = self._relevance_changed() and self._has_approx\n        if relevance_changed and not isinstance(self._jacobian, _ColSparsityJac):\n            self._jac_wrapper = None\n', 'C24.jacreset'),
    Twin('twin-statecoupling-inverted', JACOBIAN, '                    if of in out_slices and (wrt in in_slices or wrt in out_slices):\n                        # the dataflow graph has no state -> state edges inside a system, so variable\n                        # relevance says nothing about partials wrt a state: never prune those.\n                        if relevance is not None and wrt not in out_slices and \\\n                                (not is_relevant(wrt) or not is_relevant(of)):\n                            irrelevant_subjacs.append((key, meta, dtype))\n                        else:\n                            relevant_subjacs.append((key, meta, dtype))\n', '                    if of not in out_slices or not (wrt in in_slices or wrt in out_slices):\n                        continue\n\n                    info = (key, meta, dtype)\n                    if relevance is None or wrt in out_slices or \\\n                            (is_relevant(wrt) and is_relevant(of)):\n                        relevant_subjacs.append(info)\n                    else:\n                        irrelevant_subjacs.append(info)\n'),
    Mutant('statecoupling-inverted-no-state-clause', JACOBIAN, '                    if of in out_slices and (wrt in in_slices or wrt in out_slices):\n                        # the dataflow graph has no state -> state edges inside a system, so variable\n                        # relevance says nothing about partials wrt a state: never prune those.\n                        if relevance is not None and wrt not in out_slices and \\\n                                (not is_relevant(wrt) or not is_relevant(of)):\n                            irrelevant_subjacs.append((key, meta, dtype))\n                        else:\n                            relevant_subjacs.append((key, meta, dtype))\n', '                    if of not in out_slices or not (wrt in in_slices or wrt in out_slices):\n                        continue\n\n                    info = (key, meta, dtype)\n                    if relevance is None or \\\n                            (is_relevant(wrt) and is_relevant(of)):\n                        relevant_subjacs.append(info)\n                    else:\n                        irrelevant_subjacs.append(info)\n', 'C24.statecoupling'),
    Mutant('seedcover-color-first-column', APPROX, "                seed_vars = tuple(rangemapper.inds2keys(cols))", "                seed_vars = (rangemapper[cols[0]],)", 'C24.seedcover'),
    Mutant('seedcover-color-slice', APPROX, "                seed_vars = tuple(rangemapper.inds2keys(cols))", "                seed_vars = tuple(rangemapper.inds2keys(cols[:1]))", 'C24.seedcover'),
    Twin('twin-seedcover-color-set', APPROX, "                seed_vars = tuple(rangemapper.inds2keys(cols))", "                keys = rangemapper.inds2keys(cols)\n                seed_vars = tuple(keys)"),
    # ---- third round findings: repaired shapes must be accepted
    Twin('twin-statecoupling-of-only-explicit', JACOBIAN, "                                (not is_relevant(wrt) or not is_relevant(of)):\n                            irrelevant_subjacs",
         "                                (not is_relevant(wrt) or\n                                 (self._is_explicitcomp and not is_relevant(of))):\n                            irrelevant_subjacs",
         also=[(JACOBIAN, "                                            (not is_relevant(wrt) or not is_relevant(of)):\n                                        continue",
                "                                            (not is_relevant(wrt) or\n                                             (self._is_explicitcomp and not is_relevant(of))):\n                                        continue")]),
    Mutant('schemes-prefix-shape-delete-empty', COMPONENT, "        # relevance changes.\n", "        # relevance changes.\n        to_remove = [name for name, scheme in self._approx_schemes.items() if not scheme._wrt_meta]\n        for name in to_remove:\n            del self._approx_schemes[name]\n", 'C24.schemes'),
    Mutant('schemes-pop-empty', COMPONENT, "        # relevance changes.\n", "        # relevance changes.\n        for name in [n for n, sch in self._approx_schemes.items() if not sch]:\n            self._approx_schemes.pop(name)\n", 'C24.schemes'),
    Twin('twin-schemes-local-copy', COMPONENT, "        methods = list(self._approx_schemes)\n", "        methods = sorted(self._approx_schemes)\n"),
    # ---- third robustness round shapes
    Twin('twin-off-active-local-alias-early-return', REL, "        if self._active or (not active and self._active is None):\n            save = self._active\n            self._active = active\n            try:\n                yield\n            finally:\n                self._active = save\n        else:  # self._active is None, so we can be activated but aren't currently active\n            yield\n", '        current = self._active\n        if not current and (active or current is not None):\n            yield\n            return\n\n        self._active = active\n        try:\n            yield\n        finally:\n            self._active = current\n'),
    Mutant('off-active-alias-activates-none', REL, "        if self._active or (not active and self._active is None):\n            save = self._active\n            self._active = active\n            try:\n                yield\n            finally:\n                self._active = save\n        else:  # self._active is None, so we can be activated but aren't currently active\n            yield\n", '        current = self._active\n        if not current and current is not None:\n            yield\n            return\n\n        self._active = active\n        try:\n            yield\n        finally:\n            self._active = current\n', 'C24.off'),
    Mutant('off-active-alias-noop-when-on', REL, "        if self._active or (not active and self._active is None):\n            save = self._active\n            self._active = active\n            try:\n                yield\n            finally:\n                self._active = save\n        else:  # self._active is None, so we can be activated but aren't currently active\n            yield\n", '        current = self._active\n        if (current and not active) or (not current and (active or current is not None)):\n            yield\n            return\n\n        self._active = active\n        try:\n            yield\n        finally:\n            self._active = current\n', 'C24.off'),
    Mutant('ctx-active-alias-late', REL, "        if self._active or (not active and self._active is None):\n            save = self._active\n            self._active = active\n            try:\n                yield\n            finally:\n                self._active = save\n        else:  # self._active is None, so we can be activated but aren't currently active\n            yield\n", '        current = self._active\n        if not current and (active or current is not None):\n            yield\n            return\n\n        self._active = active\n        current = self._active\n        try:\n            yield\n        finally:\n            self._active = current\n', 'C24.ctx'),
    Twin('twin-ctx-nl-tuple-snapshot-swapped-branches', REL, '        if not active or self._active is False or name not in self._nonlinear_sets:\n            yield\n        else:\n            save_active = self._active\n            save_relsarray = self._current_rel_sarray\n            self._active = True\n            self._current_rel_sarray = self._nonlinear_sets[name]\n\n            try:\n                yield\n            finally:\n                self._active = save_active\n                self._current_rel_sarray = save_relsarray\n', '        if active and self._active is not False and name in self._nonlinear_sets:\n            save_active, save_relsarray = self._active, self._current_rel_sarray\n            self._active = True\n            self._current_rel_sarray = self._nonlinear_sets[name]\n\n            try:\n                yield\n            finally:\n                self._active = save_active\n                self._current_rel_sarray = save_relsarray\n        else:\n            yield\n'),
    Mutant('ctx-nl-tuple-snapshot-crossed', REL, '        if not active or self._active is False or name not in self._nonlinear_sets:\n            yield\n        else:\n            save_active = self._active\n            save_relsarray = self._current_rel_sarray\n            self._active = True\n            self._current_rel_sarray = self._nonlinear_sets[name]\n\n            try:\n                yield\n            finally:\n                self._active = save_active\n                self._current_rel_sarray = save_relsarray\n', '        if active and self._active is not False and name in self._nonlinear_sets:\n            save_relsarray, save_active = self._active, self._current_rel_sarray\n            self._active = True\n            self._current_rel_sarray = self._nonlinear_sets[name]\n\n            try:\n                yield\n            finally:\n                self._active = save_active\n                self._current_rel_sarray = save_relsarray\n        else:\n            yield\n', 'C24.ctx'),
    Mutant('off-nl-positive-guard-drops-disabled-test', REL, '        if not active or self._active is False or name not in self._nonlinear_sets:\n            yield\n        else:\n            save_active = self._active\n            save_relsarray = self._current_rel_sarray\n            self._active = True\n            self._current_rel_sarray = self._nonlinear_sets[name]\n\n            try:\n                yield\n            finally:\n                self._active = save_active\n                self._current_rel_sarray = save_relsarray\n', '        if active and name in self._nonlinear_sets:\n            save_active, save_relsarray = self._active, self._current_rel_sarray\n            self._active = True\n            self._current_rel_sarray = self._nonlinear_sets[name]\n\n            try:\n                yield\n            finally:\n                self._active = save_active\n                self._current_rel_sarray = save_relsarray\n        else:\n            yield\n', 'C24.off'),
    Twin('twin-jacreset-changed-alias-early-return', SYSTEM, '        old_rel, active = self._old_relevance\n        if (old_rel is not self._relevance) or (active != self._relevance._active):\n            self._old_relevance = (self._relevance, self._relevance._active)\n            return True\n        return False\n', '        relevance = self._relevance\n        old_rel, old_active = self._old_relevance\n        if old_rel is relevance and old_active == relevance._active:\n            return False\n        snapshot = (relevance, relevance._active)\n        self._old_relevance = snapshot\n        return True\n'),
    Mutant('jacreset-changed-alias-ignores-active', SYSTEM, '        old_rel, active = self._old_relevance\n        if (old_rel is not self._relevance) or (active != self._relevance._active):\n            self._old_relevance = (self._relevance, self._relevance._active)\n            return True\n        return False\n', '        relevance = self._relevance\n        old_rel, old_active = self._old_relevance\n        if old_rel is relevance:\n            return False\n        snapshot = (relevance, relevance._active)\n        self._old_relevance = snapshot\n        return True\n', 'C24.jacreset'),
    Mutant('jacreset-changed-alias-or', SYSTEM, '        old_rel, active = self._old_relevance\n        if (old_rel is not self._relevance) or (active != self._relevance._active):\n            self._old_relevance = (self._relevance, self._relevance._active)\n            return True\n        return False\n', '        relevance = self._relevance\n        old_rel, old_active = self._old_relevance\n        if old_rel is relevance or old_active == relevance._active:\n            return False\n        snapshot = (relevance, relevance._active)\n        self._old_relevance = snapshot\n        return True\n', 'C24.jacreset'),
    # ---- fourth robustness round shapes
    Twin('twin-filter-temp-swapped-eq', REL, _FILTER_OLD, '        if not self._active:\n            if relevant:\n                yield from systems\n            return\n\n        for subsys in systems:\n            is_rel = self.is_relevant_system(subsys.pathname)\n            if is_rel == relevant:\n                yield subsys\n'),
    Mutant('filter-temp-inverted', REL, _FILTER_OLD, '        if not self._active:\n            if relevant:\n                yield from systems\n            return\n\n        for subsys in systems:\n            is_rel = self.is_relevant_system(subsys.pathname)\n            if is_rel != relevant:\n                yield subsys\n', 'C24.filter'),
    Mutant('filter-temp-by-name', REL, _FILTER_OLD, '        if not self._active:\n            if relevant:\n                yield from systems\n            return\n\n        for subsys in systems:\n            is_rel = self.is_relevant_system(subsys.name)\n            if is_rel == relevant:\n                yield subsys\n', 'C24.filter'),
    Mutant('filter-temp-ignores-flag', REL, _FILTER_OLD, '        if not self._active:\n            if relevant:\n                yield from systems\n            return\n\n        for subsys in systems:\n            is_rel = self.is_relevant_system(subsys.pathname)\n            if is_rel:\n                yield subsys\n', 'C24.filter'),
    Twin('twin-ctx-seeds-alias-tuple-unpack', REL, _SEEDS_OLD, "        if self._active is False:  # if already inactive from higher level, don't change anything\n            yield\n            return\n\n        current = self._seed_vars\n        saved = (current['fwd'], current['rev'], self._active)\n        self._active = True\n        new_fwd = current['fwd'] if fwd_seeds is None else fwd_seeds\n        new_rev = current['rev'] if rev_seeds is None else rev_seeds\n        self._set_seeds(new_fwd, new_rev)\n        try:\n            yield\n        finally:\n            old_fwd, old_rev, old_active = saved\n            self._set_seeds(old_fwd, old_rev)\n            self._active = old_active\n"),
    Mutant('ctx-seeds-tuple-unpack-swapped', REL, _SEEDS_OLD, "        if self._active is False:  # if already inactive from higher level, don't change anything\n            yield\n            return\n\n        current = self._seed_vars\n        saved = (current['fwd'], current['rev'], self._active)\n        self._active = True\n        new_fwd = current['fwd'] if fwd_seeds is None else fwd_seeds\n        new_rev = current['rev'] if rev_seeds is None else rev_seeds\n        self._set_seeds(new_fwd, new_rev)\n        try:\n            yield\n        finally:\n            old_rev, old_fwd, old_active = saved\n            self._set_seeds(old_fwd, old_rev)\n            self._active = old_active\n", 'C24.ctx'),
    Mutant('ctx-seeds-tuple-snapshot-late', REL, _SEEDS_OLD, "        if self._active is False:  # if already inactive from higher level, don't change anything\n            yield\n            return\n\n        current = self._seed_vars\n        self._active = True\n        saved = (current['fwd'], current['rev'], self._active)\n        new_fwd = current['fwd'] if fwd_seeds is None else fwd_seeds\n        new_rev = current['rev'] if rev_seeds is None else rev_seeds\n        self._set_seeds(new_fwd, new_rev)\n        try:\n            yield\n        finally:\n            old_fwd, old_rev, old_active = saved\n            self._set_seeds(old_fwd, old_rev)\n            self._active = old_active\n", 'C24.ctx'),
    Mutant('ctx-seeds-tuple-active-not-restored', REL, _SEEDS_OLD, "        if self._active is False:  # if already inactive from higher level, don't change anything\n            yield\n            return\n\n        current = self._seed_vars\n        saved = (current['fwd'], current['rev'], self._active)\n        self._active = True\n        new_fwd = current['fwd'] if fwd_seeds is None else fwd_seeds\n        new_rev = current['rev'] if rev_seeds is None else rev_seeds\n        self._set_seeds(new_fwd, new_rev)\n        try:\n            yield\n        finally:\n            old_fwd, old_rev, old_active = saved\n            self._set_seeds(old_fwd, old_rev)\n", 'C24.ctx'),
    Mutant('arrays-alias-default-crossed', REL, _SEEDS_OLD, "        if self._active is False:  # if already inactive from higher level, don't change anything\n            yield\n            return\n\n        current = self._seed_vars\n        saved = (current['fwd'], current['rev'], self._active)\n        self._active = True\n        new_fwd = current['fwd'] if fwd_seeds is None else fwd_seeds\n        new_rev = current['fwd'] if rev_seeds is None else rev_seeds\n        self._set_seeds(new_fwd, new_rev)\n        try:\n            yield\n        finally:\n            old_fwd, old_rev, old_active = saved\n            self._set_seeds(old_fwd, old_rev)\n            self._active = old_active\n", 'C24.arrays'),
    Twin('twin-gate-local-flag', GROUP, "            with relevance.active(self._linear_solver.use_relevance()):\n                subs = list(",
         "            prune = self._linear_solver.use_relevance()\n            with relevance.active(prune):\n                subs = list("),
)
