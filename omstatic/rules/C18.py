"""C18 -- a crash at any point after the recorder started leaves a consistent prefix of cases.

Trusted base: SQLite's atomic commit and Python's ``with connection`` (commit on normal exit, rollback
on exceptional exit).  Given those, the property reduces to structural clauses of
``recorders/sqlite_recorder.py`` (and one cross-check with ``sqlite_reader.py``) that are decided here
from the AST: one transaction per case (case row + global_iterations row), the row link through
``cursor.lastrowid``, no write outside a transaction, schema + metadata complete before the first case,
connection left in a transactional mode.

SQL is read from the *values* of the string literals passed to ``execute`` (a small tokenizer, no
regular expressions on source text).
"""
import ast
import copy

from .. import astx, cfg as cfgm
from ..core import AnalysisError
from ..engine import rule, describe, selftest, Mutant, Twin

REC = 'openmdao/recorders/sqlite_recorder.py'
RDR = 'openmdao/recorders/sqlite_reader.py'
RU = 'openmdao/utils/record_util.py'
CLS = 'SqliteRecorder'
KINDS = ('driver', 'problem', 'system', 'solver')
GLOBAL = 'global_iterations'
CONN_PATHS = ('self.connection', 'self.metadata_connection')
EXEC_NAMES = ('execute', 'executemany', 'executescript')
WRITE_VERBS = ('INSERT', 'REPLACE', 'UPDATE', 'DELETE', 'CREATE', 'DROP', 'ALTER')
TXN_VERBS = ('COMMIT', 'END', 'BEGIN', 'ROLLBACK', 'SAVEPOINT', 'RELEASE')
ENDERS = ('commit', 'rollback', 'close', 'executescript')

describe('C18',
         'Decides the mechanism that makes a killed recording a consistent prefix, given SQLite atomic '
         'commit: (txn) in each SqliteRecorder.record_iteration_{driver,problem,system,solver} the case-table '
         'INSERT and the global_iterations INSERT lie in one `with <connection>` transaction of the '
         'connection that owns the executing cursor, case row first on every path, no commit/rollback/'
         'executescript/close, no transaction-ending nested with, no other INSERT on that cursor and no '
         'normal way out of the with between them (also not through a swallowed exception), the rowid '
         'parameter is `lastrowid` of the very cursor that executed the case INSERT and the record_type '
         'literal names the case table; (who) every write statement in sqlite_recorder.py runs inside a '
         '`with` of its own connection (delete_recordings tabled), no executescript, no journal/synchronous '
         'PRAGMA; (init) startup creates the database exactly when it is not initialised and every '
         'record_iteration_* refuses to run on an uninitialised database; (meta) every metadata column the '
         'reader dereferences is filled by the initial INSERT or by the UPDATE that startup executes in a '
         'transaction on every recording path; (reader) every table the reader selects from is created in '
         '_initialize_database and nowhere else; (connect) sqlite3.connect of the recorder keeps implicit transactions and every sqlite3.connect '
         'of recorder, reader and any other module opening a recording permits hot-journal recovery '
         '(no URI mode=ro / immutable=1; computed URIs undecided); (writers) '
         'no other shipped module executes a writing SQL statement; (precheck) the validity test the reader '
         'runs on the raw file before connecting rejects only on existence, size below the 100-byte header '
         'or the constant 16-byte magic string, never on header fields/file sizes that are transiently '
         'inconsistent while a commit is being written. '
         'Does not decide: SQLite/OS durability, the window inside the first startup() (DDL autocommits per '
         'statement; the file is unreadable until the first metadata UPDATE commits), pairing of a driver '
         'case with its later driver_derivatives row.',
         ['SQLite commit is atomic and `with connection` commits on normal exit / rolls back on exception',
          'atoms of branch tests other than the initialisation flag, `self.connection`, `self._record_metadata` and '
          '`requester in self._started` are free (either value is feasible)',
          'the recorder started = SqliteRecorder.startup returned for the first requester',
          'record_iteration_* is only reached through CaseRecorder.record_iteration after startup'])


# --------------------------------------------------------------------------- SQL literal reading
class Hole:
    """A formatted value inside an f-string SQL text."""

    def __init__(self, node):
        self.node = node


def sql_parts(e):
    """List of str / Hole making up a SQL argument expression, or None when not literal."""
    if isinstance(e, ast.Constant) and isinstance(e.value, str):
        return [e.value]
    if isinstance(e, ast.BinOp) and isinstance(e.op, ast.Add):
        a, b = sql_parts(e.left), sql_parts(e.right)
        return None if a is None or b is None else a + b
    if isinstance(e, ast.JoinedStr):
        out = []
        for v in e.values:
            if isinstance(v, ast.Constant) and isinstance(v.value, str):
                out.append(v.value)
            elif isinstance(v, ast.FormattedValue):
                out.append(Hole(v.value))
            else:
                return None
        return out
    return None


def sql_tokens(parts):
    toks = []
    for p in parts:
        if isinstance(p, Hole):
            toks.append(p)
            continue
        for ch in '(),=;':
            p = p.replace(ch, f' {ch} ')
        toks.extend(p.split())
    return toks


def _up(t):
    return t.upper() if isinstance(t, str) else None


class Sql:
    """verb, table (str or Hole), cols (INSERT column list / UPDATE SET list / CREATE columns), nq."""

    def __init__(self, toks):
        self.toks = toks
        self.verb = _up(toks[0]) if toks else None
        self.table = None
        self.cols = []
        self.kind = None    # for CREATE: TABLE / INDEX
        self.nq = sum(1 for t in toks if t == '?')
        up = [_up(t) for t in toks]
        try:
            if self.verb in ('INSERT', 'REPLACE'):
                i = up.index('INTO')
                self.table = toks[i + 1]
                if toks[i + 2] == '(':
                    j = toks.index(')', i + 2)
                    self.cols = [t for t in toks[i + 3:j] if t != ',']
            elif self.verb == 'UPDATE':
                self.table = toks[1]
                i = up.index('SET')
                k = i + 1
                while k + 1 < len(toks) and toks[k + 1] == '=':
                    self.cols.append(toks[k])
                    k += 3
                    if k < len(toks) and toks[k] == ',':
                        k += 1
                    else:
                        break
            elif self.verb in ('DELETE', 'SELECT'):
                i = up.index('FROM')
                self.table = toks[i + 1]
            elif self.verb == 'CREATE':
                k = 1
                while up[k] in ('TEMP', 'TEMPORARY', 'UNIQUE'):
                    k += 1
                self.kind = up[k]
                k += 1
                if up[k:k + 3] == ['IF', 'NOT', 'EXISTS']:
                    k += 3
                if self.kind == 'TABLE':
                    self.table = toks[k]
                    depth = 0
                    first = False
                    for t in toks[k + 1:]:
                        if t == '(':
                            depth += 1
                            first = depth == 1
                        elif t == ')':
                            depth -= 1
                        elif t == ',' and depth == 1:
                            first = True
                        elif first and depth == 1:
                            self.cols.append(t)
                            first = False
                elif self.kind == 'INDEX':
                    i = up.index('ON')
                    self.table = toks[i + 1]
            elif self.verb == 'DROP':
                self.kind = up[1]
                self.table = toks[-1]
        except (ValueError, IndexError):
            self.table = None


def sql_of(a):
    """Sql object for a SQL-text expression, or None if it is not a literal."""
    if a is None:
        return None
    parts = sql_parts(a)
    if parts is None:
        return None
    toks = sql_tokens(parts)
    if not toks or not isinstance(toks[0], str):
        return None
    return Sql(toks)


def parse_sql(call):
    """Sql object for an execute-family call, or None if its first argument is not a literal."""
    return sql_of(astx.arg(call, 0, 'sql'))


def _const_strs(ctx, at, name):
    """String values a local name can hold at node *at*: single constant assignment, or the loop variable
    of `for name in (<str constants>)`.  None when it is anything else."""
    ds = ctx.rd.defs(at, name)
    if len(ds) != 1:
        return None
    d = next(iter(ds))
    if d.kind == 'stmt' and isinstance(d.ast, ast.Assign) and len(d.ast.targets) == 1 and \
            isinstance(d.ast.targets[0], ast.Name):
        v = astx.const_str(d.ast.value)
        return None if v is None else [v]
    if d.kind == 'iter' and isinstance(d.ast.target, ast.Name) and d.ast.target.id == name and \
            isinstance(d.ast.iter, (ast.Tuple, ast.List)) and d.ast.iter.elts and \
            all(astx.const_str(e) is not None for e in d.ast.iter.elts):
        return [e.value for e in d.ast.iter.elts]
    return None


def sql_variants(call, ctx, at, limit=32):
    """All SQL texts an execute call can run when its text is built from literals and local names that
    hold string constants (incl. a loop over a constant tuple).  None when not decidable."""
    a = astx.arg(call, 0, 'sql')
    if a is None:
        return None
    names = sorted({n.id for n in astx.walk(a) if isinstance(n, ast.Name)})
    if not names or len(names) > 2:
        return None
    choices = []
    for nm in names:
        vals = _const_strs(ctx, at, nm)
        if vals is None:
            return None
        choices.append(vals)
    combos = [()]
    for vals in choices:
        combos = [c + (v,) for c in combos for v in vals]
    if len(combos) > limit:
        return None
    out = []
    for combo in combos:
        s = sql_of(_subst(a, {nm: ast.Constant(value=v) for nm, v in zip(names, combo)}))
        if s is None:
            return None
        out.append(s)
    return out


# --------------------------------------------------------------------------- per-function context
def lex_inside(node, owner, field='body'):
    """True if AST *node* lies inside owner.<field> (via parent links; no scope crossing needed)."""
    cur = node
    while cur is not None:
        par = getattr(cur, '_parent', None)
        if par is owner:
            return cur in (getattr(owner, field, None) or [])
        cur = par
    return False


class Ctx:
    """CFG + reaching definitions of one function, with connection/cursor resolution."""

    def __init__(self, fn):
        self.fn = fn
        self.g = cfgm.build(fn)
        self.rd = cfgm.ReachingDefs(self.g)

    def node_of(self, expr):
        st = astx.stmt_of(expr)
        ns = self.g.nodes_of(st)
        if not ns:
            raise AnalysisError(f'{self.fn.ident}: statement of `{astx.src(expr)}` is unreachable')
        return ns

    def conn_of(self, expr, at, depth=0):
        """Access path of the connection an expression (connection, with-variable, cursor) belongs to."""
        if depth > 6 or expr is None:
            return None
        p = astx.path(expr)
        if p in CONN_PATHS:
            return p
        if isinstance(expr, ast.Call) and astx.callee_attr(expr) == 'cursor':
            return self.conn_of(astx.receiver(expr), at, depth + 1)
        if isinstance(expr, ast.Name):
            res = set()
            for d in self.rd.defs(at, expr.id):
                res.add(self._def_conn(d, expr.id, depth))
            if len(res) == 1:
                return res.pop()
        return None

    def _def_conn(self, d, name, depth):
        if d.kind == 'with':
            for it in d.ast.items:
                if isinstance(it.optional_vars, ast.Name) and it.optional_vars.id == name:
                    return self.conn_of(it.context_expr, d, depth + 1)
            return None
        if d.kind == 'stmt' and isinstance(d.ast, ast.Assign) and len(d.ast.targets) == 1 and \
                isinstance(d.ast.targets[0], ast.Name):
            return self.conn_of(d.ast.value, d, depth + 1)
        return None

    def cursor_id(self, expr, at):
        """Identity of a cursor receiver: (name, frozenset of defining nodes) when every reaching
        definition is `<something>.cursor()`; None otherwise (connection shortcut, unknown)."""
        if not isinstance(expr, ast.Name):
            return None
        ds = self.rd.defs(at, expr.id)
        if not ds:
            return None
        for d in ds:
            if not (d.kind == 'stmt' and isinstance(d.ast, ast.Assign) and isinstance(d.ast.value, ast.Call)
                    and astx.callee_attr(d.ast.value) == 'cursor'):
                return None
        return (expr.id, frozenset(ds))

    def txn_with(self, call, conn):
        """Innermost `with` statement on connection *conn* whose body contains *call*."""
        for a in astx.ancestors(call):
            if isinstance(a, (ast.FunctionDef, ast.AsyncFunctionDef, ast.Lambda, ast.ClassDef)):
                break
            if isinstance(a, ast.With) and lex_inside(call, a, 'body') and self.with_conn(a) == conn:
                return a
        return None

    def with_conn(self, w):
        """Connection path managed by a with statement (None if it manages no connection)."""
        ns = self.g.nodes_of(w)
        if not ns:
            return None
        for it in w.items:
            c = self.conn_of(it.context_expr, ns[0])
            if c is not None:
                return c
        return None


def exec_calls(fn):
    """execute-family calls of a function (not of nested scopes)."""
    out = []
    for st in astx.walk_stmts(fn.node.body):
        exprs = []
        if isinstance(st, (ast.If, ast.While)):
            exprs = [st.test]
        elif isinstance(st, (ast.For, ast.AsyncFor)):
            exprs = [st.iter]
        elif isinstance(st, (ast.With, ast.AsyncWith)):
            exprs = [it.context_expr for it in st.items]
        elif isinstance(st, (ast.Try, ast.FunctionDef, ast.AsyncFunctionDef, ast.ClassDef)):
            exprs = []
        elif isinstance(st, ast.Match):
            exprs = [st.subject]
        else:
            exprs = [st]
        for e in exprs:
            for c in astx.calls(e):
                if astx.callee_attr(c) in EXEC_NAMES and isinstance(c.func, ast.Attribute):
                    out.append(c)
    return out


def rec_funcs(repo):
    m = repo.module(REC)
    return [f for qn, f in m.funcs.items() if '<locals>' not in qn]


def created_tables(repo):
    """table -> [columns] from the CREATE TABLE statements of SqliteRecorder._initialize_database."""
    fn = repo.func(REC, f'{CLS}._initialize_database')
    tabs = {}
    for c in exec_calls(fn):
        s = parse_sql(c)
        if s is not None and s.verb == 'CREATE' and s.kind == 'TABLE' and isinstance(s.table, str):
            tabs[s.table] = s.cols
    if GLOBAL not in tabs:
        raise AnalysisError(f'{fn.ident}: CREATE TABLE {GLOBAL} not found')
    return tabs


def case_tables(tabs):
    """record_type -> case table, derived the way the reader derives it (table name up to '_')."""
    out = {}
    for t in tabs:
        if t == GLOBAL or t.endswith('_metadata') or t == 'metadata' or t == 'driver_derivatives':
            continue
        out[t.partition('_')[0]] = t
    return out


# --------------------------------------------------------------------------- C18.txn
def _params(ctx, call, at):
    """The parameter tuple expression of an execute call (resolving one local alias)."""
    p = astx.arg(call, 1, 'parameters')
    if isinstance(p, ast.Name):
        p = ctx.rd.value(at, p.id)
    return p if isinstance(p, (ast.Tuple, ast.List)) else None


# ---- extracted helper methods: a call `self._helper(cursor, ...)` is replaced by the statements the
# helper executes, expressed in the caller's terms (parameters substituted by the caller's arguments)
def _subst(e, env):
    """Copy of expression *e* with parameter names replaced by the caller's argument nodes."""
    if e is None or not env:
        return e
    if isinstance(e, ast.Name) and e.id in env:
        return env[e.id]
    if not any(isinstance(n, ast.Name) and n.id in env for n in ast.walk(e)):
        return e
    new = copy.copy(e)
    for field, val in ast.iter_fields(e):
        if isinstance(val, ast.AST):
            setattr(new, field, _subst(val, env))
        elif isinstance(val, list):
            setattr(new, field, [_subst(v, env) if isinstance(v, ast.AST) else v for v in val])
    return new


def _bind(hfn, call):
    """parameter name -> caller expression for a call `self.h(...)`, or None if it cannot be matched."""
    a = hfn.node.args
    if a.vararg or a.kwarg or a.posonlyargs or a.kwonlyargs:
        return None
    names = [x.arg for x in a.args]
    defaults = dict(zip(names[len(names) - len(a.defaults):], a.defaults))
    if not names or names[0] != 'self':
        return None
    names = names[1:]
    if any(isinstance(v, ast.Starred) for v in call.args) or any(k.arg is None for k in call.keywords):
        return None
    env = {}
    for i, v in enumerate(call.args):
        if i >= len(names):
            return None
        env[names[i]] = v
    for k in call.keywords:
        if k.arg not in names or k.arg in env:
            return None
        env[k.arg] = k.value
    for n in names:
        if n not in env:
            if n not in defaults:
                return None
            env[n] = defaults[n]
    return env


def _self_method(repo, fn, call):
    """The method of fn's own class that `self.<name>(...)` calls, or None."""
    f = call.func
    if not (isinstance(f, ast.Attribute) and isinstance(f.value, ast.Name) and f.value.id == 'self'):
        return None
    cls = fn.qualname.split('.')[0]
    return fn.module.funcs.get(f'{cls}.{f.attr}')


def _touches_db(fn):
    if exec_calls(fn):
        return True
    for c in astx.calls(fn.node):
        if isinstance(c.func, ast.Attribute) and c.func.attr in ('commit', 'rollback', 'executescript', 'cursor'):
            return True
    for st in astx.walk_stmts(fn.node.body):
        if isinstance(st, ast.With) and any(astx.path(it.context_expr) in CONN_PATHS for it in st.items):
            return True
    return False


def _inline_local(e, ctx, at, params, depth=0):
    """Replace helper-local names (single assignment) inside *e* by their defining expressions."""
    if depth > 3:
        return e
    env = {}
    for n in ast.walk(e):
        if isinstance(n, ast.Name) and n.id not in params and n.id != 'self' and n.id not in env:
            v = ctx.rd.value(at, n.id)
            if v is not None:
                d = next(iter(ctx.rd.defs(at, n.id)))
                env[n.id] = _inline_local(v, ctx, d, params, depth + 1)
    return _subst(e, env)


def helper_summary(repo, hfn):
    """None: the helper does not touch the database.  'opaque': it does, in a shape not recognised.
    Otherwise a list of (receiver, sql-expr, params-expr) in the helper's own terms, for a helper that
    executes its statements unconditionally on a cursor it receives as a parameter."""
    if not _touches_db(hfn):
        for c in astx.calls(hfn.node):
            sub = _self_method(repo, hfn, c)
            if sub is not None and sub is not hfn and _touches_db(sub):
                return 'opaque'
        return None
    calls = exec_calls(hfn)
    if not calls:
        return 'opaque'
    ctx = Ctx(hfn)
    g = ctx.g
    pnames = {x.arg for x in hfn.node.args.args} - {'self'}
    for n in g.nodes:
        if n.kind == 'except' or (n.kind == 'with' and ctx.with_conn(n.ast) is not None):
            return 'opaque'
    for c in astx.calls(hfn.node):
        if isinstance(c.func, ast.Attribute) and c.func.attr in ENDERS + ('cursor',):
            return 'opaque'
        sub = _self_method(repo, hfn, c)
        if sub is not None and _touches_db(sub):
            return 'opaque'
    out = []
    for c in calls:
        ns = ctx.node_of(c)
        if len(ns) != 1 or g.must_pass([g.entry], [g.exit], ns, labels=cfgm.noexc) is not None:
            return 'opaque'
        at = ns[0]
        r = astx.receiver(c)
        if not (isinstance(r, ast.Name) and r.id in pnames and ctx.rd.defs(at, r.id) == {g.entry}):
            return 'opaque'
        for nm in pnames:
            if ctx.rd.defs(at, nm) != {g.entry}:
                return 'opaque'
        sqlarg = astx.arg(c, 0, 'sql')
        par = astx.arg(c, 1, 'parameters')
        sqlarg = _inline_local(sqlarg, ctx, at, pnames) if sqlarg is not None else None
        par = _inline_local(par, ctx, at, pnames) if par is not None else None
        out.append((r, sqlarg, par))
    return out


class Ev:
    """One SQL statement executed at call node *anchor* of the analysed function."""

    def __init__(self, anchor, recv, sql, params, via=None):
        self.anchor, self.recv, self.sql, self.params, self.via = anchor, recv, sql, params, via


def collect_events(repo, fn, ctx):
    """(events in source order, problems) for a function; helper calls are expanded one level."""
    evs, problems = [], []
    direct = {id(c) for c in exec_calls(fn)}
    for st in astx.walk_stmts(fn.node.body):
        if isinstance(st, (ast.If, ast.While)):
            exprs = [st.test]
        elif isinstance(st, (ast.For, ast.AsyncFor)):
            exprs = [st.iter]
        elif isinstance(st, (ast.With, ast.AsyncWith)):
            exprs = [it.context_expr for it in st.items]
        elif isinstance(st, (ast.Try, ast.FunctionDef, ast.AsyncFunctionDef, ast.ClassDef)):
            exprs = []
        elif isinstance(st, ast.Match):
            exprs = [st.subject]
        else:
            exprs = [st]
        for e in exprs:
            for c in astx.calls(e):
                if id(c) in direct:
                    at = ctx.node_of(c)[0]
                    sq = parse_sql(c)
                    if sq is None:
                        vs = sql_variants(c, ctx, at)
                        if vs is not None and len(vs) == 1:
                            sq = vs[0]
                    evs.append(Ev(c, astx.receiver(c), sq, _params(ctx, c, at)))
                    continue
                hfn = _self_method(repo, fn, c)
                if hfn is None or hfn is fn:
                    continue
                summ = helper_summary(repo, hfn)
                if summ is None:
                    continue
                env = _bind(hfn, c) if summ != 'opaque' else None
                if env is None:
                    problems.append((c, f'helper {hfn.qualname} touches the database in a shape the checker '
                                     'cannot express at the call site'))
                    continue
                for r, sqlarg, par in summ:
                    par = _subst(par, env)
                    if isinstance(par, ast.Name):
                        par = ctx.rd.value(ctx.node_of(c)[0], par.id)
                    evs.append(Ev(c, _subst(r, env), sql_of(_subst(sqlarg, env)),
                                  par if isinstance(par, (ast.Tuple, ast.List)) else None, via=hfn.qualname))
    return evs, problems


@rule('C18.txn', floor=4)
def txn(repo, out):
    """Case-table INSERT and global_iterations INSERT form one transaction linked by cursor.lastrowid."""
    tabs = created_tables(repo)
    ctabs = case_tables(tabs)
    seen_tables = {}
    for kind in KINDS:
        fn = repo.func(REC, f'{CLS}.record_iteration_{kind}')
        _pair(repo, out, fn, fn, {}, ctabs, kind, seen_tables, 0)
    for t, ks in seen_tables.items():
        if len(ks) > 1:
            f0 = repo.func(REC, f'{CLS}.record_iteration_{ks[1]}')
            out.bad(f0, f0.node, f'{ks} all insert into {t}', key='shared-case-table')


def _whole_pair_helper(repo, fn, ctx):
    """(helper Func, env) when fn delegates the complete transaction to exactly one helper call."""
    found = []
    for c in astx.calls(fn.node):
        hfn = _self_method(repo, fn, c)
        if hfn is not None and hfn is not fn and helper_summary(repo, hfn) == 'opaque':
            found.append((hfn, c))
    if len(found) != 1:
        return None
    hfn, c = found[0]
    env = _bind(hfn, c)
    if env is None:
        return None
    # the helper must not rebind the parameters whose caller values are substituted
    for st in astx.walk_stmts(hfn.node.body):
        for t in astx.assigned_targets(st):
            if isinstance(t, ast.Name) and t.id in env:
                return None
    return hfn, env


def _pair(repo, out, rfn, fn, env, ctabs, kind, seen_tables, depth):
    """Decide the pair clauses for function *fn* (reported against *rfn*), parameters bound by *env*."""
    ctx = Ctx(fn)
    g = ctx.g
    evs, problems = collect_events(repo, fn, ctx)
    for e in evs:
        if env:
            e.recv = _subst(e.recv, env) if not isinstance(e.recv, ast.Name) else e.recv
            if e.via is None:
                e.sql = sql_of(_subst(astx.arg(e.anchor, 0, 'sql'), env))
            e.params = _subst(e.params, env)
    pairish = [e for e in evs if e.sql is not None and e.sql.verb in ('INSERT', 'REPLACE') and
               (e.sql.table == GLOBAL or e.sql.table in ctabs.values())]
    if not pairish and problems and depth == 0:
        hp = _whole_pair_helper(repo, fn, ctx)
        if hp is not None:
            _pair(repo, out, rfn, hp[0], hp[1], ctabs, kind, seen_tables, depth + 1)
            return
    if problems:
        for node, why in problems:
            out.unsure(rfn, node, why)
        return
    case_ins, glob_ins = [], []
    undecided = False
    for e in evs:
        s = e.sql
        if s is None or s.table is None or not isinstance(s.table, str):
            out.unsure(rfn, e.anchor, 'SQL text of this statement is not a literal the checker can read')
            undecided = True
        elif s.verb in ('INSERT', 'REPLACE') and s.table in ctabs.values():
            case_ins.append(e)
        elif s.verb in ('INSERT', 'REPLACE') and s.table == GLOBAL:
            glob_ins.append(e)
    if undecided:
        return
    if len(case_ins) == 1 and not glob_ins:
        out.bad(rfn, case_ins[0].anchor, f'case row is inserted into {case_ins[0].sql.table} but no row is '
                f'inserted into {GLOBAL}: the case is invisible to / inconsistent for the reader',
                key='pair-missing-global')
        return
    if len(glob_ins) == 1 and not case_ins:
        out.bad(rfn, glob_ins[0].anchor, f'{GLOBAL} row is inserted but no case-table row', key='pair-missing-case')
        return
    if len(case_ins) != 1 or len(glob_ins) != 1:
        out.unsure(rfn, fn.node, f'expected one case INSERT and one {GLOBAL} INSERT, found '
                   f'{len(case_ins)} and {len(glob_ins)}')
        return
    ce, ge = case_ins[0], glob_ins[0]
    cc, gc, cs, gs = ce.anchor, ge.anchor, ce.sql, ge.sql
    cn, gn = ctx.node_of(cc), ctx.node_of(gc)
    if len(cn) != 1 or len(gn) != 1 or cn[0] is gn[0]:
        out.unsure(rfn, cc, 'inserts share a statement or are duplicated by a finally block; shape not recognised')
        return
    cn, gn = cn[0], gn[0]
    seen_tables.setdefault(cs.table, []).append(kind)

    # A. one transaction of the right connection
    c_conn = ctx.conn_of(ce.recv, cn)
    g_conn = ctx.conn_of(ge.recv, gn)
    if c_conn is None or g_conn is None:
        out.unsure(rfn, cc if c_conn is None else gc, 'cannot resolve the connection of this cursor')
        return
    if c_conn != g_conn:
        out.bad(rfn, gc, f'the two inserts go through different connections ({c_conn} / {g_conn}): '
                'they can never be one transaction', key='pair-one-transaction')
        return
    w = ctx.txn_with(cc, c_conn)
    if w is None or not lex_inside(gc, w, 'body'):
        which = cc if w is None else gc
        has_commit = any(astx.callee_attr(c) == 'commit' for c in astx.calls(fn.node))
        if has_commit:
            out.unsure(rfn, which, 'inserts are not inside one `with <connection>`; explicit commit() '
                       'protocol not recognised')
        else:
            out.bad(rfn, which, f'this INSERT is not inside the `with {c_conn}` transaction of the other '
                    'insert of the pair: a kill between the two commits leaves a case row without its '
                    f'{GLOBAL} row (or vice versa)', key='pair-one-transaction')
        return

    # B. order: case row first on every path
    wit = g.dominated_by(gn, [cn])
    if wit is not None:
        out.bad(rfn, gc, f'{GLOBAL} row can be written without the case row having been inserted first '
                f'(lastrowid is then stale): {g.fmt_path(wit)}', key='pair-order')
        return

    # C. walk the region between the two inserts
    evmap = {}
    for e in evs:
        evmap.setdefault(id(e.anchor), []).append(e)
    verdict = _between(ctx, w, cn, gn, ce, ge, evmap)
    if verdict is not None:
        kind_, node, why, key = verdict
        (out.bad if kind_ == 'bad' else out.unsure)(rfn, node, why, **({'key': key} if kind_ == 'bad' else {}))
        return

    # D. the link: rowid parameter is lastrowid of the cursor that executed the case insert
    params = ge.params
    if params is None or 'rowid' not in gs.cols or 'record_type' not in gs.cols or \
            len(params.elts) != len(gs.cols):
        out.unsure(rfn, gc, f'parameters/columns of the {GLOBAL} insert not recognised')
        return
    cur_case = ctx.cursor_id(ce.recv, cn)
    rowid = params.elts[gs.cols.index('rowid')]
    at = gn
    hops = 0
    while isinstance(rowid, ast.Name) and hops < 3:
        ds = ctx.rd.defs(at, rowid.id)
        v = ctx.rd.value(at, rowid.id)
        if v is None or len(ds) != 1:
            break
        d = next(iter(ds))
        if g.dominated_by(d, [cn]) is not None:
            out.bad(rfn, d.ast, f'`{rowid.id}` (used as rowid of the {GLOBAL} row) is computed before the '
                    'case INSERT ran', key='rowid-link')
            return
        rowid, at = v, d
        hops += 1
    if not (isinstance(rowid, ast.Attribute) and rowid.attr == 'lastrowid'):
        out.bad(rfn, gc, f'rowid of the {GLOBAL} row is `{astx.src(rowid)}`, not `lastrowid` of the cursor '
                f'that inserted the case row: the row points at another (or no) case of {cs.table}',
                key='rowid-link')
        return
    cur_link = ctx.cursor_id(rowid.value, at)
    if cur_case is None or cur_link is None or cur_case != cur_link:
        out.bad(rfn, gc, f'`{astx.src(rowid)}` is not read from the cursor object that executed the case '
                f'INSERT (`{astx.src(ce.recv)}.execute`): lastrowid is unrelated to the new '
                'case row', key='rowid-link')
        return

    # E. record_type literal names the table the case row went to
    rt = params.elts[gs.cols.index('record_type')]
    rts = astx.const_str(rt)
    if rts is None:
        out.unsure(rfn, gc, 'record_type parameter is not a string literal')
        return
    if ctabs.get(rts) != cs.table:
        out.bad(rfn, gc, f"record_type {rts!r} makes the reader look up rowid in {ctabs.get(rts)!r} but the "
                f'case row was inserted into {cs.table}', key='record-type-table')
        return
    via = ''.join(f' (via {x})' for x in sorted({e.via for e in (ce, ge) if e.via} |
                                               ({fn.qualname} if fn is not rfn else set())))
    out.ok(rfn, w, f'{cs.table} + {GLOBAL}({rts!r}, {astx.src(rowid)}) in one `with {c_conn}`; no way out '
           f'of the transaction between them{via}')


def _between(ctx, w, cn, gn, ce, ge, evmap):
    """Explore everything that can happen after the case insert and before the global insert."""
    g = ctx.g
    cc, gc = ce.anchor, ge.anchor
    cur_case = ctx.cursor_id(ce.recv, cn)

    def inside(n):
        if n.kind in ('entry', 'exit', 'raise'):
            return False
        return lex_inside(n.ast, w, 'body')

    # 1. the case insert fails but execution continues to the global insert
    seen = set()
    todo = [m for m, lab in g.succ[cn] if lab == 'exc' and inside(m)]
    while todo:
        n = todo.pop()
        if n in seen:
            continue
        seen.add(n)
        if n is gn:
            return ('bad', gc, f'the {GLOBAL} row is still written when the case INSERT raised and the '
                    'exception is swallowed inside the transaction', 'pair-swallowed-error')
        for m, lab in g.succ[n]:
            if inside(m):
                todo.append(m)

    # 2. normal continuation after the case insert
    seen = set()
    todo = [(m, lab) for m, lab in g.succ[cn] if lab != 'exc']
    while todo:
        n, lab = todo.pop()
        if not inside(n):
            if lab == 'exc':
                continue      # exception leaves the with: rollback of the whole pair
            how = 'returns' if n is g.exit else 'leaves the with block normally'
            return ('bad', cc, f'after the case INSERT the function {how} without inserting the '
                    f'{GLOBAL} row; the with-exit commits the case row alone', 'pair-split-path')
        if n in seen:
            continue
        seen.add(n)
        if n is gn:
            # only its failure continuation matters: swallowed failure commits the case row alone
            for m, l2 in g.succ[n]:
                if l2 == 'exc':
                    todo.append((m, l2))
            continue
        # statements between the inserts
        if n.kind == 'with':
            wc = ctx.with_conn(n.ast)
            if wc is not None and not lex_inside(gc, n.ast, 'body'):
                return ('bad', n.ast, f'nested `with {wc}` between the two inserts commits the case row '
                        f'before the {GLOBAL} row exists', 'commit-between')
        for c in n.calls():
            nm = astx.callee_attr(c)
            if nm in ENDERS and isinstance(c.func, ast.Attribute):
                return ('bad', c, f'`{astx.src(c)}` between the two inserts ends the transaction: the case '
                        f'row is committed (or discarded) without its {GLOBAL} row', 'commit-between')
            for e in evmap.get(id(c), []):
                s = e.sql
                if s is None:
                    return ('unsure', c, 'non-literal SQL executed between the two inserts', None)
                if s.verb in TXN_VERBS:
                    return ('bad', c, f'`{s.verb}` executed between the two inserts ends the transaction',
                            'commit-between')
                if s.verb in ('INSERT', 'REPLACE'):
                    if cur_case is not None and ctx.cursor_id(e.recv, n) == cur_case:
                        return ('bad', c, 'another INSERT on the same cursor between the two inserts '
                                f'overwrites lastrowid: the {GLOBAL} row points at the wrong row',
                                'rowid-link')
                elif s.verb not in ('SELECT', 'UPDATE', 'DELETE'):
                    return ('unsure', c, f'{s.verb} statement between the two inserts', None)
        # cursor rebinding between the inserts is caught by the identity comparison in step D
        for m, l2 in g.succ[n]:
            todo.append((m, l2))
    return None


# --------------------------------------------------------------------------- C18.who
WHO_TABLED = {
    (f'{CLS}.delete_recordings', 'DELETE'):
        'explicit user request to empty the tables; runs in the implicit transaction that the next '
        'case commit closes, a kill before that rolls the deletion back as a whole',
}
BAD_PRAGMAS = ('JOURNAL_MODE', 'SYNCHRONOUS', 'LOCKING_MODE', 'WRITABLE_SCHEMA')


def _param_sites(repo, fn, ctx, c, at):
    """For an execute on an (unmodified) parameter of a private method: the call sites of that method in
    sqlite_recorder.py as (caller Func, call, connection path or None, enclosing txn-with or None)."""
    r = astx.receiver(c)
    if not (isinstance(r, ast.Name) and ctx.rd.defs(at, r.id) == {ctx.g.entry}):
        return None
    if '.' not in fn.qualname or not fn.name.startswith('_') or fn.name.startswith('__'):
        return None
    sites = []
    for f2 in rec_funcs(repo):
        if f2 is fn:
            continue
        ctx2 = None
        for c2 in astx.calls(f2.node):
            if _self_method(repo, f2, c2) is not fn:
                continue
            env = _bind(fn, c2)
            if env is None or r.id not in env:
                return None
            ctx2 = ctx2 or Ctx(f2)
            cn2 = ctx2.conn_of(env[r.id], ctx2.node_of(c2)[0])
            sites.append((f2, c2, cn2, ctx2.txn_with(c2, cn2) if cn2 is not None else None))
    # the method must not escape as a value (bound-method reference) anywhere in the module
    for f2 in rec_funcs(repo):
        for n in astx.walk(f2.node):
            if isinstance(n, ast.Attribute) and n.attr == fn.name and not (
                    isinstance(getattr(n, '_parent', None), ast.Call) and n._parent.func is n):
                return None
    return sites or None


def _sql_sites(repo, fn, c):
    """For an execute whose SQL text comes from parameters of a private method: [(caller, call, Sql)]."""
    arg0 = astx.arg(c, 0, 'sql')
    if arg0 is None or '.' not in fn.qualname or not fn.name.startswith('_') or fn.name.startswith('__'):
        return None
    pnames = {x.arg for x in fn.node.args.args} - {'self'}
    if not any(isinstance(n, ast.Name) and n.id in pnames for n in ast.walk(arg0)):
        return None
    for st in astx.walk_stmts(fn.node.body):
        for t in astx.assigned_targets(st):
            if isinstance(t, ast.Name) and t.id in pnames:
                return None
    sites = []
    for f2 in rec_funcs(repo):
        for c2 in astx.calls(f2.node):
            if f2 is fn or _self_method(repo, f2, c2) is not fn:
                continue
            env = _bind(fn, c2)
            sql = sql_of(_subst(arg0, env)) if env is not None else None
            if sql is None:
                return None
            sites.append((f2, c2, sql))
    return sites or None


@rule('C18.who', floor=37)
def who(repo, out):
    """Every write statement of sqlite_recorder.py runs inside a `with` of its own connection."""
    for fn in rec_funcs(repo):
        calls = exec_calls(fn)
        if not calls:
            continue
        ctx = Ctx(fn)
        for c in calls:
            if astx.callee_attr(c) == 'executescript':
                out.bad(fn, c, 'executescript() commits any pending transaction before running and runs its '
                        'statements in autocommit mode: per-case atomicity is lost', key='executescript')
                continue
            s = parse_sql(c)
            if s is None or s.verb is None:
                variants = sql_variants(c, ctx, ctx.node_of(c)[0])
                if variants is not None:
                    for s2 in variants:       # e.g. a loop over a constant tuple of table names
                        _who_one(repo, out, fn, ctx, c, s2, fn, c)
                    continue
                sites = _sql_sites(repo, fn, c)
                if sites is None:
                    out.unsure(fn, c, 'SQL text is not a literal')
                    continue
                for f2, c2, s2 in sites:      # the statement as executed for each caller's SQL text
                    _who_one(repo, out, fn, ctx, c, s2, f2, c2)
                continue
            _who_one(repo, out, fn, ctx, c, s, fn, c)


def _who_one(repo, out, fn, ctx, c, s, wfn, wnode):
    """Classify one executed statement (SQL *s*, execute call *c* in *fn*), reported at (wfn, wnode)."""
    tname = s.table if isinstance(s.table, str) else '?'
    if s.verb is None:
        out.unsure(wfn, wnode, 'SQL text is not a literal')
    elif s.verb == 'SELECT':
        out.ok(wfn, wnode, 'read only')
    elif s.verb == 'PRAGMA':
        what = _up(s.toks[1]) if len(s.toks) > 1 else ''
        if what in BAD_PRAGMAS:
            out.bad(wfn, wnode, f'PRAGMA {s.toks[1]} changes the journalling the atomic-commit guarantee '
                    'rests on', key='pragma')
        else:
            out.unsure(wfn, wnode, 'PRAGMA not in the analysed vocabulary')
    elif s.verb in TXN_VERBS:
        out.unsure(wfn, wnode, 'explicit transaction control statement: protocol not recognised')
    elif s.verb not in WRITE_VERBS:
        out.unsure(wfn, wnode, f'unknown SQL verb {s.verb}')
    else:
        key = f'write-outside-transaction-{s.verb.lower()}-{tname if tname != "?" else "x"}'
        at = ctx.node_of(c)[0]
        conn = ctx.conn_of(astx.receiver(c), at)
        if conn is None:
            sites = _param_sites(repo, fn, ctx, c, at)
            if sites is None:
                out.unsure(wfn, wnode, 'cannot resolve the connection this statement runs on')
                return
            loose = [(f2, c2, cn2) for f2, c2, cn2, w2 in sites if w2 is None and cn2 is not None]
            unres = [(f2, c2) for f2, c2, cn2, w2 in sites if cn2 is None]
            if unres:
                out.unsure(unres[0][0], unres[0][1], f'cannot resolve the connection handed to {fn.qualname}')
            elif loose:
                f2, c2, cn2 = loose[0]
                out.bad(f2, c2, f'{fn.qualname} executes {s.verb} on the cursor/connection it is given, and '
                        f'this call hands it one of {cn2} outside any `with {cn2}` transaction', key=key)
            else:
                for f2, c2, cn2, w2 in sites:     # one obligation per site where the statement executes
                    out.ok(f2, c2, f'{s.verb} {tname} (executed by {fn.qualname} on the cursor passed here) '
                           f'inside `with {cn2}`')
            return
        w = ctx.txn_with(c, conn)
        if w is not None:
            out.ok(wfn, wnode, f'{s.verb} {tname} inside `with {conn}`' +
                   (f' of {fn.qualname}' if wfn is not fn else ''))
            return
        why = WHO_TABLED.get((fn.qualname, s.verb))
        if why is not None:
            out.ok(wfn, wnode, 'tabled: ' + why)
            return
        other = [a for a in astx.ancestors(c) if isinstance(a, ast.With) and ctx.with_conn(a)]
        extra = ''
        if other:
            extra = f' (the enclosing `with {ctx.with_conn(other[0])}` manages a different connection)'
        out.bad(wfn, wnode, f'{s.verb} on {conn} outside any `with {conn}` transaction{extra}: the row stays in '
                'an open implicit transaction of unknown extent, so what a kill preserves is no longer '
                'one case at a time', key=key)


# --------------------------------------------------------------------------- C18.init
def _is_started_test(test):
    return isinstance(test, ast.Compare) and len(test.ops) == 1 and isinstance(test.ops[0], (ast.In, ast.NotIn)) \
        and astx.path(test.comparators[0]) == 'self._started'


def _tv(test, initialized, started, truthy):
    """Three-valued value of a branch test under the assumptions (None = free/unknown atom)."""
    if astx.path(test) == 'self._database_initialized':
        return initialized
    if isinstance(test, ast.UnaryOp) and isinstance(test.op, ast.Not):
        v = _tv(test.operand, initialized, started, truthy)
        return None if v is None else not v
    if isinstance(test, ast.BoolOp):
        vals = [_tv(v, initialized, started, truthy) for v in test.values]
        if isinstance(test.op, ast.And):
            if any(v is False for v in vals):
                return False
            return True if all(v is True for v in vals) else None
        if any(v is True for v in vals):
            return True
        return False if all(v is False for v in vals) else None
    if started is not None and _is_started_test(test):
        return started if isinstance(test.ops[0], ast.In) else not started
    if astx.path(test) in truthy:
        return True
    if isinstance(test, ast.Compare) and len(test.ops) == 1 and isinstance(test.ops[0], (ast.Is, ast.IsNot)) and \
            astx.path(test.left) in truthy and isinstance(test.comparators[0], ast.Constant) and \
            test.comparators[0].value is None:
        return isinstance(test.ops[0], ast.IsNot)
    if astx.mentions(test, '_database_initialized'):
        raise AnalysisError(f'unrecognised test on _database_initialized: {astx.src(test)}')
    return None


def _walk_assuming(g, initialized, started=None, truthy=(), avoid=()):
    """Nodes reachable from entry on normal edges when the flag has the given value.

    started: value assumed for `requester in self._started`; truthy: access paths assumed true; every
    other atom of a branch test is free.  Returns (reached set, parent map).
    """
    seen = {g.entry}
    par = {}
    todo = [g.entry]
    avoid = set(avoid)
    while todo:
        n = todo.pop()
        for m, lab in g.succ[n]:
            if lab == 'exc':
                continue
            if n.kind == 'test' and lab in ('true', 'false') and isinstance(n.ast, (ast.If, ast.While)):
                val = _tv(n.ast.test, initialized, started, truthy)
                if val is not None and (lab == 'true') != val:
                    continue
            if m in seen or m in avoid:
                continue
            seen.add(m)
            par[m] = n
            todo.append(m)
    return seen, par


def _trace(g, par, n):
    p = []
    while n in par:
        p.append(n)
        n = par[n]
    return g.fmt_path(p[::-1])


@rule('C18.init', floor=5)
def init(repo, out):
    """startup creates the database iff it is not initialised; record_iteration_* refuse otherwise."""
    fn = repo.func(REC, f'{CLS}.startup')
    g = cfgm.build(fn)
    inits = g.calling('_initialize_database', recv='self')
    reached, par = _walk_assuming(g, initialized=False, started=False, avoid=inits)
    if g.exit in reached:
        out.bad(fn, fn.node, 'startup can complete for a new requester without calling _initialize_database '
                'although the database is not initialised: ' + _trace(g, par, g.exit), key='startup-no-init')
    else:
        reached, par = _walk_assuming(g, initialized=True, started=False)
        again = [n for n in inits if n in reached]
        if again:
            out.bad(fn, again[0].ast, '_initialize_database (which removes the file) is reached although the '
                    'database is already initialised: cases recorded so far are deleted when a further '
                    'requester starts: ' + _trace(g, par, again[0]), key='startup-reinit')
        else:
            out.ok(fn, inits[0].ast, 'database created exactly when not yet initialised')
    for kind in KINDS:
        f = repo.func(REC, f'{CLS}.record_iteration_{kind}')
        gg = cfgm.build(f)
        reached, par = _walk_assuming(gg, initialized=False)
        execs = [n for n in gg.nodes if n.kind not in ('entry', 'exit', 'raise', 'join') and
                 any(astx.callee_attr(c) in EXEC_NAMES for c in n.calls())]
        hit = [n for n in execs if n in reached]
        if (hit or gg.exit in reached) and repo.try_func(REC, f'{CLS}.record_iteration') is not None and \
                not astx.mentions(f.node, '_database_initialized'):
            out.unsure(f, f.node, f'{CLS} overrides record_iteration; the initialisation guard may live there')
        elif hit:
            out.bad(f, hit[0].ast, 'a statement is executed although the database is not initialised: ' +
                    _trace(gg, par, hit[0]), key='uninitialised-write')
        elif gg.exit in reached:
            out.bad(f, f.node, 'returns normally on an uninitialised database (the case is dropped silently '
                    'instead of raising): ' + _trace(gg, par, gg.exit), key='uninitialised-silent')
        else:
            out.ok(f, f.node, 'every path with `_database_initialized` false raises')


# --------------------------------------------------------------------------- C18.meta
def _reader_meta_columns(repo):
    fn = repo.func(RDR, 'SqliteCaseReader._collect_metadata')
    ctx = Ctx(fn)
    sel = [c for c in exec_calls(fn) if (parse_sql(c) or Sql([])).table == 'metadata']
    if not sel:
        raise AnalysisError(f'{fn.ident}: SELECT ... FROM metadata not found')
    cols = {}
    for n in astx.walk(fn.node):
        if isinstance(n, ast.Subscript) and isinstance(n.value, ast.Name) and isinstance(n.ctx, ast.Load):
            k = astx.const_str(n.slice)
            if k is None:
                continue
            at = ctx.node_of(n)[0]
            v = ctx.rd.value(at, n.value.id)
            if isinstance(v, ast.Call) and astx.callee_attr(v) == 'fetchone':
                cols.setdefault(k, n)
    return fn, cols


@rule('C18.meta', floor=8)
def meta(repo, out):
    """Every metadata column the reader dereferences is filled before the first case can be recorded."""
    rfn, need = _reader_meta_columns(repo)
    tabs = created_tables(repo)
    # -- who fills which column (clauses below are decided independently of each other)
    ifn = repo.func(REC, f'{CLS}._initialize_database')
    ictx = Ctx(ifn)
    nonnull = set()
    maybe = set()      # columns whose filling could not be read
    for c in exec_calls(ifn):
        s = parse_sql(c)
        if s is not None and s.verb == 'INSERT' and s.table == 'metadata':
            p = _params(ictx, c, ictx.node_of(c)[0])
            if p is None or len(p.elts) != len(s.cols):
                out.unsure(ifn, c, 'parameters of the metadata INSERT not recognised')
                maybe |= set(s.cols)
                continue
            for col, e in zip(s.cols, p.elts):
                if not (isinstance(e, ast.Constant) and e.value is None):
                    nonnull.add(col)
    updates = []       # every UPDATE metadata of the recorder, wherever it lives
    for f in rec_funcs(repo):
        for c in exec_calls(f):
            s = parse_sql(c)
            if s is not None and s.verb == 'UPDATE' and s.table == 'metadata':
                updates.append((f, c, s))
    updated = set()
    for f, c, s in updates:
        updated |= set(s.cols)

    # -- clause 1: the UPDATE is executed, committed, by startup on every recording path
    sfn = repo.func(REC, f'{CLS}.startup')
    here = [(c, s) for f, c, s in updates if f.qualname == sfn.qualname]
    if not here:
        where = sorted({f.qualname for f, c, s in updates})
        out.bad(sfn, sfn.node, 'startup does not write the metadata row' +
                (f' (it is written in {where})' if where else '') +
                ': a process killed before that write leaves NULL blobs that CaseReader cannot open',
                key='metadata-not-at-startup')
    elif len(here) != 1:
        out.unsure(sfn, here[1][0], 'several UPDATE metadata statements in startup')
    else:
        _meta_placement(sfn, here[0][0], here[0][1], out)

    # -- clause 2..n: one per column the reader dereferences
    for col, node in sorted(need.items()):
        if col not in tabs.get('metadata', []):
            out.bad(rfn, node, f"reader dereferences metadata column '{col}' which CREATE TABLE metadata does "
                    'not define', key=f'metadata-column-{col}')
        elif col in nonnull or col in updated:
            src = 'initial INSERT' if col in nonnull else 'metadata UPDATE'
            out.ok(rfn, node, f"'{col}' filled by the {src}")
        elif col in maybe:
            out.unsure(rfn, node, f"cannot read whether the initial INSERT fills '{col}'")
        else:
            out.bad(rfn, node, f"reader dereferences metadata column '{col}' which neither the initial INSERT "
                    'nor the metadata UPDATE fills: a file of a run killed right after startup cannot be opened',
                    key=f'metadata-column-{col}')


def _meta_placement(sfn, uc, us, out):
    sctx = Ctx(sfn)
    g = sctx.g
    un = sctx.node_of(uc)
    conn = sctx.conn_of(astx.receiver(uc), un[0])
    if conn is None:
        out.unsure(sfn, uc, 'cannot resolve the connection of the metadata UPDATE')
        return
    if sctx.txn_with(uc, conn) is None:
        out.bad(sfn, uc, f'metadata UPDATE is not inside `with {conn}`: it is not committed when startup '
                'returns', key='metadata-update-uncommitted')
        return
    p = _params(sctx, uc, un[0])
    if p is None or len(p.elts) != us.nq or len(us.cols) != us.nq:
        out.unsure(sfn, uc, 'SET list / parameters of the metadata UPDATE not recognised')
        return
    reached, par = _walk_assuming(g, initialized=True, started=False,
                                  truthy=('self.connection', 'self._record_metadata'), avoid=un)
    if g.exit in reached:
        out.bad(sfn, uc, 'startup of a recording process can return without executing the metadata UPDATE: ' +
                _trace(g, par, g.exit), key='metadata-update-skipped')
        return
    out.ok(sfn, uc, f'UPDATE metadata SET {", ".join(us.cols)} in `with {conn}` on every recording path')


# --------------------------------------------------------------------------- C18.reader
def _table_name_args(repo):
    """Constant table names handed to CaseTable.__init__ by its subclasses: {name: (Func, call)}."""
    m = repo.module(RDR)
    base = repo.func(RDR, 'CaseTable.__init__')
    params = [a.arg for a in base.node.args.args]
    if 'table' not in params:
        raise AnalysisError('CaseTable.__init__ has no `table` parameter')
    pos = params.index('table') - 1
    # the attribute really is the parameter
    okattr = any(isinstance(st, ast.Assign) and astx.path(st.targets[0]) == 'self._table_name' and
                 astx.path(st.value) == 'table' for st in astx.walk_stmts(base.node.body))
    if not okattr:
        raise AnalysisError('CaseTable.__init__ does not store `table` in self._table_name')
    out = []
    for qn, c in m.classes.items():
        if not any(astx.path(b) == 'CaseTable' for b in c.bases):
            continue
        f = m.funcs.get(f'{qn}.__init__')
        if f is None:
            raise AnalysisError(f'{qn} has no __init__')
        for call in astx.calls(f.node):
            if astx.callee_attr(call) == '__init__' and isinstance(astx.receiver(call), ast.Call) and \
                    astx.call_name(astx.receiver(call)) == 'super':
                out.append((f, call, astx.arg(call, pos, 'table')))
    return out


@rule('C18.reader', floor=18)
def reader(repo, out):
    """Every table the reader selects from is created up front by _initialize_database (and only there)."""
    tabs = created_tables(repo)
    ifn_qn = f'{CLS}._initialize_database'
    for fn in rec_funcs(repo):
        for c in exec_calls(fn):
            s = parse_sql(c)
            if s is not None and s.verb == 'CREATE' and s.kind == 'TABLE' and fn.qualname != ifn_qn:
                out.bad(fn, c, f'table {s.table} is created lazily outside _initialize_database: files of runs '
                        'killed (or finished) before this statement lack a table', key='lazy-create-table')
    dyn = set()
    for f, call, a in _table_name_args(repo):
        t = astx.const_str(a)
        if t is None:
            out.unsure(f, call, 'table name passed to CaseTable.__init__ is not a literal')
        elif t not in tabs:
            out.bad(f, call, f"case table '{t}' is not created by _initialize_database", key=f'reader-table-{t}')
        else:
            dyn.add(t)
            out.ok(f, call, f"'{t}' created by _initialize_database")
    m = repo.module(RDR)
    tclasses = {'CaseTable'} | {qn for qn, c in m.classes.items()
                                if any(astx.path(b) == 'CaseTable' for b in c.bases)}
    for fn in m.funcs.values():
        for c in exec_calls(fn):
            s = parse_sql(c)
            if s is not None and s.verb == 'PRAGMA' and len(s.toks) > 1 and _up(s.toks[1]) == 'QUERY_ONLY':
                # measured (/tmp/c18/hot.py): a hot journal is still rolled back under query_only
                out.ok(fn, c, 'PRAGMA query_only does not prevent hot-journal recovery')
                continue
            if s is None or s.table is None:
                out.unsure(fn, c, 'SQL text not recognised')
                continue
            if s.verb != 'SELECT':
                out.unsure(fn, c, f'reader executes {s.verb}')
                continue
            if isinstance(s.table, Hole):
                if astx.path(s.table.node) == 'self._table_name' and fn.qualname.split('.')[0] in tclasses:
                    out.ok(fn, c, f'table is self._table_name, one of {sorted(dyn)}')
                else:
                    out.unsure(fn, c, 'formatted table name not recognised')
            elif s.table == 'sqlite_master' or s.table in tabs:
                out.ok(fn, c, f'{s.table} exists in every initialised file')
            else:
                out.bad(fn, c, f"reader selects from '{s.table}' which _initialize_database does not create: "
                        'opening a crashed file fails', key=f'reader-table-{s.table}')


# --------------------------------------------------------------------------- C18.connect
_CONNECT_NAMES = ('sqlite3.connect', 'connect', 'sqlite3.dbapi2.connect')
_TRUE_WORDS = ('1', 'true', 'yes', 'on')
EXTRA_OPENERS = ('openmdao/visualization/realtime_plot/realtime_plot.py',)   # outside shipped(), opens recordings


def _split_holes(parts, node, braces):
    """Replace %-conversions (or {...} fields) inside literal pieces by holes."""
    out = []
    for p in parts:
        if isinstance(p, Hole):
            out.append(p)
            continue
        buf = ''
        i = 0
        while i < len(p):
            ch = p[i]
            if not braces and ch == '%' and i + 1 < len(p):
                if p[i + 1] == '%':
                    buf += '%'
                else:
                    out.extend([buf, Hole(node)])
                    buf = ''
                i += 2
                continue
            if braces and ch == '{':
                j = p.find('}', i)
                if j < 0:
                    return None
                out.extend([buf, Hole(node)])
                buf = ''
                i = j + 1
                continue
            buf += ch
            i += 1
        out.append(buf)
    return [x for x in out if x != '']


def _uri_parts(e, ctx, at, depth=0):
    """Literal pieces (str / Hole) of a database-name expression, or None when it is wholly computed."""
    if isinstance(e, ast.Constant) and isinstance(e.value, str):
        return [e.value]
    if isinstance(e, ast.JoinedStr):
        return sql_parts(e)
    if isinstance(e, ast.BinOp) and isinstance(e.op, ast.Add):
        left, right = _uri_parts(e.left, ctx, at, depth + 1), _uri_parts(e.right, ctx, at, depth + 1)
        if left is None and right is None:
            return None
        return (left or [Hole(e.left)]) + (right or [Hole(e.right)])
    if isinstance(e, ast.BinOp) and isinstance(e.op, ast.Mod):
        left = _uri_parts(e.left, ctx, at, depth + 1)
        return None if left is None else _split_holes(left, e.right, braces=False)
    if isinstance(e, ast.Call) and astx.callee_attr(e) == 'format' and isinstance(e.func, ast.Attribute):
        base = _uri_parts(e.func.value, ctx, at, depth + 1)
        return None if base is None else _split_holes(base, e, braces=True)
    if isinstance(e, ast.Name) and depth < 3:
        v = ctx.rd.value(at, e.id)
        if v is not None:
            ds = ctx.rd.defs(at, e.id)
            return _uri_parts(v, ctx, next(iter(ds)), depth + 1)
    return None


def _open_mode(c, ctx):
    """('ok'|'bad'|'unsure', text) for the way a sqlite3.connect call opens its file w.r.t. hot journals."""
    uri = astx.kwarg(c, 'uri')
    if uri is None and len(c.args) > 7:
        return 'unsure', 'positional uri argument'
    if uri is None or (isinstance(uri, ast.Constant) and not uri.value):
        return 'ok', 'plain path: opened read/write, a hot journal is rolled back on first access'
    if not (isinstance(uri, ast.Constant) and uri.value is True):
        return 'unsure', 'uri= argument is not a literal'
    db = astx.arg(c, 0, 'database')
    at = ctx.node_of(c)[0]
    parts = _uri_parts(db, ctx, at) if db is not None else None
    if parts is None:
        return 'unsure', 'URI is computed; its query parameters cannot be read'
    query = None       # literal text after the first '?', holes in it make it undecidable
    for p in parts:
        if isinstance(p, Hole):
            if query is not None:
                return 'unsure', 'query part of the URI contains a computed piece'
            continue
        if query is None:
            if '?' in p:
                query = p.split('?', 1)[1]
        else:
            query += p
    if query is None:
        if isinstance(parts[-1], Hole) and any(isinstance(p, str) and p.lower().startswith('file:') for p in parts[:1]):
            # 'file:' + <computed>: the computed tail may carry a query
            tail = parts[-1].node
            if not isinstance(tail, (ast.Name, ast.Attribute, ast.Call)) or isinstance(tail, ast.Call) and \
                    astx.call_name(tail) not in ('str', 'os.path.abspath', 'quote', 'urllib.parse.quote'):
                return 'unsure', 'tail of the URI is computed'
        return 'ok', 'URI without query parameters: opened read/write'
    for kv in query.split('#', 1)[0].split('&'):
        k, _, v = kv.partition('=')
        k, v = k.strip().lower(), v.strip().lower()
        if k == 'mode' and v == 'ro':
            return 'bad', ('URI parameter mode=ro opens the file read-only: the hot journal a killed recorder '
                           'leaves behind cannot be rolled back, reading fails with "attempt to write a '
                           'readonly database" instead of showing the committed prefix')
        if k == 'immutable' and v in _TRUE_WORDS:
            return 'bad', ('URI parameter immutable=1 makes SQLite ignore the hot journal of a killed recorder: '
                           'uncommitted pages already spilled to the file are read as if committed')
        if k == 'mode' and v not in ('rw', 'rwc'):
            return 'unsure', f'URI parameter mode={v}'
    return 'ok', 'URI opens the file read/write'


def _txn_mode(fn, c):
    iso, auto = astx.kwarg(c, 'isolation_level'), astx.kwarg(c, 'autocommit')
    if len(c.args) > 3:
        return 'unsure', 'positional isolation_level argument'
    bad = und = None
    if iso is not None:
        if isinstance(iso, ast.Constant) and iso.value is None:
            bad = 'isolation_level=None puts the connection in autocommit mode'
        elif not (isinstance(iso, ast.Constant) and isinstance(iso.value, str)):
            und = 'isolation_level is not a literal'
    if auto is not None:
        if isinstance(auto, ast.Constant) and auto.value is True:
            bad = 'autocommit=True commits every statement on its own'
        elif isinstance(auto, ast.Constant) and auto.value is False:
            pass
        elif astx.path(auto) in ('sqlite3.LEGACY_TRANSACTION_CONTROL', 'LEGACY_TRANSACTION_CONTROL'):
            pass
        else:
            und = 'autocommit argument not recognised'
    if bad:
        return 'bad', bad + (': `with connection` no longer groups the case row and its '
                             f'{GLOBAL} row into one commit')
    if und:
        return 'unsure', und
    return 'ok', 'implicit transactions kept'


def _opener_modules(repo):
    rels = [REC, RDR]
    for rel in list(repo.shipped()) + [r for r in EXTRA_OPENERS if repo.exists(r)]:
        if rel in rels:
            continue
        text = repo.source(rel)
        if 'sqlite3' in text and 'connect' in text:
            rels.append(rel)
    return rels


@rule('C18.connect', floor=10)
def connect(repo, out):
    """Recorder connections keep implicit transactions; every opener of a recording permits journal recovery."""
    for rel in _opener_modules(repo):
        m = repo.module(rel)
        for qn, fn in m.funcs.items():
            calls = [c for c in astx.calls(fn.node) if astx.call_name(c) in _CONNECT_NAMES]
            ctx = None
            for c in calls:
                if astx.call_name(c) == 'connect' and m.imports.get('connect', ('', ''))[0] != 'sqlite3':
                    continue
                if any(k.arg is None for k in c.keywords) or any(isinstance(a, ast.Starred) for a in c.args):
                    out.unsure(fn, c, 'connect arguments not recognised')
                    continue
                ctx = ctx or Ctx(fn)
                v1, why1 = _open_mode(c, ctx)
                v2, why2 = _txn_mode(fn, c) if rel == REC else ('ok', '')
                if v1 == 'bad':
                    out.bad(fn, c, why1, key='open-no-journal-recovery')
                elif v2 == 'bad':
                    out.bad(fn, c, why2, key='connect-autocommit')
                elif v1 == 'unsure' or v2 == 'unsure':
                    out.unsure(fn, c, why1 if v1 == 'unsure' else why2)
                else:
                    out.ok(fn, c, why1 + ('; ' + why2 if why2 else ''))
            if rel != REC:
                continue
            for st in astx.walk_stmts(fn.node.body):
                if isinstance(st, ast.Assign) and any(isinstance(t, ast.Attribute) and
                                                      t.attr in ('isolation_level', 'autocommit')
                                                      for t in st.targets):
                    v = st.value
                    if isinstance(v, ast.Constant) and (v.value is None or v.value is True):
                        out.bad(fn, st, 'connection switched to autocommit mode', key='connect-autocommit')
                    else:
                        out.unsure(fn, st, 'transaction mode of the connection is reassigned')


# --------------------------------------------------------------------------- C18.precheck
_SIZE_FUNCS = ('getsize',)
_EXIST_FUNCS = ('isfile', 'exists', 'is_file')
MAGIC_LEN = 16      # bytes 0..15 of a database file never change; everything after them does during a commit
MIN_HEADER = 100


def _prechecks(repo):
    """Module-level functions that SqliteCaseReader.__init__ runs on the file names before connecting."""
    fn = repo.func(RDR, 'SqliteCaseReader.__init__')
    m = fn.module
    out = {}
    for c in astx.calls(fn.node):
        if not isinstance(c.func, ast.Name) or not c.args:
            continue
        imp = m.imports.get(c.func.id)
        target = None
        if imp and imp[1] and imp[0].startswith('openmdao.'):
            rel = imp[0].replace('.', '/') + '.py'
            if repo.exists(rel):
                target = repo.module(rel).funcs.get(imp[1])
        elif c.func.id in m.funcs:
            target = m.funcs[c.func.id]
        if target is not None and any(astx.mentions(a, 'filename', 'metadata_filename') for a in c.args):
            out[target.ident] = target
    return list(out.values())


_READ_NAMES = ('read', 'read_bytes', 'readinto', 'pread')
_CUR = {}              # repo / fn being analysed by precheck()
_LOCAL_CONSTS = {}     # set per analysed function by precheck(): name -> int / bytes constant (single assignment)


def _small_int(e):
    """Integer value of a slice bound: literal, local int constant, or len(<local bytes constant>)."""
    if e is None:
        return 0
    if isinstance(e, ast.Constant) and isinstance(e.value, int) and not isinstance(e.value, bool):
        return e.value
    if isinstance(e, ast.Name) and isinstance(_LOCAL_CONSTS.get(e.id), int):
        return _LOCAL_CONSTS[e.id]
    if isinstance(e, ast.Call) and astx.call_name(e) == 'len' and len(e.args) == 1:
        a = e.args[0]
        if isinstance(a, ast.Constant) and isinstance(a.value, (bytes, str)):
            return len(a.value)
        if isinstance(a, ast.Name) and isinstance(_LOCAL_CONSTS.get(a.id), bytes):
            return len(_LOCAL_CONSTS[a.id])
    return None


def _returns_file_bytes(repo, fn, depth=0):
    """True if every return of module-level function *fn* hands back the result of a file read."""
    rets = [st for st in astx.walk_stmts(fn.node.body) if isinstance(st, ast.Return)]
    if not rets or depth > 2:
        return False
    ctx = None
    for r in rets:
        v = r.value
        if isinstance(v, ast.Name):
            ctx = ctx or Ctx(fn)
            v = ctx.rd.value(ctx.node_of(r)[0], v.id)
        if not (isinstance(v, ast.Call) and isinstance(v.func, ast.Attribute) and v.func.attr in _READ_NAMES):
            return False
    return True


def _is_file_read(repo, fn, v):
    """Is expression *v* (in function *fn*) the raw leading bytes of a file?"""
    if not isinstance(v, ast.Call):
        return False
    if isinstance(v.func, ast.Attribute) and v.func.attr in _READ_NAMES:
        return True
    if isinstance(v.func, ast.Name):
        h = fn.module.funcs.get(v.func.id)
        return h is not None and h is not fn and _returns_file_bytes(repo, h)
    return False


def _volatile_uses(e, header_names, tainted):
    """Sub-expressions of *e* whose value depends on file bytes/sizes that change while a commit is written."""
    bad = []
    for n in astx.walk(e):
        if isinstance(n, ast.Name) and n.id in tainted and isinstance(n.ctx, ast.Load):
            bad.append(n)
        is_hdr = isinstance(n, ast.Name) and n.id in header_names and isinstance(n.ctx, ast.Load)
        if not is_hdr and isinstance(n, ast.Call) and _CUR and _is_file_read(_CUR['repo'], _CUR['fn'], n):
            par = getattr(n, '_parent', None)
            # a read whose result is only bound to a name (tracked as header name) or returned is not a use
            is_hdr = not (isinstance(par, (ast.Assign, ast.AnnAssign, ast.Return, ast.Expr)) and
                          getattr(par, 'value', None) is n)
        if is_hdr:
            par = getattr(n, '_parent', None)
            ok = False
            if isinstance(par, ast.Subscript) and par.value is n:
                sl = par.slice
                if isinstance(sl, ast.Slice) and sl.step is None:
                    lo, hi = _small_int(sl.lower), _small_int(sl.upper) if sl.upper is not None else None
                    ok = lo is not None and hi is not None and 0 <= lo and 0 <= hi <= MAGIC_LEN
                else:
                    ix = _small_int(sl)
                    ok = ix is not None and 0 <= ix < MAGIC_LEN
            elif isinstance(par, ast.Attribute) and par.attr == 'startswith' and \
                    isinstance(getattr(par, '_parent', None), ast.Call) and len(par._parent.args) == 1:
                a0 = par._parent.args[0]
                pref = a0.value if isinstance(a0, ast.Constant) else \
                    _LOCAL_CONSTS.get(a0.id) if isinstance(a0, ast.Name) else None
                ok = isinstance(pref, bytes) and len(pref) <= MAGIC_LEN
            elif isinstance(par, ast.Call) and astx.callee_attr(par) == 'len':
                ok = True
            if not ok:
                bad.append(par if par is not None else n)
    return bad


@rule('C18.precheck', floor=3)
def precheck(repo, out):
    """Validity checks run before sqlite opens the file reject only on facts that hold during a commit."""
    for fn in _prechecks(repo):
        ctx = Ctx(fn)
        g = ctx.g
        header_names, sizes, tainted, safe, consts = set(), set(), set(), set(), {}
        stmts = list(astx.walk_stmts(fn.node.body))
        _LOCAL_CONSTS.clear()
        _CUR.update(repo=repo, fn=fn)
        nassign = {}
        for st in stmts:
            for t in astx.assigned_targets(st):
                if isinstance(t, ast.Name):
                    nassign[t.id] = nassign.get(t.id, 0) + 1
        for st in stmts:
            if isinstance(st, ast.Assign) and len(st.targets) == 1 and isinstance(st.targets[0], ast.Name) and \
                    nassign.get(st.targets[0].id) == 1 and isinstance(st.value, ast.Constant) and \
                    isinstance(st.value.value, (int, bytes)) and not isinstance(st.value.value, bool):
                _LOCAL_CONSTS[st.targets[0].id] = st.value.value
        for _ in range(3):      # small fixpoint over straight assignments
            for st in stmts:
                if not isinstance(st, (ast.Assign, ast.AnnAssign, ast.AugAssign)) or getattr(st, 'value', None) is None:
                    continue
                tg = [t.id for t in astx.assigned_targets(st) if isinstance(t, ast.Name)]
                v = st.value
                if _is_file_read(repo, fn, v):
                    header_names.update(tg)
                elif any(isinstance(c, ast.Call) and astx.callee_attr(c) in _SIZE_FUNCS + ('stat', 'fstat')
                         for c in astx.calls(v)) or astx.mentions(v, 'st_size'):
                    sizes.update(tg)
                elif _volatile_uses(v, header_names, tainted):
                    tainted.update(tg)
                elif astx.mentions(v, *header_names, *safe) if (header_names or safe) else False:
                    safe.update(tg)        # derived from the constant magic bytes only
                elif isinstance(v, ast.Constant) and isinstance(v.value, int) and not isinstance(v.value, bool) \
                        and len(tg) == 1:
                    consts.setdefault(tg[0], set()).add(v.value)
        raises = [n for n in g.nodes if n.kind == 'stmt' and isinstance(n.ast, ast.Raise)]
        for rn in raises:
            guards = [a for a in astx.ancestors(rn.ast) if isinstance(a, (ast.If, ast.While))]
            verdict = None
            for gd in guards:
                t = gd.test
                vol = _volatile_uses(t, header_names, tainted)
                if vol:
                    verdict = ('bad', f'rejects the file on `{astx.src(t)}`, which reads header fields beyond the '
                               f'{MAGIC_LEN}-byte magic string (`{astx.src(vol[0])}`): page 1 is rewritten first '
                               'during a commit, so a recording whose writer died mid-commit is refused before '
                               'sqlite can roll it back from its journal')
                    break
                size_refs = [c for c in astx.calls(t) if astx.callee_attr(c) in _SIZE_FUNCS] + \
                            [n for n in astx.walk(t) if isinstance(n, ast.Name) and n.id in sizes] + \
                            [n for n in astx.walk(t) if isinstance(n, ast.Attribute) and n.attr == 'st_size']
                if size_refs:
                    ct = astx.canon(t)
                    if isinstance(ct, ast.Compare) and len(ct.ops) == 1 and \
                            isinstance(ct.comparators[0], ast.Name) and \
                            len(consts.get(ct.comparators[0].id, ())) == 1 and \
                            sum(1 for st2 in stmts for t2 in astx.assigned_targets(st2)
                                if isinstance(t2, ast.Name) and t2.id == ct.comparators[0].id) == 1:
                        ct.comparators[0] = ast.Constant(value=next(iter(consts[ct.comparators[0].id])))
                    okc = isinstance(ct, ast.Compare) and len(ct.ops) == 1 and \
                        isinstance(ct.ops[0], (ast.Lt, ast.LtE)) and \
                        isinstance(ct.comparators[0], ast.Constant) and isinstance(ct.comparators[0].value, int) and \
                        not any(isinstance(n, (ast.BinOp, ast.Constant)) and
                                not (isinstance(n, ast.Constant) and isinstance(n.value, str))
                                for n in astx.walk(ct.left))
                    if okc and ct.comparators[0].value <= MIN_HEADER:
                        continue
                    if okc:
                        verdict = verdict or ('unsure', f'size threshold {ct.comparators[0].value} exceeds the '
                                              f'{MIN_HEADER}-byte header')
                    elif any(isinstance(n, ast.Name) and (n.id in tainted or n.id in header_names)
                             for n in astx.walk(t)):
                        verdict = ('bad', f'rejects the file on `{astx.src(t)}`: the file size is compared with a '
                                   'value read from the file; the two disagree while a commit is being written')
                        break
                    else:
                        verdict = verdict or ('unsure', f'file-size test `{astx.src(t)}` not recognised')
                    continue
                known = any(astx.callee_attr(c) in _EXIST_FUNCS for c in astx.calls(t))
                if not known and not astx.mentions(t, *header_names, *safe):
                    verdict = verdict or ('unsure', f'rejection test `{astx.src(t)}` not in the analysed vocabulary')
            if not guards:
                verdict = verdict or ('unsure', 'unconditional raise')
            if verdict is None:
                out.ok(fn, rn.ast, 'rejection depends only on existence, a size below the header length or the '
                       'constant magic string')
            elif verdict[0] == 'bad':
                out.bad(fn, rn.ast, verdict[1], key='precheck-volatile-header')
            else:
                out.unsure(fn, rn.ast, verdict[1])


# --------------------------------------------------------------------------- C18.writers
@rule('C18.writers', floor=1)
def writers(repo, out):
    """No shipped module other than sqlite_recorder.py executes a writing SQL statement."""
    for rel in repo.shipped():
        if rel == REC:
            continue
        text = repo.source(rel)
        if 'sqlite3' not in text or 'execute' not in text:
            continue
        m = repo.module(rel)
        n = 0
        clean = True
        for fn in m.funcs.values():
            for c in exec_calls(fn):
                s = parse_sql(c)
                if s is None or s.verb is None:
                    out.unsure(fn, c, 'SQL text is not a literal')
                    clean = False
                elif s.verb != 'SELECT':
                    out.bad(fn, c, f'{s.verb} statement outside sqlite_recorder.py: a second writer of recording '
                            'files is outside the analysed transaction discipline', key=f'foreign-writer-{s.verb}')
                    clean = False
                else:
                    n += 1
        if clean and n:
            out.ok(rel, m.tree, f'{n} statements, all SELECT')


# --------------------------------------------------------------------------- self-test
_DRV_WITH = ("            with self.connection as c:\n"
             "                c = c.cursor()  # need a real cursor for lastrowid\n\n"
             "                c.execute(\"INSERT INTO driver_iterations(")
_DRV_GLOB = ("                c.execute(\"INSERT INTO global_iterations(record_type, rowid, source) VALUES(?,?,?)\",\n"
             "                          ('driver', c.lastrowid, driver._get_name()))")
_SYS_SRC = ("                # get the pathname of the source system\n"
            "                source_system = system.pathname\n"
            "                if source_system == '':\n"
            "                    source_system = 'root'\n\n")
_SOLV_ELSE = ("                else:\n"
              "                    raise RuntimeError(\"Solver type '%s' not recognized during recording. \"\n"
              "                                       \"Expecting NL or LS\" % solver.SOLVER)\n")
_PROB_GLOB = ("                c.execute(\"INSERT INTO global_iterations(record_type, rowid, source) VALUES(?,?,?)\",\n"
              "                          ('problem', c.lastrowid, metadata['name']))")
_UPDATE = ("            if self._record_metadata:\n"
           "                with self.metadata_connection as m:\n"
           "                    m.execute(\"UPDATE metadata SET \" +   # nosec: trusted input\n"
           "                              \"abs2prom=?, prom2abs=?, abs2meta=?, var_settings=?, conns=?\",\n"
           "                              (abs2prom, prom2abs, abs2meta, var_settings_json, conns))\n")
_GUARD_PROB = ("        if not self._database_initialized:\n"
               "            raise RuntimeError(f\"{problem.msginfo} attempted to record iteration to \"\n"
               "                               f\"'{self._filepath}', but database is not initialized;\"\n"
               "                               \" `run_model()`, `run_driver()`, or `final_setup()` \"\n"
               "                               \"must be called after adding a recorder.\")\n\n")

_HELPER_AT = "    def record_iteration_driver(self, driver, data, metadata):\n"
_HELPER_DEF = (REC, _HELPER_AT,
               "    def _insert_global_iteration(self, cursor, record_type, source):\n"
               "        link = (record_type, cursor.lastrowid, source)\n"
               "        cursor.execute(\"INSERT INTO global_iterations(record_type, rowid, source) VALUES(?,?,?)\",\n"
               "                       link)\n\n" + _HELPER_AT)
_DRV_WHOLE_OLD = ("            with self.connection as c:\n"
                  "                c = c.cursor()  # need a real cursor for lastrowid\n\n"
                  "                c.execute(\"INSERT INTO driver_iterations(counter, iteration_coordinate, \"\n"
                  "                          \"timestamp, success, msg, inputs, outputs, residuals) \"\n"
                  "                          \"VALUES(?,?,?,?,?,?,?,?)\",\n"
                  "                          (self._counter, self._iteration_coordinate,\n"
                  "                           metadata['timestamp'], metadata['success'], metadata['msg'],\n"
                  "                           inputs_text, outputs_text, residuals_text))\n\n" + _DRV_GLOB)
_DRV_WHOLE_CALL = ("            self._write_case(\"INSERT INTO driver_iterations(counter, iteration_coordinate, \"\n"
                   "                             \"timestamp, success, msg, inputs, outputs, residuals) \"\n"
                   "                             \"VALUES(?,?,?,?,?,?,?,?)\",\n"
                   "                             (self._counter, self._iteration_coordinate,\n"
                   "                              metadata['timestamp'], metadata['success'], metadata['msg'],\n"
                   "                              inputs_text, outputs_text, residuals_text),\n"
                   "                             'driver', driver._get_name())")
_WHOLE_HELPER = ("    def _write_case(self, case_sql, case_row, record_type, source):\n"
                 "        with self.connection as conn:\n"
                 "            cur = conn.cursor()\n"
                 "            cur.execute(case_sql, case_row)\n"
                 "            cur.execute(\"INSERT INTO global_iterations(record_type, rowid, source) VALUES(?,?,?)\",\n"
                 "                        (record_type, cur.lastrowid, source))\n\n")

_DELETES = ("        if self.connection:\n" + "".join(
    f"            self.connection.execute(\"DELETE FROM {t}\")\n" for t in (
        'global_iterations', 'driver_iterations', 'driver_derivatives', 'problem_cases', 'system_iterations',
        'solver_iterations', 'driver_metadata', 'system_metadata', 'solver_metadata')))

_READ_HELPER = (RU, "def check_path(path, includes, excludes, include_all_path=False):",
                "def _read_leading_bytes(filename, nbytes):\n    with open(filename, 'rb') as fd:\n"
                "        return fd.read(nbytes)\n\n\n"
                "def check_path(path, includes, excludes, include_all_path=False):")

selftest(
    'C18',
    # ---- txn
    Mutant('txn-global-after-with', REC, _DRV_GLOB, _DRV_GLOB.replace('\n                ', '\n            ')
           .replace('                c.execute', '            c.execute', 1), 'C18.txn'),
    Mutant('txn-own-with-for-case-row', REC,
           "                c = c.cursor()  # need a real cursor for lastrowid\n\n"
           "                c.execute(\"INSERT INTO problem_cases(counter, case_name, \"\n"
           "                          \"timestamp, success, msg, inputs, outputs, residuals, jacobian, \"\n"
           "                          \"abs_err, rel_err ) \"\n"
           "                          \"VALUES(?,?,?,?,?,?,?,?,?,?,?)\",\n"
           "                          (self._counter, metadata['name'],\n"
           "                           metadata['timestamp'], metadata['success'], metadata['msg'],\n"
           "                           inputs_text, outputs_text, residuals_text, totals_blob,\n"
           "                           abs_err, rel_err))\n",
           "                c = c.cursor()  # need a real cursor for lastrowid\n\n"
           "                with self.connection:\n"
           "                    c.execute(\"INSERT INTO problem_cases(counter, case_name, \"\n"
           "                          \"timestamp, success, msg, inputs, outputs, residuals, jacobian, \"\n"
           "                          \"abs_err, rel_err ) \"\n"
           "                          \"VALUES(?,?,?,?,?,?,?,?,?,?,?)\",\n"
           "                          (self._counter, metadata['name'],\n"
           "                           metadata['timestamp'], metadata['success'], metadata['msg'],\n"
           "                           inputs_text, outputs_text, residuals_text, totals_blob,\n"
           "                           abs_err, rel_err))\n", 'C18.txn'),
    Mutant('txn-commit-between', REC, _SYS_SRC, _SYS_SRC + "                self.connection.commit()\n\n", 'C18.txn'),
    Mutant('txn-rowid-is-counter', REC, "('driver', c.lastrowid, driver._get_name())",
           "('driver', self._counter, driver._get_name())", 'C18.txn'),
    Mutant('txn-case-insert-on-connection-shortcut', REC,
           "                c = c.cursor()  # need a real cursor for lastrowid\n\n"
           "                c.execute(\"INSERT INTO system_iterations(",
           "                c = c.cursor()  # need a real cursor for lastrowid\n\n"
           "                self.connection.execute(\"INSERT INTO system_iterations(", 'C18.txn'),
    Mutant('txn-second-cursor', REC,
           "                c.execute(\"INSERT INTO global_iterations(record_type, rowid, source) VALUES(?,?,?)\",\n"
           "                          ('system', c.lastrowid, source_system))",
           "                c2 = self.connection.cursor()\n"
           "                c2.execute(\"INSERT INTO global_iterations(record_type, rowid, source) VALUES(?,?,?)\",\n"
           "                           ('system', c2.lastrowid, source_system))", 'C18.txn'),
    Mutant('txn-unknown-solver-returns', REC, _SOLV_ELSE,
           "                else:\n                    return  # unknown solver kind: nothing to index\n", 'C18.txn'),
    Mutant('txn-global-insert-error-swallowed', REC, _PROB_GLOB,
           "                try:\n    " + _PROB_GLOB.replace('\n', '\n    ') +
           "\n                except sqlite3.Error:\n                    pass", 'C18.txn'),
    Mutant('txn-case-insert-error-swallowed', REC,
           "                c.execute(\"INSERT INTO driver_iterations(counter, iteration_coordinate, \"\n"
           "                          \"timestamp, success, msg, inputs, outputs, residuals) \"\n"
           "                          \"VALUES(?,?,?,?,?,?,?,?)\",\n"
           "                          (self._counter, self._iteration_coordinate,\n"
           "                           metadata['timestamp'], metadata['success'], metadata['msg'],\n"
           "                           inputs_text, outputs_text, residuals_text))\n",
           "                try:\n"
           "                    c.execute(\"INSERT INTO driver_iterations(counter, iteration_coordinate, \"\n"
           "                          \"timestamp, success, msg, inputs, outputs, residuals) \"\n"
           "                          \"VALUES(?,?,?,?,?,?,?,?)\",\n"
           "                          (self._counter, self._iteration_coordinate,\n"
           "                           metadata['timestamp'], metadata['success'], metadata['msg'],\n"
           "                           inputs_text, outputs_text, residuals_text))\n"
           "                except sqlite3.IntegrityError:\n"
           "                    pass\n", 'C18.txn'),
    Mutant('txn-wrong-record-type', REC, "('solver', c.lastrowid, source_solver)",
           "('system', c.lastrowid, source_solver)", 'C18.txn'),
    Mutant('txn-extra-insert-clobbers-lastrowid', REC, _SYS_SRC,
           _SYS_SRC + "                c.execute(\"INSERT INTO driver_metadata(id, model_viewer_data) VALUES(?,?)\",\n"
           "                          (self._iteration_coordinate, ''))\n\n", 'C18.txn'),
    Mutant('txn-cursor-of-other-connection', REC,
           "            with self.connection as c:\n                c = c.cursor()  # need a real cursor for lastrowid\n\n"
           "                c.execute(\"INSERT INTO solver_iterations(",
           "            with self.connection as c:\n                c = self.metadata_connection.cursor()\n\n"
           "                c.execute(\"INSERT INTO solver_iterations(", 'C18.txn'),
    Mutant('txn-global-first', REC,
           "                c = c.cursor()  # need a real cursor for lastrowid\n\n"
           "                c.execute(\"INSERT INTO driver_iterations(",
           "                c = c.cursor()  # need a real cursor for lastrowid\n"
           "                c.execute(\"INSERT INTO global_iterations(record_type, rowid, source) VALUES(?,?,?)\",\n"
           "                          ('driver', c.lastrowid, driver._get_name()))\n"
           "                c.execute(\"INSERT INTO driver_iterations(",
           'C18.txn', also=[(REC, "\n\n" + _DRV_GLOB, "\n")]),
    Mutant('txn-no-with-at-all', REC,
           "            with self.connection as c:\n                c = c.cursor()  # need a real cursor for lastrowid\n\n"
           "                c.execute(\"INSERT INTO system_iterations(",
           "            if True:\n                c = self.connection.cursor()\n\n"
           "                c.execute(\"INSERT INTO system_iterations(", ['C18.txn', 'C18.who']),
    # ---- who
    Mutant('who-derivatives-without-with', REC,
           "            with self.connection as c:\n                c = c.cursor()  # need a real cursor for lastrowid\n\n"
           "                c.execute(\"INSERT INTO driver_derivatives(",
           "            if True:\n                c = self.connection.cursor()\n\n"
           "                c.execute(\"INSERT INTO driver_derivatives(", 'C18.who'),
    Mutant('who-system-metadata-without-with', REC,
           "            with self.metadata_connection as m:\n                m.execute(\"INSERT INTO system_metadata\"",
           "            m = self.metadata_connection\n            if m:\n                m.execute(\"INSERT INTO system_metadata\"",
           'C18.who'),
    Mutant('who-with-of-other-connection', REC,
           "            with self.metadata_connection as m:\n                m.execute(\"INSERT INTO solver_metadata(",
           "            with self.connection:\n                m = self.metadata_connection\n"
           "                m.execute(\"INSERT INTO solver_metadata(", 'C18.who'),
    Mutant('who-journal-off', REC, "            with self.connection as c:\n                # used to keep track",
           "            with self.connection as c:\n                c.execute(\"PRAGMA journal_mode = OFF\")\n"
           "                # used to keep track", 'C18.who'),
    Mutant('who-executescript', REC,
           "                c.execute(\"CREATE INDEX solv_iter_ind on solver_iterations(iteration_coordinate)\")",
           "                c.executescript(\"CREATE INDEX solv_iter_ind on solver_iterations(iteration_coordinate);\")",
           'C18.who'),
    # ---- init
    Mutant('init-unconditional-reinit', REC,
           "        if not self._database_initialized:\n            self._initialize_database(comm)",
           "        self._initialize_database(comm)", 'C18.init'),
    Mutant('init-flag-test-inverted', REC,
           "        if not self._database_initialized:\n            self._initialize_database(comm)",
           "        if self._database_initialized:\n            self._initialize_database(comm)", 'C18.init'),
    Mutant('init-only-for-drivers', REC,
           "        if not self._database_initialized:\n            self._initialize_database(comm)",
           "        if not self._database_initialized and driver is not None:\n            self._initialize_database(comm)",
           'C18.init'),
    Mutant('init-problem-guard-dropped', REC, _GUARD_PROB, "", 'C18.init'),
    Mutant('init-driver-guard-wrong-flag', REC,
           "        if not self._database_initialized:\n            raise RuntimeError(f\"{driver.msginfo} attempted",
           "        if self.connection and not metadata:\n            raise RuntimeError(f\"{driver.msginfo} attempted",
           'C18.init'),
    # ---- meta
    Mutant('meta-update-moved-to-shutdown', REC, _UPDATE, "            self._pending_meta = (abs2prom, prom2abs, abs2meta, var_settings_json, conns)\n",
           'C18.meta', also=[(REC, "        # close database connection\n",
                              "        if self._record_metadata and self.metadata_connection:\n"
                              "            with self.metadata_connection as m:\n"
                              "                m.execute(\"UPDATE metadata SET \"\n"
                              "                          \"abs2prom=?, prom2abs=?, abs2meta=?, var_settings=?, conns=?\",\n"
                              "                          self._pending_meta)\n")]),
    Mutant('meta-conns-not-written', REC,
           "\"abs2prom=?, prom2abs=?, abs2meta=?, var_settings=?, conns=?\",\n"
           "                              (abs2prom, prom2abs, abs2meta, var_settings_json, conns))",
           "\"abs2prom=?, prom2abs=?, abs2meta=?, var_settings=?\",\n"
           "                              (abs2prom, prom2abs, abs2meta, var_settings_json))", 'C18.meta'),
    Mutant('meta-update-only-with-driver', REC, "            if self._record_metadata:\n                with self.metadata_connection as m:\n                    m.execute(\"UPDATE",
           "            if self._record_metadata and driver is not None:\n                with self.metadata_connection as m:\n                    m.execute(\"UPDATE",
           'C18.meta'),
    Mutant('meta-update-without-with', REC,
           "                with self.metadata_connection as m:\n                    m.execute(\"UPDATE metadata SET \" +   # nosec: trusted input",
           "                m = self.metadata_connection\n                if m:\n                    m.execute(\"UPDATE metadata SET \" +   # nosec: trusted input",
           ['C18.meta', 'C18.who']),
    Mutant('meta-version-left-null', REC, "(format_version, openmdao_version, None, None))",
           "(None, openmdao_version, None, None))", 'C18.meta'),
    # ---- reader
    Mutant('reader-lazy-derivatives-table', REC,
           "                c.execute(\"CREATE TABLE driver_derivatives(id INTEGER PRIMARY KEY, \"\n"
           "                          \"counter INT, iteration_coordinate TEXT, timestamp REAL, \"\n"
           "                          \"success INT, msg TEXT, derivatives BLOB)\")\n", "",
           'C18.reader',
           also=[(REC, "                c.execute(\"INSERT INTO driver_derivatives(",
                  "                c.execute(\"CREATE TABLE IF NOT EXISTS driver_derivatives(id INTEGER PRIMARY KEY, \"\n"
                  "                          \"counter INT, iteration_coordinate TEXT, timestamp REAL, \"\n"
                  "                          \"success INT, msg TEXT, derivatives BLOB)\")\n"
                  "                c.execute(\"INSERT INTO driver_derivatives(")]),
    Mutant('reader-table-not-created', REC,
           "                c.execute(\"CREATE TABLE solver_iterations(id INTEGER PRIMARY KEY, \"",
           "                c.execute(\"CREATE TABLE solver_iters(id INTEGER PRIMARY KEY, \"", 'C18.reader'),
    Mutant('reader-selects-unknown-table', RDR, "cur.execute(\"SELECT model_viewer_data FROM driver_metadata\")",
           "cur.execute(\"SELECT model_viewer_data FROM viewer_metadata\")", 'C18.reader'),
    # ---- connect
    Mutant('connect-isolation-none', REC, "self.connection = sqlite3.connect(filepath)",
           "self.connection = sqlite3.connect(filepath, isolation_level=None)", 'C18.connect'),
    Mutant('connect-autocommit', REC, "self.connection = sqlite3.connect(filepath)",
           "self.connection = sqlite3.connect(filepath, autocommit=True)", 'C18.connect'),
    Mutant('connect-isolation-attr', REC, "self.connection = sqlite3.connect(filepath)\n",
           "self.connection = sqlite3.connect(filepath)\n            self.connection.isolation_level = None\n",
           'C18.connect'),
    Mutant('open-reader-readonly-uri', RDR, "        with sqlite3.connect(filename) as con:",
           "        with sqlite3.connect(f'file:{filename}?mode=ro', uri=True) as con:", 'C18.connect',
           also=[(RDR, "        with sqlite3.connect(metadata_filename) as con:",
                  "        with sqlite3.connect(f'file:{metadata_filename}?mode=ro', uri=True) as con:")]),
    Mutant('open-casetable-readonly-uri-via-local', RDR,
           "        with sqlite3.connect(self._filename) as con:\n            cur = con.cursor()\n"
           "            cur.execute(f\"SELECT count(*)",
           "        uri = 'file:' + str(self._filename) + '?cache=private&mode=ro'\n"
           "        with sqlite3.connect(uri, uri=True) as con:\n            cur = con.cursor()\n"
           "            cur.execute(f\"SELECT count(*)", 'C18.connect'),
    Mutant('open-reader-immutable', RDR, "        with sqlite3.connect(metadata_filename) as con:",
           "        with sqlite3.connect('file:%s?immutable=1' % metadata_filename, uri=True) as con:",
           'C18.connect'),
    # ---- extracted helpers: the accepted shape (twins below) broken in the ways that matter
    Mutant('txn-helper-called-after-with', REC, _DRV_GLOB,
           "            self._insert_global_iteration(c, 'driver', driver._get_name())", ['C18.txn', 'C18.who'],
           also=[_HELPER_DEF]),
    Mutant('txn-helper-rowid-is-counter', REC, _DRV_GLOB,
           "                self._insert_global_iteration(c, 'driver', driver._get_name())", 'C18.txn',
           also=[(_HELPER_DEF[0], _HELPER_DEF[1], _HELPER_DEF[2].replace('cursor.lastrowid', 'self._counter'))]),
    Mutant('txn-helper-given-other-cursor', REC, _DRV_GLOB,
           "                self._insert_global_iteration(self.connection.cursor(), 'driver', driver._get_name())",
           'C18.txn', also=[_HELPER_DEF]),
    Mutant('txn-helper-wrong-record-type', REC, _PROB_GLOB,
           "                self._insert_global_iteration(c, 'driver', metadata['name'])", 'C18.txn',
           also=[_HELPER_DEF]),
    Mutant('txn-whole-pair-helper-two-withs', REC, _DRV_WHOLE_OLD, _DRV_WHOLE_CALL, 'C18.txn',
           also=[(REC, _HELPER_AT, _WHOLE_HELPER.replace(
               "            cur.execute(\"INSERT INTO global_iterations",
               "        with self.connection as conn:\n            cur = conn.cursor()\n"
               "            cur.execute(\"INSERT INTO global_iterations") + _HELPER_AT)]),
    # ---- precheck
    Mutant('precheck-truncation-test', RU,
           "        raise IOError('File does not contain a valid sqlite database ({0})'.format(filename))\n\n\ndef check_path",
           "        raise IOError('File does not contain a valid sqlite database ({0})'.format(filename))\n\n"
           "    page_size = int.from_bytes(header[16:18], 'big')\n"
           "    if page_size == 1:\n        page_size = 65536\n"
           "    num_pages = int.from_bytes(header[28:32], 'big')\n"
           "    if os.path.getsize(filename) < page_size * num_pages:\n"
           "        raise IOError('File contains a truncated sqlite database ({0})'.format(filename))\n\n\ndef check_path",
           'C18.precheck'),
    Mutant('precheck-size-multiple-of-page', RU, "    if header[:16] != b'SQLite format 3\\x00':",
           "    if os.path.getsize(filename) % (int.from_bytes(header[16:18], 'big') or 65536):\n"
           "        raise IOError('incomplete file')\n"
           "    if header[:16] != b'SQLite format 3\\x00':", 'C18.precheck'),
    Mutant('precheck-change-counter', RU, "    if header[:16] != b'SQLite format 3\\x00':",
           "    if header[:16] != b'SQLite format 3\\x00' or header[24:28] != header[92:96]:", 'C18.precheck'),
    Mutant('who-loop-insert-outside-with', REC,
           "            with self.metadata_connection as m:\n                m.execute(\"INSERT INTO solver_metadata(id, solver_options, solver_class)\"\n"
           "                          \" VALUES(?,?,?)\",",
           "            m = self.metadata_connection\n            for tab in ('solver_metadata',):\n"
           "                m.execute(\"INSERT INTO \" + tab + \"(id, solver_options, solver_class)\"\n"
           "                          \" VALUES(?,?,?)\",", 'C18.who'),
    Mutant('precheck-volatile-through-local', RU, "    if header[:16] != b'SQLite format 3\\x00':",
           "    magic = header[:16]\n    page = header[16:18]\n"
           "    if not magic == b'SQLite format 3\\x00' or page == b'\\x00\\x00':", 'C18.precheck'),
    Mutant('precheck-magic-includes-page-size', RU,
           "    with open(filename, 'rb') as fd:\n        header = fd.read(100)\n\n"
           "    if header[:16] != b'SQLite format 3\\x00':",
           "    magic = b'SQLite format 3\\x00\\x10\\x00\\x01\\x01'\n    header = _read_leading_bytes(filename, 100)\n\n"
           "    if not header[:len(magic)] == magic:", 'C18.precheck', also=[_READ_HELPER]),
    Mutant('precheck-helper-returns-page-count', RU,
           "    if header[:16] != b'SQLite format 3\\x00':",
           "    if header[:16] != b'SQLite format 3\\x00' or _read_leading_bytes(filename, 100)[28:32] == b'\\x00' * 4:",
           'C18.precheck', also=[_READ_HELPER]),
    # ---- writers
    Mutant('writers-reader-repairs-file', RDR, "        cur.execute('select * from global_iterations')\n",
           "        cur.execute('DELETE FROM global_iterations WHERE rowid IS NULL')\n"
           "        cur.execute('select * from global_iterations')\n", 'C18.writers'),
    # ---- twins
    Twin('twin-rename-with-var', REC,
         "            with self.connection as c:\n                c = c.cursor()  # need a real cursor for lastrowid\n\n"
         "                c.execute(\"INSERT INTO driver_iterations(",
         "            with self.connection as conn:\n                c = conn.cursor()\n\n"
         "                c.execute(\"INSERT INTO driver_iterations("),
    Twin('twin-cursor-before-with', REC,
         "            with self.connection as c:\n                c = c.cursor()  # need a real cursor for lastrowid\n\n"
         "                c.execute(\"INSERT INTO solver_iterations(",
         "            c = self.connection.cursor()\n            with self.connection:\n"
         "                c.execute(\"INSERT INTO solver_iterations("),
    Twin('twin-connection-alias', REC,
         "            with self.connection as c:\n                c = c.cursor()  # need a real cursor for lastrowid\n\n"
         "                c.execute(\"INSERT INTO problem_cases(",
         "            db = self.connection\n            with db as c:\n                c = c.cursor()\n\n"
         "                c.execute(\"INSERT INTO problem_cases("),
    Twin('twin-rowid-temporary', REC, _DRV_GLOB,
         "                new_row = c.lastrowid\n"
         "                c.execute(\"INSERT INTO global_iterations(record_type, rowid, source) VALUES(?,?,?)\",\n"
         "                          ('driver', new_row, driver._get_name()))"),
    Twin('twin-params-temporary', REC, _PROB_GLOB,
         "                link = ('problem', c.lastrowid, metadata['name'])\n"
         "                c.execute(\"INSERT INTO global_iterations(record_type, rowid, source) VALUES(?,?,?)\", link)"),
    Twin('twin-source-before-with', REC, _SYS_SRC, "",
         also=[(REC, "            with self.connection as c:\n                c = c.cursor()  # need a real cursor for lastrowid\n\n"
                "                c.execute(\"INSERT INTO system_iterations(",
                "            source_system = system.pathname\n            if source_system == '':\n"
                "                source_system = 'root'\n\n"
                "            with self.connection as c:\n                c = c.cursor()  # need a real cursor for lastrowid\n\n"
                "                c.execute(\"INSERT INTO system_iterations(")]),
    Twin('twin-init-guard-flipped', REC,
         "        if not self._database_initialized:\n            self._initialize_database(comm)",
         "        if self._database_initialized:\n            pass\n        else:\n            self._initialize_database(comm)"),
    Twin('twin-record-guard-flipped', REC, _GUARD_PROB,
         "        if self._database_initialized:\n            pass\n        else:\n"
         "            raise RuntimeError(f\"{problem.msginfo}: database is not initialized\")\n\n"),
    Twin('twin-update-single-literal', REC,
         "m.execute(\"UPDATE metadata SET \" +   # nosec: trusted input\n"
         "                              \"abs2prom=?, prom2abs=?, abs2meta=?, var_settings=?, conns=?\",",
         "m.execute(\"UPDATE metadata SET abs2prom = ?, prom2abs = ?, abs2meta = ?, \"\n"
         "                              \"var_settings = ?, conns = ?\","),
    Twin('twin-started-add-early', REC, "\n        self._started.add(recording_requester)\n", "\n",
         also=[(REC, "        states = system._list_states_allprocs()\n",
                "        self._started.add(recording_requester)\n        states = system._list_states_allprocs()\n")]),
    Twin('twin-connect-deferred', REC, "self.connection = sqlite3.connect(filepath)",
         "self.connection = sqlite3.connect(filepath, isolation_level='DEFERRED')"),
    Twin('twin-reader-connect-str', RDR, "        with sqlite3.connect(filename) as con:",
         "        with sqlite3.connect(str(filename)) as con:"),
    Twin('twin-reader-uri-rw', RDR, "        with sqlite3.connect(metadata_filename) as con:",
         "        with sqlite3.connect(f'file:{metadata_filename}?mode=rw', uri=True) as con:"),
    Twin('twin-global-insert-helper', REC, _DRV_GLOB,
         "                self._insert_global_iteration(c, 'driver', driver._get_name())",
         also=[_HELPER_DEF,
               (REC, _PROB_GLOB, "                self._insert_global_iteration(c, 'problem', metadata['name'])"),
               (REC, "                c.execute(\"INSERT INTO global_iterations(record_type, rowid, source) VALUES(?,?,?)\",\n"
                     "                          ('system', c.lastrowid, source_system))",
                "                self._insert_global_iteration(c, 'system', source_system)"),
               (REC, "                c.execute(\"INSERT INTO global_iterations(record_type, rowid, source) VALUES(?,?,?)\",\n"
                     "                          ('solver', c.lastrowid, source_solver))",
                "                self._insert_global_iteration(source=source_solver, record_type='solver', cursor=c)")]),
    Twin('twin-whole-pair-helper', REC, _DRV_WHOLE_OLD, _DRV_WHOLE_CALL,
         also=[(REC, _HELPER_AT, _WHOLE_HELPER + _HELPER_AT)]),
    Twin('twin-precheck-startswith', RU, "    if header[:16] != b'SQLite format 3\\x00':",
         "    if not header.startswith(b'SQLite format 3\\x00'):"),
    Twin('twin-precheck-size-local', RU, "    if os.path.getsize(filename) < 100:",
         "    nbytes = os.path.getsize(filename)\n    if 100 > nbytes:"),
    Twin('twin-precheck-exists', RU, "    if not os.path.isfile(filename):",
         "    if not (os.path.exists(filename) and os.path.isfile(filename)):"),
    Twin('twin-delete-loop-over-tables', REC, _DELETES,
         "        connection = self.connection\n        if not connection:\n            return\n\n"
         "        for table in ('global_iterations', 'driver_iterations', 'driver_derivatives',\n"
         "                      'problem_cases', 'system_iterations', 'solver_iterations',\n"
         "                      'driver_metadata', 'system_metadata', 'solver_metadata'):\n"
         "            connection.execute(\"DELETE FROM \" + table)\n"),
    Twin('twin-precheck-locals', RU, "    if os.path.getsize(filename) < 100:",
         "    header_size = 100\n    if header_size > os.path.getsize(filename):",
         also=[(RU, "    if header[:16] != b'SQLite format 3\\x00':",
                "    magic = header[:16]\n    if not magic == b'SQLite format 3\\x00':"),
               (RU, "        header = fd.read(100)", "        header = fd.read(header_size)")]),
    Twin('twin-precheck-read-helper', RU,
         "    with open(filename, 'rb') as fd:\n        header = fd.read(100)\n\n"
         "    if header[:16] != b'SQLite format 3\\x00':",
         "    magic = b'SQLite format 3\\x00'\n    header = _read_leading_bytes(filename, 100)\n\n"
         "    if not header[:len(magic)] == magic:",
         also=[_READ_HELPER]),
    Twin('twin-select-between', REC, _SYS_SRC,
         _SYS_SRC + "                c.execute(\"SELECT count(*) FROM system_iterations\")\n\n"),
)
