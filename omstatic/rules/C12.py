"""C12 -- FD and complex-step approximations are faithful and side-effect free.

Structural clauses only (the truncation-error statement is numeric and is not decided here):

* state discipline: snapshots are copies of the right vector, taken before the approximations start,
  every vector is restored from *its own* snapshot on every normal path, the perturbation is removed
  by the mirror operation, mode flags are reset on the exceptional path too, results are captured by
  copy after the run and before the restore;
* formula discipline: the FD coefficient table satisfies the moment conditions (exact rational
  arithmetic), the (deltas, coeffs, current_coeff) triple has step-degree (+1, -1, -1) and is built from
  the matching table fields with one and the same step value, every accepted ``step_calc`` literal is
  dispatched, relative steps are clamped, the complex-step multiplier undoes the imaginary step;
* iteration discipline: slots of the data triple / approximation-group tuples are consumed in the
  order they are produced, the FD accumulation initialises and accumulates on every path, the coloured
  scatter zeroes its buffer and uses one row mask on both sides, the transform -> multiplier pipeline is
  the same in the coloured and the uncoloured iterator, total approximations run with the seeds of
  the perturbed variable active.
"""
import ast
from fractions import Fraction

from .. import astx, cfg as cfgm
from ..core import AnalysisError
from ..engine import rule, describe, selftest, Mutant, Twin

FD = 'openmdao/approximation_schemes/finite_difference.py'
CS = 'openmdao/approximation_schemes/complex_step.py'
AS = 'openmdao/approximation_schemes/approximation_scheme.py'
VECS = ('_inputs', '_outputs', '_residuals')

describe('C12',
         'Decides structural necessary conditions of "approximations are faithful and side-effect free": '
         'FiniteDifference snapshots inputs/outputs/residuals by copy before the first point and restores '
         'each from its own snapshot after every point; ComplexStep removes its perturbation with the mirror '
         'isub loop, saves/restores the three vectors around the whole sweep, resets outputs between points '
         'and clears imaginary parts; FD / CS mode flags are switched off on normal, exceptional and '
         'generator-close continuations; results are captured by copy from outputs (total) / residuals '
         '(partial) after the run and before the undo; FD_COEFFS satisfies the Taylor moment conditions '
         'exactly; the data triple has step degree (+1,-1,-1), uses the matching table field with unit factor '
         'and the same step value in all three slots; every accepted step_calc literal is dispatched, "abs" '
         'is never rescaled, relative steps are clamped by minimum_step and an elementwise step only meets '
         'the outer-product formulas; the CS multiplier times the imaginary step is exactly one; FD '
         'accumulation, coloured scatter, transform/multiplier pipeline, tuple slots and seeds_active '
         'consistency are checked on the iterators; the result buffer handed to _run_point is a private copy; '
         'approximation data shared by all colour groups must not depend on the wrt variable (violated today by '
         'FiniteDifference with relative step_calc -- see /tmp/c12_colored_relstep_defect.py). Does not decide '
         'truncation error or round-off.',
         ['run_solve_nonlinear / run_apply_nonlinear are opaque',
          'Vector.set_val / iadd / isub / asarray have the semantics of vectors/default_vector.py',
          'exceptional paths out of a perturbed run are not required to restore the vectors'])


# =========================================================================== helpers
def _params(fn):
    a = fn.node.args
    return [x.arg for x in a.posonlyargs + a.args]


class Ctx:
    """A function with its CFG, reaching definitions and the name of its `system` parameter."""

    def __init__(self, fn, sys_index=1):
        self.fn = fn
        self.g = cfgm.build(fn)
        self.rd = cfgm.ReachingDefs(self.g)
        ps = _params(fn)
        if len(ps) <= sys_index:
            raise AnalysisError(f'{fn.ident}: no system parameter')
        self.sys = ps[sys_index]
        self.params = ps

    # ---- resolution through single-assignment local aliases
    def single_def(self, at, name):
        """(value expr, def node) if exactly one plain `name = value` reaches *at*, else None."""
        ds = self.rd.defs(at, name)
        if len(ds) != 1:
            return None
        d = next(iter(ds))
        if d.kind == 'stmt' and isinstance(d.ast, ast.Assign) and len(d.ast.targets) == 1 and \
                astx.path(d.ast.targets[0]) == name:
            return d.ast.value, d
        return None

    def resolve(self, e, at, depth=0):
        """Follow Name -> unique defining expression (at most 4 hops)."""
        while isinstance(e, ast.Name) and depth < 4:
            sd = self.single_def(at, e.id)
            if sd is None:
                break
            e, at = sd
            depth += 1
        return e, at

    def roots(self, e, at, roles, region=None):
        """Role names that expression e (evaluated at node at) is built from, through local temporaries."""
        found = set()
        todo = [(e, at)]
        seen = set()
        while todo:
            x, a = todo.pop()
            for nm in _data_names(x):
                if nm in roles:
                    found.add(nm)
                    continue
                for d in self.rd.defs(a, nm):
                    if d in seen or (region is not None and d not in region):
                        continue
                    seen.add(d)
                    if d.kind == 'stmt' and isinstance(d.ast, ast.Assign):
                        todo.append((d.ast.value, d))
                    elif d.kind == 'stmt' and isinstance(d.ast, ast.AugAssign):
                        todo.append((d.ast.value, d))
                        todo.append((d.ast.target, d))
        return found

    def slot_of(self, name, at, exclude=()):
        """(source key, position) when *name* is element <position> of a tuple: bound by tuple-unpacking
        (`a, b = SRC`, `for a, b in ITER`) or by constant indexing (`x = SRC[k]`, `g = SRC; x = g[k]`)."""
        ds = self.rd.defs(at, name) - set(exclude)
        if len(ds) != 1:
            return None
        d = next(iter(ds))

        def src_key(expr, node):
            return ('src', _dump(expr), tuple(sorted((nm, tuple(sorted(x.id for x in self.rd.defs(node, nm))))
                                                     for nm in astx.names(expr))))
        if d.kind == 'iter' and isinstance(d.ast.target, ast.Tuple):
            for i, t in enumerate(d.ast.target.elts):
                if isinstance(t, ast.Name) and t.id == name:
                    return ('iter', d.id), i
            return None
        if d.kind == 'stmt' and isinstance(d.ast, ast.Assign) and len(d.ast.targets) == 1:
            t, v = d.ast.targets[0], d.ast.value
            if isinstance(t, ast.Tuple):
                for i, x in enumerate(t.elts):
                    if isinstance(x, ast.Name) and x.id == name:
                        v2, at2 = self.resolve(v, d)
                        return src_key(v2, at2), i
                return None
            if isinstance(t, ast.Name) and isinstance(v, ast.Subscript) and isinstance(v.slice, ast.Constant) and \
                    isinstance(v.slice.value, int):
                v2, at2 = self.resolve(v.value, d)
                return src_key(v2, at2), v.slice.value
        return None

    def vec(self, e, at):
        """'_inputs' / '_outputs' / '_residuals' if *e* denotes that vector of the system, else None."""
        e, at = self.resolve(e, at)
        p = astx.path(e)
        if p and p.startswith(self.sys + '.') and p[len(self.sys) + 1:] in VECS:
            return p[len(self.sys) + 1:]
        return None

    def vec_any(self, e, at):
        """Like vec(), but also `A if c else B` over two system vectors (rendered '_outputs|_residuals')."""
        v = self.vec(e, at)
        if v:
            return v
        r, at2 = self.resolve(e, at)
        if isinstance(r, ast.IfExp):
            a, b = self.vec(r.body, at2), self.vec(r.orelse, at2)
            if a and b:
                return f'{a}|{b}'
        return None

    def view(self, e, at, depth=0):
        """(vector, copied) if *e* is an array view / copy of a system vector's data, else None.

        copied is True (independent copy), False (aliases the live data) or None (cannot tell).
        """
        if depth > 6:
            return None
        if isinstance(e, ast.Name):
            sd = self.single_def(at, e.id)
            return self.view(sd[0], sd[1], depth + 1) if sd else None
        if isinstance(e, ast.Attribute):
            if e.attr == '_data':
                v = self.vec(e.value, at)
                return (v, False) if v else None
            if e.attr in ('real', 'imag', 'T', 'flat'):
                return self.view(e.value, at, depth + 1)
            return None
        if isinstance(e, ast.Call):
            nm = astx.callee_attr(e)
            rc = astx.receiver(e)
            if rc is not None and nm == 'asarray' and self.vec_any(rc, at):
                c = astx.arg(e, 0, 'copy')
                if c is None:
                    return self.vec_any(rc, at), False
                if isinstance(c, ast.Constant):
                    return self.vec_any(rc, at), bool(c.value)
                return self.vec_any(rc, at), None
            if rc is not None and nm == '_get_data' and not e.args and self.vec_any(rc, at):
                return self.vec_any(rc, at), False
            if rc is not None and nm == 'copy' and not e.args:
                v = self.view(rc, at, depth + 1)
                return (v[0], True) if v else None
            cn = astx.call_name(e)
            if cn in ('np.array', 'numpy.array', 'np.copy', 'numpy.copy') and e.args:
                v = self.view(e.args[0], at, depth + 1)
                if v is None:
                    return None
                c = astx.kwarg(e, 'copy')
                if c is not None and not (isinstance(c, ast.Constant) and c.value is True):
                    return v[0], None
                return v[0], True
            if cn in ('np.asarray', 'numpy.asarray', 'np.real', 'np.ascontiguousarray') and e.args:
                return self.view(e.args[0], at, depth + 1)
        return None


def _dump(n):
    """Structural key of an AST node (no deep copy: astx.dump copies the whole module through _parent links).

    Comparison direction is normalised (a > b == b < a), -<number> is a constant, ctx is ignored.
    """
    if isinstance(n, list):
        return '[' + ','.join(_dump(x) for x in n) + ']'
    if not isinstance(n, ast.AST):
        return repr(n)
    if isinstance(n, ast.Compare) and len(n.ops) == 1 and isinstance(n.ops[0], (ast.Gt, ast.GtE)):
        op = 'Lt' if isinstance(n.ops[0], ast.Gt) else 'LtE'
        return f'Compare({_dump(n.comparators[0])},[{op}()],[{_dump(n.left)}])'
    if isinstance(n, ast.UnaryOp) and isinstance(n.op, ast.USub) and _num(n.operand) is not None:
        return f'Constant({-_num(n.operand)!r})'
    parts = [_dump(getattr(n, f, None)) for f in n._fields if f not in ('ctx', 'kind', 'type_comment')]
    return f'{type(n).__name__}(' + ','.join(parts) + ')'


def _lt(e):
    """(left, right, strict) of a single `<`/`<=` comparison after direction normalisation, else None."""
    if isinstance(e, ast.Compare) and len(e.ops) == 1:
        op = e.ops[0]
        if isinstance(op, (ast.Lt, ast.LtE)):
            return e.left, e.comparators[0], isinstance(op, ast.Lt)
        if isinstance(op, (ast.Gt, ast.GtE)):
            return e.comparators[0], e.left, isinstance(op, ast.Gt)
    return None


def _data_names(e):
    """Names whose *value* flows into e (tests of conditional expressions only select, they do not flow)."""
    out = set()
    todo = [e]
    while todo:
        x = todo.pop()
        if isinstance(x, ast.Name):
            out.add(x.id)
        elif isinstance(x, ast.IfExp):
            todo += [x.body, x.orelse]
        elif isinstance(x, (ast.Lambda, ast.FunctionDef)):
            continue
        else:
            todo += [c for c in ast.iter_child_nodes(x)]
    return out


def _aug(st, name):
    """(op type, operand) if statement st is `name op= e`, `name = name op e` or (commutative) `name = e op name`."""
    if isinstance(st, ast.AugAssign) and isinstance(st.target, ast.Name) and st.target.id == name:
        return type(st.op), st.value
    if isinstance(st, ast.Assign) and len(st.targets) == 1 and isinstance(st.targets[0], ast.Name) and \
            st.targets[0].id == name and isinstance(st.value, ast.BinOp):
        b = st.value
        if isinstance(b.left, ast.Name) and b.left.id == name and name not in astx.names(b.right):
            return type(b.op), b.right
        if isinstance(b.right, ast.Name) and b.right.id == name and isinstance(b.op, (ast.Add, ast.Mult)) and \
                name not in astx.names(b.left):
            return type(b.op), b.left
    return None


def _arms(e):
    """Alternatives of a (nested) conditional expression; [e] for anything else."""
    if isinstance(e, ast.IfExp):
        return _arms(e.body) + _arms(e.orelse)
    return [e]


def _callee_func(fn, call):
    """core.Func of a module-level helper / same-class method called by `call` inside function fn, else None."""
    f = call.func
    if isinstance(f, ast.Name):
        return fn.module.funcs.get(f.id)
    if isinstance(f, ast.Attribute) and astx.path(f.value) == 'self' and fn.cls is not None:
        return fn.module.funcs.get(f'{fn.cls.name}.{f.attr}')
    return None


def _helper_return_elts(fn, call, pos, arity):
    """(helper Func, [(return stmt, element expr)]) for element `pos` of the tuples returned by a local helper."""
    hf = _callee_func(fn, call)
    if hf is None:
        return None, []
    out = []
    for st in astx.walk_stmts(hf.node.body):
        if isinstance(st, ast.Return):
            if not (isinstance(st.value, ast.Tuple) and len(st.value.elts) == arity):
                return hf, None
            out.append((st, st.value.elts[pos]))
    return hf, out


def _calls_deep(fn):
    """Calls in fn and, one level down, in the local helpers it calls."""
    cs = list(astx.calls(fn.node))
    for c in list(cs):
        hf = _callee_func(fn, c)
        if hf is not None and hf.node is not fn.node:
            cs += astx.calls(hf.node)
    return cs


def _snap_source(cx, e, at, depth=0):
    """(access path, node where it was read) of the value held by expression e at node `at`.

    Follows plain local definitions, tuple packing/unpacking (`saved = (a, b); x, y = saved`) and local aliases
    of containers (`cur = self._seed_vars; cur['fwd']`).  (None, None) when not recognised.
    """
    if depth > 8:
        return None, None
    if isinstance(e, ast.Name):
        ds = cx.rd.defs(at, e.id)
        if len(ds) != 1:
            return None, None
        d = next(iter(ds))
        if not (d.kind == 'stmt' and isinstance(d.ast, ast.Assign) and len(d.ast.targets) == 1):
            return None, None
        t, v = d.ast.targets[0], d.ast.value
        if isinstance(t, ast.Name):
            return _snap_source(cx, v, d, depth + 1)
        if isinstance(t, ast.Tuple):
            idx = [i for i, x in enumerate(t.elts) if isinstance(x, ast.Name) and x.id == e.id]
            tup, tat = v, d
            hops = 0
            while isinstance(tup, ast.Name) and hops < 4:
                sd = cx.single_def(tat, tup.id)
                if sd is None:
                    return None, None
                tup, tat = sd
                hops += 1
            if len(idx) == 1 and isinstance(tup, ast.Tuple) and len(tup.elts) == len(t.elts):
                return _snap_source(cx, tup.elts[idx[0]], tat, depth + 1)
        return None, None
    if isinstance(e, ast.Subscript) and isinstance(e.slice, ast.Constant):
        bp, _ = _snap_source(cx, e.value, at, depth + 1) if isinstance(e.value, ast.Name) else (astx.path(e.value), at)
        if isinstance(e.value, ast.Name) and bp is None and not cx.rd.defs(at, e.value.id) - {cx.g.entry}:
            bp = e.value.id
        return (f'{bp}[{e.slice.value!r}]', at) if bp else (None, None)
    p = astx.path(e)
    return (p, at) if p else (None, None)


def _restores_inlined(cx, fn, make_src_of):
    """_restores of cx plus calls of same-class helper methods that restore a vector on every normal path."""
    good, odd = _restores(cx, make_src_of(cx))
    for n in cx.g.nodes:
        if n.kind != 'stmt' or not (isinstance(n.ast, ast.Expr) and isinstance(n.ast.value, ast.Call)):
            continue
        c = n.ast.value
        hf = _callee_func(fn, c)
        if hf is None or hf.node is fn.node:
            continue
        pos = [i for i, a in enumerate(c.args) if isinstance(a, ast.Name) and a.id == cx.sys]
        hps = _params(hf)
        if len(pos) != 1 or pos[0] + 1 >= len(hps) or c.keywords:
            continue
        try:
            hcx = Ctx(hf, sys_index=pos[0] + 1)
        except AnalysisError:
            continue
        if any(isinstance(w, (ast.Yield, ast.YieldFrom)) for w in astx.walk(hf.node)):
            continue
        hgood, hodd = _restores(hcx, make_src_of(hcx))
        odd += [(n, n.ast, why) for _, _, why in hodd]
        for V in VECS:
            hv = [x for x in hgood if x[1] == V]
            if hv and hcx.g.path([hcx.g.entry], [hcx.g.exit], avoid=[x[0] for x in hv], labels=cfgm.noexc) is None:
                for x in hv:
                    good.append((n, V, x[2], x[3]))
    return good, odd


def _real_defs(ds):
    """Reaching definitions without `name = None` placeholders."""
    return {d for d in ds if not (d.kind == 'stmt' and isinstance(d.ast, ast.Assign) and _const(d.ast.value, None))}


def _is_full_slice(s):
    if isinstance(s, ast.Slice) and s.lower is None and s.upper is None and s.step is None:
        return True
    return isinstance(s, ast.Constant) and s.value is Ellipsis


def _const(e, value):
    return isinstance(e, ast.Constant) and e.value is value


def _num(e):
    """Numeric value of a (possibly negated) literal, else None."""
    if isinstance(e, ast.Constant) and isinstance(e.value, (int, float)) and not isinstance(e.value, bool):
        return e.value
    if isinstance(e, ast.UnaryOp) and isinstance(e.op, (ast.USub, ast.UAdd)):
        v = _num(e.operand)
        if v is not None:
            return -v if isinstance(e.op, ast.USub) else v
    return None


def _call_nodes(g, pred):
    """[(node, call)] for every call in the CFG satisfying pred(call)."""
    out = []
    for n in g.nodes:
        if n.kind in ('entry', 'exit', 'raise', 'join'):
            continue
        for c in n.calls():
            if pred(c):
                out.append((n, c))
    return out


def _path_edges(g, starts, targets, avoid, allowed):
    """Witness path from starts to targets avoiding nodes, using only edges allowed(a, label); or None."""
    avoid = set(avoid)
    targets = set(targets)
    par = {}
    todo = []
    for s_ in starts:
        if s_ not in avoid and s_ not in par:
            par[s_] = None
            todo.append(s_)
    i = 0
    while i < len(todo):
        a = todo[i]
        i += 1
        if a in targets:
            p = []
            while a is not None:
                p.append(a)
                a = par[a]
            return p[::-1]
        for m, lab in g.succ[a]:
            if m in avoid or m in par or not allowed(a, lab):
                continue
            par[m] = a
            todo.append(m)
    return None


def _has_yield(n):
    for e in n.exprs():
        for w in astx.walk(e):
            if isinstance(w, (ast.Yield, ast.YieldFrom)):
                return True
    return False


def _restores(cx, src_of):
    """Restore statements `system.V.set_val(S)` / `<view of V>[:] = S`.

    src_of(expr, node) -> key of the snapshot the value comes from (or None).
    Returns ([(node, V, key, stmt)], [(node, stmt, why)] unrecognised-but-relevant).
    """
    good, odd = [], []
    for n in cx.g.nodes:
        if n.kind != 'stmt':
            continue
        st = n.ast
        if isinstance(st, ast.Expr) and isinstance(st.value, ast.Call):
            c = st.value
            if astx.callee_attr(c) == 'set_val' and astx.receiver(c) is not None:
                v = cx.vec(astx.receiver(c), n)
                if v is None:
                    continue
                val = astx.arg(c, 0, 'val')
                key = src_of(val, n) if val is not None else None
                if key is None:
                    continue  # not a restore from a snapshot (e.g. a plain value write)
                if len(c.args) + len(c.keywords) != 1:
                    odd.append((n, st, f'partial set_val on {v}'))
                    continue
                good.append((n, v, key, st))
        elif isinstance(st, ast.Assign) and len(st.targets) == 1 and isinstance(st.targets[0], ast.Subscript):
            t = st.targets[0]
            vw = cx.view(t.value, n)
            if vw is None or vw[1] is not False:
                continue
            key = src_of(st.value, n)
            if key is None:
                continue
            if not _is_full_slice(t.slice):
                odd.append((n, st, f'partial store into {vw[0]}'))
                continue
            good.append((n, vw[0], key, st))
    return good, odd


# =========================================================================== C12.fd-restore
@rule('C12.fd-restore', floor=3)
def fd_restore(repo, out):
    """FD: inputs, outputs and residuals are snapshotted by copy before the sweep and each is restored from its own snapshot after every perturbed run."""
    fc = repo.func(FD, 'FiniteDifference.compute_approx_col_iter')
    fr = repo.func(FD, 'FiniteDifference._run_sub_point')
    cc, cr = Ctx(fc), Ctx(fr)
    # snapshots: self.X = <view/copy of V>
    snaps = {}
    for n in cc.g.nodes:
        if n.kind == 'stmt' and isinstance(n.ast, ast.Assign):
            vw = cc.view(n.ast.value, n)
            if vw is None:
                continue
            for t in n.ast.targets:
                p = astx.path(t)
                if p and p.startswith('self.'):
                    snaps.setdefault(p, []).append((vw[0], vw[1], n))
    drive = [n for n in cc.g.nodes if n.kind not in ('entry', 'exit', 'raise', 'join') and
             any(astx.callee_attr(c) == '_compute_approx_col_iter' for c in n.calls())]
    if not drive:
        raise AnalysisError(f'{fc.ident}: no call of _compute_approx_col_iter')
    # a second attribute bound to a snapshot without a copy must never be written through
    aliased = {}
    for n in cc.g.nodes:
        if n.kind == 'stmt' and isinstance(n.ast, ast.Assign):
            v, _ = cc.resolve(n.ast.value, n)
            pv = astx.path(v)
            if pv in snaps:
                for t in n.ast.targets:
                    pt = astx.path(t)
                    if pt and pt.startswith('self.') and pt != pv:
                        aliased[pt] = (pv, n)
    if aliased:
        for f2 in repo.module(FD).funcs.values():
            if f2.cls is not fc.cls:
                continue
            for st in astx.walk_stmts(f2.node.body):
                for t in astx.assigned_targets(st):
                    base = t.value if isinstance(t, ast.Subscript) else (t if isinstance(st, ast.AugAssign) else None)
                    pb = astx.path(base) if base is not None else None
                    if pb in aliased:
                        pv, an = aliased[pb]
                        V = snaps[pv][0][0]
                        out.bad(fc, an.ast, f'{pb} is bound to the snapshot {pv} without a copy and is written in '
                                f'{f2.qualname} (`{astx.src(st)}`): the snapshot of system.{V} is overwritten and the '
                                f'restore writes back perturbed values', key=f'restore{V}')
                        return

    def make_src_of(cxx):
        def src_of(e, at):
            e2, _ = cxx.resolve(e, at)
            p = astx.path(e2)
            return p if p and p.startswith('self.') else None
        return src_of
    rest, odd = _restores_inlined(cr, fr, make_src_of)
    for n, st, why in odd:
        out.unsure(fr, st, why)
    runs = [n for n, c in _call_nodes(cr.g, lambda c: astx.callee_attr(c) in
                                      ('run_solve_nonlinear', 'run_apply_nonlinear', 'iadd'))]
    if not any(astx.callee_attr(c) != 'iadd' for n in runs for c in n.calls()):
        raise AnalysisError(f'{fr.ident}: no run_solve_nonlinear/run_apply_nonlinear call')
    starts = [m for r in runs for m in cr.g.normal_succ(r)]
    for V in VECS:
        rs = [x for x in rest if x[1] == V]
        w = cr.g.path(starts, [cr.g.exit], avoid=[x[0] for x in rs], labels=cfgm.noexc)
        if w is not None:
            out.bad(fr, rs[0][3] if rs else fr.node,
                    f'system.{V} is not restored from its snapshot after the perturbed run on the path '
                    f'{cr.g.fmt_path(w)}: the approximation leaves {V} modified', key=f'restore{V}')
            continue
        verdict = None
        for n, _, key, st in rs:
            ent = snaps.get(key)
            if not ent:
                verdict = (st, f'system.{V} is restored from {key}, which is not a snapshot of a system vector '
                           f'taken in compute_approx_col_iter')
                break
            wrong = [e for e in ent if e[0] != V]
            if wrong:
                verdict = (st, f'system.{V} is restored from {key}, which holds the snapshot of system.{wrong[0][0]}')
                break
            alias = [e for e in ent if e[1] is False]
            if alias:
                verdict = (alias[0][2].ast, f'{key} aliases the live data of system.{V} (no copy): restoring from it '
                           f'is a no-op and {V} keeps the perturbed values')
                break
            if any(e[1] is None for e in ent):
                out.unsure(fc, ent[0][2].ast, f'cannot tell whether {key} is a copy')
                verdict = 'unsure'
                break
            snodes = [e[2] for e in ent]
            for y in drive:
                ds = cc.rd.defs(y, key)
                if not ds or not ds <= set(snodes) or cc.g.dominated_by(y, snodes) is not None:
                    verdict = (snodes[0].ast, f'{key} does not hold the snapshot of system.{V} when the '
                               f'approximations start (taken late, conditionally, or overwritten)')
                    break
            if verdict:
                break
        if verdict == 'unsure':
            continue
        if verdict:
            out.bad(fr if verdict[0] in [x[3] for x in rs] else fc, verdict[0], verdict[1], key=f'restore{V}')
        else:
            out.ok(fr, rs[0][3], f'{V}: copied to {rs[0][2]} before the sweep, restored on every normal path '
                   f'after perturbation/run')


# =========================================================================== C12.capture
def _total_param(repo, which):
    """Name of the parameter that carries the total/partial flag in the analysed function."""
    if which == 'cs':
        fn = repo.func(CS, 'ComplexStep._run_point')
        ps = _params(fn)
        if len(ps) < 6:
            raise AnalysisError(f'{fn.ident}: signature changed')
        return fn, ps[5]
    rp = repo.func(FD, 'FiniteDifference._run_point')
    ps = _params(rp)
    if len(ps) < 6:
        raise AnalysisError(f'{rp.ident}: signature changed')
    flag = ps[5]
    fn = repo.func(FD, 'FiniteDifference._run_sub_point')
    sub = _params(fn)
    names = set()
    for c in astx.calls(rp.node):
        if astx.callee_attr(c) == '_run_sub_point' and astx.path(astx.receiver(c)) == 'self':
            for i, a in enumerate(c.args):
                if isinstance(a, ast.Name) and a.id == flag and i + 1 < len(sub):
                    names.add(sub[i + 1])
            for k in c.keywords:
                if isinstance(k.value, ast.Name) and k.value.id == flag and k.arg in sub:
                    names.add(k.arg)
    if len(names) != 1:
        raise AnalysisError(f'{rp.ident}: cannot see how the total flag is passed to _run_sub_point')
    return fn, names.pop()


@rule('C12.capture', floor=4)
def capture(repo, out):
    """Results are captured by copy from outputs after run_solve_nonlinear (total) / from residuals after run_apply_nonlinear (partial), before the state is undone."""
    for which in ('fd', 'cs'):
        fn, flag = _total_param(repo, which)
        cx = Ctx(fn)
        g = cx.g
        ifs = []
        for st in astx.walk_stmts(fn.node.body):
            if isinstance(st, ast.If):
                nm = {astx.callee_attr(c) for c in astx.calls(st)}
                if nm & {'run_solve_nonlinear', 'run_apply_nonlinear'} and \
                        not any(isinstance(s2, ast.If) and s2 is not st and astx.in_body(s2, st, 'body') |
                                astx.in_body(s2, st, 'orelse') and
                                {astx.callee_attr(c) for c in astx.calls(s2)} &
                                {'run_solve_nonlinear', 'run_apply_nonlinear'}
                                for s2 in astx.walk_stmts([st])):
                    ifs.append(st)
        if len(ifs) != 1:
            raise AnalysisError(f'{fn.ident}: expected one if/else around the run calls, found {len(ifs)}')
        st = ifs[0]
        t = st.test
        if isinstance(t, ast.Name) and t.id == flag:
            arms = ((True, st.body), (False, st.orelse))
        elif isinstance(t, ast.UnaryOp) and isinstance(t.op, ast.Not) and isinstance(t.operand, ast.Name) \
                and t.operand.id == flag:
            arms = ((True, st.orelse), (False, st.body))
        else:
            out.unsure(fn, st, f'run branch is not a test of the total flag `{flag}`')
            continue
        if cx.rd.defs(g.nodes_of(st)[0], flag) != {g.entry}:
            out.unsure(fn, st, f'`{flag}` is reassigned before the run branch')
            continue
        # undo nodes: restores (FD) and isub calls (CS)
        rest, _ = _restores_inlined(cx, fn, lambda cxx: (lambda e, at: astx.path(cxx.resolve(e, at)[0]) if
                                                          (astx.path(cxx.resolve(e, at)[0]) or '').startswith('self.')
                                                          else None))
        undo = {V: [x[0] for x in rest if x[1] == V] for V in VECS}
        isubs = [n for n, c in _call_nodes(g, lambda c: astx.callee_attr(c) == 'isub')]
        for total, arm in arms:
            want_run = 'run_solve_nonlinear' if total else 'run_apply_nonlinear'
            other = 'run_apply_nonlinear' if total else 'run_solve_nonlinear'
            want_vec = '_outputs' if total else '_residuals'
            label = 'total' if total else 'partial'
            runs, caps = [], []
            for s2 in astx.walk_stmts(arm):
                for n in g.nodes_of(s2):
                    for c in n.calls():
                        if astx.callee_attr(c) in (want_run, other) and cx.vec(astx.receiver(c), n) is None \
                                and astx.path(astx.receiver(c)) == cx.sys:
                            runs.append((n, astx.callee_attr(c)))
                    if n.kind == 'stmt' and isinstance(s2, ast.Assign):
                        vw = cx.view(s2.value, n)
                        if vw is not None:
                            caps.append((n, vw, s2))
            key = f'{label}-branch'
            wrong = [r for r in runs if r[1] != want_run]
            if wrong or not runs:
                out.bad(fn, (wrong[0][0].ast if wrong else st),
                        f'the {label} branch must call {cx.sys}.{want_run}() '
                        f'(found {[r[1] for r in runs] or "no run call"})', key=key)
                continue
            if not caps:
                out.bad(fn, st, f'the {label} branch does not capture {cx.sys}.{want_vec} after the run', key=key)
                continue
            bad = None
            for n, (V, copied), s2 in caps:
                if V != want_vec:
                    bad = (s2, f'the {label} branch captures {cx.sys}.{V}; the {label} derivative is read from '
                           f'{cx.sys}.{want_vec}')
                    break
                if g.dominated_by(n, [r[0] for r in runs], labels=cfgm.noexc) is not None:
                    bad = (s2, f'{V} is captured before {want_run}() has run')
                    break
                tgt = s2.targets[0] if len(s2.targets) == 1 else None
                copying = copied is True or (isinstance(tgt, ast.Subscript) and _is_full_slice(tgt.slice))
                if not copying:
                    if copied is None or not isinstance(tgt, (ast.Name, ast.Attribute)):
                        out.unsure(fn, s2, 'cannot tell whether the result capture copies')
                        bad = 'unsure'
                        break
                    bad = (s2, f'the result aliases the live data of {cx.sys}.{V}; the following restore / '
                           f'perturbation removal overwrites the captured values')
                    break
                late = [u for u in undo[V] + isubs if g.path(g.normal_succ(u), [n], labels=cfgm.noexc)]
                if late:
                    bad = (s2, f'{V} is captured after the state has been undone ({astx.src(late[0].ast)})')
                    break
            if bad == 'unsure':
                continue
            if bad:
                out.bad(fn, bad[0], bad[1], key=key)
            else:
                out.ok(fn, caps[0][2], f'{label}: {want_run}() then copy of {want_vec}, before any undo')


# =========================================================================== C12.mode
@rule('C12.mode', floor=2)
def mode(repo, out):
    """The FD / CS mode flag is switched on before the column iteration and switched off on every continuation (normal, exception, generator close)."""
    for rel, qn, setter in ((FD, 'FiniteDifference.compute_approx_col_iter', '_set_finite_difference_mode'),
                            (CS, 'ComplexStep.compute_approx_col_iter', '_set_complex_step_mode')):
        fn = repo.func(rel, qn)
        cx = Ctx(fn)
        g = cx.g
        on, off, odd = [], [], []
        for n, c in _call_nodes(g, lambda c: astx.callee_attr(c) == setter):
            a = astx.arg(c, 0, 'active')
            if astx.path(astx.receiver(c)) != cx.sys or a is None:
                odd.append(n)
            elif _const(a, True):
                on.append(n)
            elif _const(a, False):
                off.append(n)
            else:
                odd.append(n)
        if odd:
            out.unsure(fn, odd[0].ast, f'unrecognised {setter} call')
            continue
        key = setter.strip('_')
        drive = [n for n in g.nodes if n.kind not in ('entry', 'exit', 'raise', 'join') and
                 any(astx.callee_attr(c) == '_compute_approx_col_iter' and astx.path(astx.receiver(c)) == 'self'
                     for c in n.calls())]
        if not drive:
            raise AnalysisError(f'{fn.ident}: no call of self._compute_approx_col_iter')
        if not on:
            out.bad(fn, drive[0].ast, f'{setter}(True) is never called: the approximation runs outside the mode',
                    key=key)
            continue
        problem = None
        for d in drive:
            w = g.dominated_by(d, on)
            if w is not None:
                problem = (d.ast, f'the column iteration can start without {setter}(True): {g.fmt_path(w)}')
                break
            w = g.path([m for o in off for m in g.normal_succ(o)], [d])
            if w is not None:
                problem = (d.ast, f'the column iteration continues after {setter}(False)')
                break
        if problem is None:
            for o in on:
                starts = [m for m, lab in g.succ[o] if lab != 'exc']
                w = g.must_pass(starts, [g.exit, g.raise_exit], off)
                if w is not None:
                    kind = 'an exception or generator close' if w[-1] is g.raise_exit else 'a normal return'
                    problem = (o.ast, f'{setter}(True) is not undone on {kind}: {g.fmt_path(w)}; the system '
                               f'stays in the approximation mode')
                    break
        if problem:
            out.bad(fn, problem[0], problem[1], key=key)
        else:
            out.ok(fn, on[0].ast, f'{setter}(True) dominates the iteration; (False) on all continuations '
                   f'({len(off)} copies incl. finally)')


# =========================================================================== C12.cs-mirror
def _perturb_sig(cx, n, c):
    """Signature of a `vec.iadd/isub(delta, idxs)` call: loop iterable/target, guards, receiver, args."""
    loops = [a for a in astx.ancestors(c) if isinstance(a, (ast.For, ast.While))]
    loop = loops[0] if loops else None
    guards = []
    for a in astx.ancestors(c):
        if a is loop:
            break
        if isinstance(a, ast.If):
            st = astx.stmt_of(c)
            pos = astx.in_body(st, a, 'body')
            guards.append(('' if pos else 'not ') + _dump(a.test))
    return (_dump(loop.iter) if isinstance(loop, ast.For) else None,
            _dump(loop.target) if isinstance(loop, ast.For) else None,
            tuple(sorted(guards)), _dump(astx.receiver(c)),
            tuple(_dump(a) for a in c.args), tuple(sorted((k.arg or '', _dump(k.value)) for k in c.keywords)))


@rule('C12.cs-mirror', floor=1)
def cs_mirror(repo, out):
    """CS: the iadd(delta, idxs) perturbation before the run is mirrored by isub with the same loop, guard, receiver and arguments on every normal path after it."""
    fn = repo.func(CS, 'ComplexStep._run_point')
    cx = Ctx(fn)
    g = cx.g
    adds = _call_nodes(g, lambda c: astx.callee_attr(c) == 'iadd')
    subs = _call_nodes(g, lambda c: astx.callee_attr(c) == 'isub')
    runs = [n for n, c in _call_nodes(g, lambda c: astx.callee_attr(c) in ('run_solve_nonlinear',
                                                                          'run_apply_nonlinear'))]
    if not adds or not runs:
        raise AnalysisError(f'{fn.ident}: perturbation or run call not found')
    key = 'perturbation-mirror'
    if not subs:
        if _call_nodes(g, lambda c: astx.callee_attr(c) in ('set_val', 'set_vec')):
            out.unsure(fn, adds[0][0].ast, 'perturbation is not removed by isub; unknown restore idiom')
        else:
            out.bad(fn, adds[0][0].ast, 'the iadd perturbation is never removed (no mirrored isub): inputs keep '
                    'the complex step after the approximation', key=key)
        return
    sa = sorted(_perturb_sig(cx, n, c) for n, c in adds)
    ss = sorted(_perturb_sig(cx, n, c) for n, c in subs)
    if sa != ss:
        diff = [('loop iterable', 0), ('loop target', 1), ('guard', 2), ('receiver', 3), ('arguments', 4),
                ('keywords', 5)]
        what = [nm for nm, i in diff if [s[i] for s in sa] != [s[i] for s in ss]]
        out.bad(fn, subs[0][0].ast, f'isub does not mirror iadd: {", ".join(what) or "count"} differ '
                f'(iadd: {astx.src(adds[0][1])}; isub: {astx.src(subs[0][1])})', key=key)
        return
    # free names of the signature must not be rebound between the two loops
    def hdr_of(n, c):
        lp = astx.enclosing(c, (ast.For,))
        return (g.nodes_of(lp)[0], lp) if lp is not None else (n, None)
    free = set()
    for n, c in adds:
        _, lp = hdr_of(n, c)
        bound = astx.names(lp.target) if lp is not None else set()
        free |= (astx.names(c) | (astx.names(lp.iter) if lp is not None else set())) - bound
    d_add = {nm: set() for nm in free}
    for n, c in adds:
        h, _ = hdr_of(n, c)
        for nm in free:
            d_add[nm] |= cx.rd.defs(h, nm)
    for n, c in subs:
        h, _ = hdr_of(n, c)
        for nm in sorted(free):
            if cx.rd.defs(h, nm) != d_add[nm]:
                out.bad(fn, c, f'`{nm}` is rebound between the iadd and the isub loop: the value subtracted is '
                        f'not the value added', key=key)
                return
    add_hdrs = [g.nodes_of(astx.enclosing(c, (ast.For,)))[0] if astx.enclosing(c, (ast.For,)) is not None else n
                for n, c in adds]
    sub_hdrs = [g.nodes_of(astx.enclosing(c, (ast.For,)))[0] if astx.enclosing(c, (ast.For,)) is not None else n
                for n, c in subs]
    for r in runs:
        w = g.dominated_by(r, add_hdrs, labels=cfgm.noexc)
        if w is not None:
            out.bad(fn, r.ast, 'the system is run before the perturbation is applied', key=key)
            return
        w = g.path(g.normal_succ(r), [g.exit], avoid=sub_hdrs, labels=cfgm.noexc)
        if w is not None:
            out.bad(fn, subs[0][0].ast, f'the perturbation is not removed on the path {g.fmt_path(w)}', key=key)
            return
    run_reach = g.reach([m for r in runs for m in g.normal_succ(r)], labels=cfgm.noexc)
    if any(n in run_reach for n, _ in adds):
        out.bad(fn, adds[0][0].ast, 'a perturbation is applied after the run', key=key)
        return
    for n, _ in subs:
        if g.path(g.normal_succ(n), runs, labels=cfgm.noexc) is not None:
            out.bad(fn, n.ast, 'the perturbation is removed before the run', key=key)
            return
    out.ok(fn, subs[0][0].ast, f'{len(adds)} iadd site(s) mirrored by isub with identical loop, guard and '
           f'arguments; run lies between them')


# =========================================================================== C12.cs-save / C12.cs-imag
def _cs_sweep(repo):
    fn = repo.func(CS, 'ComplexStep.compute_approx_col_iter')
    cx = Ctx(fn)
    g = cx.g
    on = [n for n, c in _call_nodes(g, lambda c: astx.callee_attr(c) == '_set_complex_step_mode' and
                                    _const(astx.arg(c, 0, 'active'), True))]
    drive = [n for n in g.nodes if n.kind not in ('entry', 'exit', 'raise', 'join') and
             any(astx.callee_attr(c) == '_compute_approx_col_iter' and astx.path(astx.receiver(c)) == 'self'
                 for c in n.calls())]
    if not on or not drive:
        raise AnalysisError(f'{fn.ident}: _set_complex_step_mode(True) or the column iteration not found')
    return fn, cx, on, drive


@rule('C12.cs-save', floor=4)
def cs_save(repo, out):
    """CS: the three vectors are saved by copy before complex mode is enabled and each is restored from its own copy after the sweep; outputs are reset between points."""
    fn, cx, on, drive = _cs_sweep(repo)
    g = cx.g
    snaps = {}
    for n in g.nodes:
        if n.kind == 'stmt' and isinstance(n.ast, ast.Assign) and len(n.ast.targets) == 1 and \
                isinstance(n.ast.targets[0], ast.Name):
            vw = cx.view(n.ast.value, n)
            if vw is not None:
                snaps.setdefault(n.ast.targets[0].id, []).append((vw[0], vw[1], n))

    def src_of(e, at):
        return e.id if isinstance(e, ast.Name) and e.id in snaps else None
    rest, odd = _restores(cx, src_of)
    for n, st, why in odd:
        out.unsure(fn, st, why)
    # leaving the sweep: false edge of the driving for-loop, or the normal successor of `yield from`
    leave = []
    for d in drive:
        if d.kind == 'iter':
            leave += [m for m, lab in g.succ[d] if lab == 'false']
        else:
            leave += g.normal_succ(d)
    for V in VECS:
        rs = [x for x in rest if x[1] == V]
        key = f'save{V}'
        w = g.path(leave, [g.exit], avoid=[x[0] for x in rs], labels=cfgm.noexc)
        if w is not None:
            out.bad(fn, rs[0][3] if rs else on[0].ast,
                    f'system.{V} is not restored after the complex-step sweep on the path {g.fmt_path(w)}',
                    key=key)
            continue
        problem = None
        for n, _, name, st in rs:
            ent = snaps[name]
            wrong = [e for e in ent if e[0] != V]
            if wrong:
                problem = (st, f'system.{V} is restored from `{name}`, the saved copy of system.{wrong[0][0]}')
                break
            if any(e[1] is False for e in ent):
                problem = (ent[0][2].ast, f'`{name}` aliases the live data of system.{V} (no copy): the restore is '
                           f'a no-op')
                break
            if any(e[1] is None for e in ent):
                out.unsure(fn, ent[0][2].ast, f'cannot tell whether `{name}` is a copy')
                problem = 'unsure'
                break
            snodes = {e[2] for e in ent}
            ds = cx.rd.defs(n, name)
            if not ds or not ds <= snodes:
                problem = (st, f'`{name}` may be rebound or undefined when system.{V} is restored from it')
                break
            for o in drive:
                if g.dominated_by(o, snodes) is not None:
                    problem = (ent[0][2].ast, f'`{name}` is not saved before the first complex-step point is run: it '
                               f'does not hold the starting values of system.{V}')
                    break
            if problem:
                break
        if problem == 'unsure':
            continue
        if problem:
            out.bad(fn, problem[0], problem[1], key=key)
        else:
            out.ok(fn, rs[-1][3], f'{V}: saved by copy before complex mode, restored from its own copy after the '
                   f'sweep')
    # between two points the outputs are reset (stale complex parts of irrelevant systems otherwise
    # survive into the next column when relevance skips them)
    loops = [d for d in drive if d.kind == 'iter']
    if not loops:
        out.unsure(fn, drive[0].ast, 'column iteration is not a for-loop: per-point output reset not recognised')
        return
    for d in loops:
        ys = [n for n in g.body_nodes(d.ast) if _has_yield(n)]
        if not ys:
            raise AnalysisError(f'{fn.ident}: no yield inside the column loop')
        rs = [x[0] for x in rest if x[1] == '_outputs' and x[0] in g.body_nodes(d.ast)]
        w = g.path([m for y in ys for m in g.normal_succ(y)], [d], avoid=rs, labels=cfgm.noexc)
        if w is not None:
            out.bad(fn, ys[0].ast, 'system._outputs is not reset to the saved values between two complex-step '
                    'points: complex parts left by the previous point leak into the next column for systems '
                    'that relevance skips', key='reset-between-points')
        else:
            out.ok(fn, [x[3] for x in rest if x[0] in rs][0], 'outputs reset from the saved copy after every '
                   'yielded column')


@rule('C12.cs-imag', floor=3)
def cs_imag(repo, out):
    """CS: the imaginary part of inputs, outputs and residuals is cleared before complex mode is enabled."""
    fn, cx, on, drive = _cs_sweep(repo)
    g = cx.g
    zero = {V: [] for V in VECS}
    odd = []
    for n in g.nodes:
        if n.kind != 'stmt':
            continue
        st = n.ast
        tgt = val = None
        if isinstance(st, ast.Assign) and len(st.targets) == 1 and isinstance(st.targets[0], ast.Subscript):
            tgt, val = st.targets[0], st.value
            base = tgt.value
            if isinstance(base, ast.Attribute) and base.attr == 'imag':
                vw = cx.view(base.value, n)
                if vw and vw[1] is False and isinstance(base.value, ast.Attribute) and base.value.attr == '_data':
                    if _is_full_slice(tgt.slice) and _num(val) == 0:
                        zero[vw[0]].append(n)
                    else:
                        odd.append(n)
        elif isinstance(st, ast.Expr) and isinstance(st.value, ast.Call) and astx.callee_attr(st.value) == 'fill':
            rc = astx.receiver(st.value)
            if isinstance(rc, ast.Attribute) and rc.attr == 'imag':
                vw = cx.view(rc.value, n)
                if vw and vw[1] is False and isinstance(rc.value, ast.Attribute) and rc.value.attr == '_data':
                    if len(st.value.args) == 1 and _num(st.value.args[0]) == 0:
                        zero[vw[0]].append(n)
                    else:
                        odd.append(n)
    for n in odd:
        out.unsure(fn, n.ast, 'unrecognised write to an imaginary part')
    if odd:
        return
    for V in VECS:
        zs = zero[V]
        bad = None
        for o in drive:
            w = g.dominated_by(o, zs)
            if w is not None:
                bad = w
        if bad is not None or not zs:
            out.bad(fn, on[0].ast, f'the imaginary part of system.{V} is not cleared before the first complex-step '
                    f'point is run: a stale imaginary part (left by an aborted complex step or by user code) is read '
                    f'as a derivative contribution', key=f'imag{V}')
        else:
            out.ok(fn, zs[0].ast, f'{V}._data.imag zeroed before the first point')


# =========================================================================== C12.relevance
def _iteration_identity(cx, names, at, depth=0, seen=None):
    """For-loop header nodes whose current iteration determines the value of *names* at node *at*."""
    seen = set() if seen is None else seen
    out = set()
    if depth > 8:
        return out
    for nm in names:
        for d in cx.rd.defs(at, nm):
            if (d, nm) in seen or d is cx.g.entry:
                continue
            seen.add((d, nm))
            if d.kind == 'iter':
                out.add(d)
                out |= _iteration_identity(cx, astx.names(d.ast.iter), d, depth + 1, seen)
            elif d.kind == 'stmt' and isinstance(d.ast, ast.Assign):
                out |= _iteration_identity(cx, astx.names(d.ast.value), d, depth + 1, seen)
    return out


REL = 'openmdao/utils/relevance.py'


@rule('C12.relevance', floor=4)
def relevance(repo, out):
    """Seeds narrowed around a perturbed run belong to the group being perturbed, and Relevance.seeds_active restores seeds and activity on every continuation."""
    for qn in ('ApproximationScheme._colored_column_iter', 'ApproximationScheme._uncolored_column_iter'):
        fn = repo.func(AS, qn)
        cx = Ctx(fn)
        g = cx.g
        calls = _call_nodes(g, lambda c: astx.callee_attr(c) == '_run_point' and astx.path(astx.receiver(c)) == 'self')
        if not calls:
            raise AnalysisError(f'{fn.ident}: no self._run_point call')
        for n, c in calls:
            key = 'seeds-' + qn.split('.')[-1].strip('_').split('_')[0]
            ws = []
            for a in astx.ancestors(c):
                if isinstance(a, ast.With):
                    for it in a.items:
                        ce = it.context_expr
                        if isinstance(ce, ast.Call) and astx.callee_attr(ce) == 'seeds_active':
                            ws.append((a, ce))
            if not ws:
                # callers (_compute_totals) hold all_seeds_active; a superset of seeds is always sound
                out.ok(fn, c, 'perturbed run without seed narrowing')
                continue
            w, ce = ws[0]
            seeds = astx.arg(ce, 0, 'fwd_seeds')
            if seeds is None or _const(seeds, None):
                out.ok(fn, ce, 'seeds_active without fwd_seeds: no narrowing')
                continue
            idx = astx.arg(c, 1, 'idx_info')
            if idx is None:
                out.unsure(fn, c, 'cannot see the idx_info argument of _run_point')
                continue
            wn = g.nodes_of(w)[0]
            ids = _iteration_identity(cx, astx.names(seeds), wn)
            idi = _iteration_identity(cx, astx.names(idx), n)
            if not ids:
                out.unsure(fn, ce, f'fwd_seeds={astx.src(seeds)} is not derived from the approximation group')
            elif not ids <= idi:
                other = sorted(ids - idi, key=lambda d: d.lineno)[0]
                out.bad(fn, ce, f'fwd_seeds={astx.src(seeds)} comes from the loop `{astx.src(other.ast)}` but the perturbed '
                        f'indices {astx.src(idx)} do not: relevance is narrowed to the seeds of another group and '
                        f'systems that depend on the perturbed variable are skipped', key=key)
            else:
                out.ok(fn, ce, f'fwd_seeds={astx.src(seeds)} and idx_info={astx.src(idx)} come from the same group tuple')
    # the context manager itself
    fn = repo.func(REL, 'Relevance.seeds_active')
    cx = Ctx(fn, sys_index=0)
    g = cx.g
    sets = _call_nodes(g, lambda c: astx.callee_attr(c) == '_set_seeds' and astx.path(astx.receiver(c)) == 'self')
    ys = [n for n in g.nodes if n.kind == 'stmt' and _has_yield(n)]
    if not sets or not ys:
        raise AnalysisError(f'{fn.ident}: _set_seeds call or yield not found')
    key = 'seeds-restore'
    narrowed = [y for y in ys if any(g.path(g.normal_succ(sn), [y], labels=cfgm.noexc) for sn, _ in sets)]
    if not narrowed:
        out.bad(fn, ys[0].ast, 'no yield follows self._set_seeds(...): the requested seeds are never active', key=key)
        return
    for y in narrowed:
        before = [(sn, c) for sn, c in sets if g.path(g.normal_succ(sn), [y], labels=cfgm.noexc)]
        after = [(sn, c) for sn, c in sets if (sn, c) not in before]
        good = []
        problem = None
        for sn, c in after:
            args = [astx.arg(c, 0, 'fwd_seeds'), astx.arg(c, 1, 'rev_seeds')]
            srcs = []
            for a in args:
                srcs.append(_snap_source(cx, a, sn) if isinstance(a, ast.Name) else (None, None))
            want = ["self._seed_vars['fwd']", "self._seed_vars['rev']"]
            if [p for p, _ in srcs] == want[::-1]:
                problem = (c, 'forward and reverse seeds are swapped when they are restored')
                break
            if [p for p, _ in srcs] != want:
                continue
            if any(g.dominated_by(bn, [d]) is not None for bn, _ in before for _, d in srcs):
                problem = (c, 'the seeds are saved after they have been replaced')
                break
            good.append(sn)
        if problem is None:
            w = g.must_pass([m for m, _ in g.succ[y]], [g.exit, g.raise_exit], good)
            if w is not None:
                kind = 'an exception' if w[-1] is g.raise_exit else 'normal exit'
                problem = (y.ast, f'the previous seeds are not restored on {kind} from the with-block: '
                           f'{g.fmt_path(w)}; later runs stay pruned to the seeds of the last approximation')
        if problem is None:
            acts = [n for n in g.nodes if n.kind == 'stmt' and isinstance(n.ast, ast.Assign) and
                    any(astx.path(t) == 'self._active' for t in n.ast.targets)]
            pre = [n for n in acts if g.path(g.normal_succ(n), [y], labels=cfgm.noexc)]
            post = []
            for n in acts:
                if n in pre or not isinstance(n.ast.value, ast.Name):
                    continue
                sp, sat = _snap_source(cx, n.ast.value, n)
                if sp == 'self._active' and all(g.dominated_by(p_, [sat]) is None for p_ in pre):
                    post.append(n)
            if pre:
                # an exception raised by the seed restore itself is not this clause's business
                w = _path_edges(g, [m for m, _ in g.succ[y]], [g.exit, g.raise_exit], post,
                                lambda a, lab: not (lab == 'exc' and a in good))
                if w is not None:
                    problem = (y.ast, 'self._active is forced on for the with-block but not restored on every '
                               f'continuation: {g.fmt_path(w)}')
        if problem:
            out.bad(fn, problem[0], problem[1], key=key)
        else:
            out.ok(fn, y.ast, 'seeds and _active saved before, restored on normal and exceptional exit')


# =========================================================================== C12.table
def _frac(e):
    """Exact rational value of a numeric literal expression, else None."""
    if isinstance(e, ast.Constant) and isinstance(e.value, (int, float)) and not isinstance(e.value, bool):
        try:
            return Fraction(e.value)
        except (ValueError, OverflowError):
            return None
    if isinstance(e, ast.UnaryOp) and isinstance(e.op, (ast.USub, ast.UAdd)):
        v = _frac(e.operand)
        return None if v is None else (-v if isinstance(e.op, ast.USub) else v)
    if isinstance(e, ast.BinOp) and isinstance(e.op, (ast.Add, ast.Sub, ast.Mult, ast.Div)):
        a, b = _frac(e.left), _frac(e.right)
        if a is None or b is None:
            return None
        if isinstance(e.op, ast.Add):
            return a + b
        if isinstance(e.op, ast.Sub):
            return a - b
        if isinstance(e.op, ast.Mult):
            return a * b
        return a / b if b != 0 else None
    return None


def _fracs(e):
    if isinstance(e, ast.Call) and astx.call_name(e) in ('np.array', 'numpy.array', 'np.asarray', 'np.atleast_1d') \
            and e.args:
        e = e.args[0]
    if isinstance(e, (ast.List, ast.Tuple)):
        vals = [_frac(x) for x in e.elts]
        return None if any(v is None for v in vals) else vals
    return None


_TOL = Fraction(1, 10 ** 12)   # literals such as 0.6666666666666666 are not dyadic; real errors are >> 1e-12


def _fd_table(repo):
    """(fn, fields, {(form, order): (key node, value node)}, table name)."""
    fn = repo.func(FD, '_generate_fd_coeff')
    fields = tname = None
    stmts = list(astx.walk_stmts(fn.node.body)) + list(repo.module(FD).tree.body)
    for st in stmts:
        if isinstance(st, ast.Assign) and isinstance(st.value, ast.Call) and \
                astx.callee_attr(st.value) == 'namedtuple' and len(st.value.args) >= 2:
            a = st.value.args[1]
            if isinstance(a, (ast.List, ast.Tuple)) and all(astx.const_str(x) for x in a.elts):
                fields = [x.value for x in a.elts]
            elif astx.const_str(a):
                fields = a.value.replace(',', ' ').split()
            tname = astx.path(st.targets[0])
            break
    if not fields or set(fields) != {'deltas', 'coeffs', 'current_coeff'}:
        raise AnalysisError(f'{fn.ident}: FDForm namedtuple with deltas/coeffs/current_coeff not found')
    tables = [st for st in astx.walk_stmts(fn.node.body) if isinstance(st, ast.Assign) and
              isinstance(st.value, ast.Dict) and st.value.keys and
              all(isinstance(k, ast.Tuple) and len(k.elts) == 2 for k in st.value.keys)]
    if len(tables) != 1:
        raise AnalysisError(f'{fn.ident}: expected one (form, order) table, found {len(tables)}')
    return fn, fields, tname, tables[0]


@rule('C12.table', floor=6)
def table(repo, out):
    """FD_COEFFS: c0 + sum(c) = 0, sum(c*d) = 1, sum(c*d^k) = 0 for 2 <= k <= order; forward d > 0, backward d < 0, central symmetric; every DEFAULT_ORDER entry has a table row."""
    fn, fields, tname, tst = _fd_table(repo)
    keys = {}
    for k, v in zip(tst.value.keys, tst.value.values):
        form, order = astx.const_str(k.elts[0]), k.elts[1]
        if form is None or not (isinstance(order, ast.Constant) and isinstance(order.value, int)):
            out.unsure(fn, k, 'table key is not a (str, int) literal')
            continue
        order = order.value
        kk = f'entry-{form}-{order}'
        if (form, order) in keys:
            out.bad(fn, k, f'duplicate table key ({form!r}, {order}): the earlier row is silently dropped', key=kk)
            continue
        keys[(form, order)] = k
        if not (isinstance(v, ast.Call) and astx.path(v.func) == tname):
            out.unsure(fn, v, f'table value is not a {tname}(...) literal')
            continue
        slots = dict(zip(fields, v.args))
        for kw in v.keywords:
            slots[kw.arg] = kw.value
        if set(slots) != set(fields):
            out.unsure(fn, v, 'cannot map the table row to deltas/coeffs/current_coeff')
            continue
        d, c, c0 = _fracs(slots['deltas']), _fracs(slots['coeffs']), _frac(slots['current_coeff'])
        if d is None or c is None or c0 is None:
            out.unsure(fn, v, 'table row is not made of numeric literals')
            continue
        why = None
        if len(d) != len(c) or not d:
            why = f'{len(d)} deltas but {len(c)} coefficients'
        elif order < 1:
            why = f'order {order} is not a positive order of accuracy'
        else:
            if abs(c0 + sum(c)) > _TOL:
                why = f'current_coeff + sum(coeffs) = {float(c0 + sum(c))!r}, must be 0 (a constant function would ' \
                      f'get a nonzero derivative)'
            elif abs(sum(ci * di for ci, di in zip(c, d)) - 1) > _TOL:
                why = f'sum(coeffs*deltas) = {float(sum(ci * di for ci, di in zip(c, d)))!r}, must be 1 (the ' \
                      f'derivative of a linear function would be scaled)'
            else:
                for kq in range(2, order + 1):
                    m = sum(ci * di ** kq for ci, di in zip(c, d))
                    if abs(m) > _TOL:
                        why = f'sum(coeffs*deltas^{kq}) = {float(m)!r}, must vanish for order {order} accuracy'
                        break
            if why is None:
                if form == 'forward' and not all(x > 0 for x in d):
                    why = 'a forward form must only step in the positive direction'
                elif form == 'backward' and not all(x < 0 for x in d):
                    why = 'a backward form must only step in the negative direction'
                elif form == 'central' and sorted(d) != sorted(-x for x in d):
                    why = 'a central form must use symmetric steps'
        if why:
            out.bad(fn, v, f'FD_COEFFS[{form!r}, {order}]: {why}', key=kk)
        else:
            out.ok(fn, k, f'({form}, {order}): moments 0..{order} exact, {len(d)} point(s), direction ok')
    # defaults
    dflt = None
    for st in repo.module(FD).tree.body:
        if isinstance(st, ast.Assign) and isinstance(st.value, ast.Dict) and \
                any(astx.path(t) == 'DEFAULT_ORDER' for t in st.targets):
            dflt = st
    if dflt is None:
        raise AnalysisError(f'{FD}: DEFAULT_ORDER vanished')
    for k, v in zip(dflt.value.keys, dflt.value.values):
        form = astx.const_str(k)
        if form is None or not (isinstance(v, ast.Constant) and isinstance(v.value, int)):
            out.unsure((FD, 'DEFAULT_ORDER'), k, 'DEFAULT_ORDER entry is not a str -> int literal')
            continue
        if (form, v.value) in keys:
            out.ok((FD, 'DEFAULT_ORDER'), k, f'default order {v.value} of {form!r} has a table row')
        else:
            out.bad((FD, 'DEFAULT_ORDER'), k, f'form {form!r} is accepted with default order {v.value} but FD_COEFFS '
                    f'has no ({form!r}, {v.value}) row: the first approximation raises', key=f'default-{form}')


# =========================================================================== C12.cs-formula
class _Z:
    """Gaussian rational times step**deg."""

    def __init__(self, re, im=0, deg=0):
        self.re, self.im, self.deg = Fraction(re), Fraction(im), deg

    def mul(self, o):
        return _Z(self.re * o.re - self.im * o.im, self.re * o.im + self.im * o.re, self.deg + o.deg)

    def inv(self):
        n = self.re * self.re + self.im * self.im
        if n == 0:
            return None
        return _Z(self.re / n, -self.im / n, -self.deg)


def _zeval(cx, e, at, env, depth=0):
    """Evaluate a complex-step formula to a _Z, or None when the shape is not recognised."""
    if depth > 12:
        return None
    if isinstance(e, ast.Constant):
        v = e.value
        if isinstance(v, bool):
            return None
        if isinstance(v, (int, float)):
            return _Z(Fraction(v))
        if isinstance(v, complex):
            return _Z(Fraction(v.real), Fraction(v.imag))
        return None
    if isinstance(e, ast.Name):
        ds = cx.rd.defs(at, e.id)
        if ds == {cx.g.entry} or not ds:
            return env.get(e.id)
        if len(ds) != 1:
            return None
        d = next(iter(ds))
        if d.kind != 'stmt':
            return None
        if isinstance(d.ast, ast.Assign) and len(d.ast.targets) == 1 and astx.path(d.ast.targets[0]) == e.id:
            return _zeval(cx, d.ast.value, d, env, depth + 1)
        if isinstance(d.ast, ast.AugAssign) and astx.path(d.ast.target) == e.id:
            a = _zeval(cx, ast.Name(id=e.id, ctx=ast.Load()), d, env, depth + 1)
            b = _zeval(cx, d.ast.value, d, env, depth + 1)
            return _zop(d.ast.op, a, b)
        return None
    if isinstance(e, ast.Subscript) and astx.const_str(e.slice) == 'step':
        return _Z(1, 0, 1)
    if isinstance(e, ast.BinOp):
        return _zop(e.op, _zeval(cx, e.left, at, env, depth + 1), _zeval(cx, e.right, at, env, depth + 1))
    if isinstance(e, ast.UnaryOp) and isinstance(e.op, (ast.USub, ast.UAdd)):
        a = _zeval(cx, e.operand, at, env, depth + 1)
        if a is None:
            return None
        return a.mul(_Z(-1)) if isinstance(e.op, ast.USub) else a
    if isinstance(e, ast.Attribute) and e.attr in ('real', 'imag'):
        a = _zeval(cx, e.value, at, env, depth + 1)
        if a is None:
            return None
        return _Z(a.re if e.attr == 'real' else a.im, 0, a.deg)
    if isinstance(e, ast.Call) and astx.call_name(e) in ('np.real', 'np.imag', 'numpy.real', 'numpy.imag') \
            and len(e.args) == 1:
        a = _zeval(cx, e.args[0], at, env, depth + 1)
        if a is None:
            return None
        return _Z(a.re if astx.callee_attr(e) == 'real' else a.im, 0, a.deg)
    if isinstance(e, ast.Call) and astx.call_name(e) == 'complex' and len(e.args) == 2 and not e.keywords:
        a = _zeval(cx, e.args[0], at, env, depth + 1)
        b = _zeval(cx, e.args[1], at, env, depth + 1)
        if a is None or b is None or a.im or b.im:
            return None
        if a.re == 0:
            return _Z(0, b.re, b.deg)
        if b.re == 0:
            return a
        return _Z(a.re, b.re, a.deg) if a.deg == b.deg else None
    return None


def _zop(op, a, b):
    if a is None or b is None:
        return None
    if isinstance(op, ast.Mult):
        return a.mul(b)
    if isinstance(op, ast.Div):
        ib = b.inv()
        return None if ib is None else a.mul(ib)
    if isinstance(op, (ast.Add, ast.Sub)):
        if a.deg != b.deg and not ((a.re == 0 and a.im == 0) or (b.re == 0 and b.im == 0)):
            return None
        s = 1 if isinstance(op, ast.Add) else -1
        return _Z(a.re + s * b.re, a.im + s * b.im, a.deg if (a.re or a.im) else b.deg)
    return None


def _single_return(fn):
    rets = [st for st in astx.walk_stmts(fn.node.body) if isinstance(st, ast.Return)]
    if len(rets) != 1 or rets[0].value is None:
        raise AnalysisError(f'{fn.ident}: expected exactly one `return <expr>`')
    return rets[0]


def _part_taken(fn):
    """'imag' / 'real' / 'id' : what _transform_result returns of its argument."""
    r = _single_return(fn)
    ps = _params(fn)
    e = r.value
    if isinstance(e, ast.Name) and len(ps) > 1 and e.id == ps[1]:
        return r, 'id'
    if isinstance(e, ast.Attribute) and isinstance(e.value, ast.Name) and len(ps) > 1 and e.value.id == ps[1] \
            and e.attr in ('real', 'imag'):
        return r, e.attr
    if isinstance(e, ast.Call) and astx.call_name(e) in ('np.real', 'np.imag') and len(e.args) == 1 and \
            isinstance(e.args[0], ast.Name) and len(ps) > 1 and e.args[0].id == ps[1]:
        return r, astx.callee_attr(e)
    return r, None


@rule('C12.cs-formula', floor=2)
def cs_formula(repo, out):
    """CS: the step is purely imaginary, the imaginary part is read and multiplier * Im(step) = 1 exactly; FD: multiplier 1 and the real part is read."""
    fa = repo.func(CS, 'ComplexStep._get_approx_data')
    fm = repo.func(CS, 'ComplexStep._get_multiplier')
    ft = repo.func(CS, 'ComplexStep._transform_result')
    ca = Ctx(fa)
    ra = _single_return(fa)
    delta = _zeval(ca, ra.value, ca.g.nodes_of(ra)[0], {})
    cm = Ctx(fm)
    rm = _single_return(fm)
    rt, part = _part_taken(ft)
    key = 'cs-formula'
    if delta is None:
        out.unsure(fa, ra, 'complex step not recognised as <gaussian rational> * meta["step"]')
    elif part is None:
        out.unsure(ft, rt, '_transform_result does not return .real/.imag of its argument')
    elif delta.deg != 1 or delta.im == 0:
        out.bad(fa, ra, f'the complex-step perturbation is ({delta.re}+{delta.im}j)*step^{delta.deg}: it has no imaginary '
                f'component proportional to the step', key=key)
    elif delta.re != 0:
        out.bad(fa, ra, f'the complex-step perturbation ({delta.re}+{delta.im}j)*step has a real component: the real '
                f'state is shifted and the derivative is no longer exact to round-off', key=key)
    elif part != 'imag':
        out.bad(ft, rt, 'ComplexStep._transform_result must return the imaginary part of the result', key=key)
    else:
        mult = _zeval(cm, rm.value, cm.g.nodes_of(rm)[0], {_params(fm)[1]: delta}) if len(_params(fm)) > 1 else None
        if mult is None:
            out.unsure(fm, rm, 'multiplier formula not recognised')
        elif mult.im != 0 or mult.deg != -1 or mult.re * delta.im != 1:
            out.bad(fm, rm, f'multiplier = ({mult.re}+{mult.im}j)*step^{mult.deg} but Im(perturbation) = {delta.im}*step: '
                    f'multiplier * Im(f(x + perturbation)) = {mult.re * delta.im} * step^{mult.deg + 1} * f\'(x) instead '
                    f'of f\'(x)', key=key)
        else:
            out.ok(fm, rm, f'perturbation {delta.im}j*step, imaginary part read, multiplier {mult.re}/step: product is 1')
    # FD
    fm2 = repo.func(FD, 'FiniteDifference._get_multiplier')
    ft2 = repo.func(FD, 'FiniteDifference._transform_result')
    rm2 = _single_return(fm2)
    rt2, part2 = _part_taken(ft2)
    v = _frac(rm2.value)
    if v is None:
        out.unsure(fm2, rm2, 'FD multiplier is not a numeric literal')
    elif part2 is None:
        out.unsure(ft2, rt2, '_transform_result does not return .real/.imag of its argument')
    elif v != 1:
        out.bad(fm2, rm2, f'FD multiplier is {float(v)!r}: the coefficients already contain 1/step, any other factor '
                f'scales the derivative', key='fd-formula')
    elif part2 == 'imag':
        out.bad(ft2, rt2, 'FiniteDifference._transform_result returns the imaginary part: real finite differences '
                'are discarded', key='fd-formula')
    else:
        out.ok(fm2, rm2, 'FD multiplier 1, real part read')


# =========================================================================== step algebra (C12.step, C12.step-calc)
FIELDS = ('deltas', 'coeffs', 'current_coeff')
SPEC = {'deltas': 1, 'coeffs': -1, 'current_coeff': -1}
_SAME_DEG = {'abs', 'absolute', 'fabs', 'sum', 'norm', 'mean', 'average', 'max', 'min', 'amax', 'amin', 'atleast_1d',
             'asarray', 'array', 'float', 'real', 'item', 'copy', 'ravel', 'flatten', 'squeeze', 'asarray_chkfinite'}
_ALL_SAME = {'maximum', 'minimum', 'fmax', 'fmin'}
_REDUCERS = {'sum', 'norm', 'mean', 'average', 'max', 'min', 'amax', 'amin', 'len', 'size', 'dot', 'vdot', 'item',
             'float', 'median'}
_STEP_KEYS = ('step', 'minimum_step')


class _Unknown(Exception):
    def __init__(self, node, why='unrecognised expression'):
        self.node, self.why = node, why


class Mono:
    """coef * prod(field^e) * prod(stepsymbol^e) * prod(opaque^e)."""

    def __init__(self, coef=1, fields=None, steps=None, opaque=None):
        self.coef = Fraction(coef)
        self.fields = dict(fields or {})
        self.steps = dict(steps or {})
        self.opaque = dict(opaque or {})

    @staticmethod
    def _merge(a, b, sign):
        out = dict(a)
        for k, v in b.items():
            out[k] = out.get(k, 0) + sign * v
            if out[k] == 0:
                del out[k]
        return out

    def mul(self, o, sign=1):
        if sign < 0 and o.coef == 0:
            raise ZeroDivisionError
        return Mono(self.coef * (o.coef if sign > 0 else 1 / o.coef), self._merge(self.fields, o.fields, sign),
                    self._merge(self.steps, o.steps, sign), self._merge(self.opaque, o.opaque, sign))

    def shape(self):
        return (tuple(sorted(self.fields.items())), tuple(sorted(self.steps.items(), key=repr)),
                tuple(sorted(self.opaque.items())))

    @property
    def deg(self):
        return sum(self.steps.values())


class StepModel:
    """Degree / monomial algebra in the symbol `step` for FiniteDifference._get_approx_data."""

    def __init__(self, fn):
        self.fn = fn
        self.cx = Ctx(fn)
        self.assigns = []      # (stmt, name, is_aug)
        self.seeds = set()     # names assigned from meta['step'] / meta['minimum_step']
        for st in astx.walk_stmts(fn.node.body):
            if isinstance(st, ast.Assign) and len(st.targets) == 1 and isinstance(st.targets[0], ast.Name):
                self.assigns.append((st, st.targets[0].id, False))
                if isinstance(st.value, ast.Subscript) and astx.const_str(st.value.slice) in _STEP_KEYS:
                    self.seeds.add(st.targets[0].id)
            elif isinstance(st, ast.AugAssign) and isinstance(st.target, ast.Name):
                self.assigns.append((st, st.target.id, True))
        if not self.seeds:
            raise AnalysisError(f"{fn.ident}: no local is read from meta['step']")
        self.env = {nm: 1 for nm in self.seeds}
        for _ in range(8):
            new = {}
            for st, nm, aug in self.assigns:
                d = self.assign_deg(st, aug)
                new.setdefault(nm, set()).add(d)
            env = {nm: 1 for nm in self.seeds}
            for nm, ds in new.items():
                ds = {d for d in ds if d != 'any'}
                if nm in self.seeds:
                    continue
                env[nm] = ds.pop() if len(ds) == 1 else (0 if not ds else None)
            if env == self.env:
                break
            self.env = env

    # ------------------------------------------------------------------ degree
    def assign_deg(self, st, aug):
        if aug:
            a = self.env.get(st.target.id, 0)
            b = self.deg(st.value)
            if a is None or b is None:
                return None
            if isinstance(st.op, ast.Mult):
                return a + b
            if isinstance(st.op, ast.Div):
                return a - b
            if isinstance(st.op, (ast.Add, ast.Sub)):
                return a if a == b else None
            return None
        if _num(st.value) is not None:
            return 'any'
        return self.deg(st.value)

    def deg(self, e):
        """Integer degree of e in `step`, or None when it cannot be determined."""
        if isinstance(e, ast.Constant):
            return 0
        if isinstance(e, ast.Name):
            return self.env.get(e.id, 0)
        if isinstance(e, ast.Subscript):
            if astx.const_str(e.slice) in _STEP_KEYS:
                return 1
            return self.deg(e.value)
        if isinstance(e, ast.Attribute):
            b = self.deg(e.value)
            if b == 0:
                return 0
            if e.attr in ('real', 'T', 'flat'):
                return b
            if e.attr in ('size', 'shape', 'ndim', 'dtype'):
                return 0
            return None
        if isinstance(e, ast.UnaryOp):
            return 0 if isinstance(e.op, ast.Not) else self.deg(e.operand)
        if isinstance(e, (ast.Compare, ast.BoolOp)):
            return 0
        if isinstance(e, ast.IfExp):
            a, b = self.deg(e.body), self.deg(e.orelse)
            return a if a == b else None
        if isinstance(e, ast.BinOp):
            a, b = self.deg(e.left), self.deg(e.right)
            if a is None or b is None:
                return None
            if isinstance(e.op, ast.Mult):
                return a + b
            if isinstance(e.op, (ast.Div, ast.FloorDiv)):
                return a - b
            if isinstance(e.op, (ast.Add, ast.Sub)):
                return a if a == b else None
            if isinstance(e.op, ast.Pow) and isinstance(e.right, ast.Constant) and isinstance(e.right.value, int):
                return a * e.right.value
            return 0 if a == 0 and b == 0 else None
        if isinstance(e, (ast.Tuple, ast.List)):
            ds = {self.deg(x) for x in e.elts}
            return ds.pop() if len(ds) == 1 else (0 if not ds else None)
        if isinstance(e, ast.Call):
            nm = astx.callee_attr(e)
            args = list(e.args) + [k.value for k in e.keywords]
            rc = astx.receiver(e)
            ad = [self.deg(a) for a in args]
            if nm in ('outer', 'multiply') and len(e.args) == 2:
                return None if None in ad[:2] else ad[0] + ad[1]
            if nm == 'divide' and len(e.args) == 2:
                return None if None in ad[:2] else ad[0] - ad[1]
            if nm in ('len', 'size', 'shape', 'isinstance', 'where', 'nonzero', 'argwhere') and nm != 'where':
                return 0
            if nm == 'where':
                if len(e.args) == 1:
                    return 0
                if len(e.args) == 3:
                    return ad[1] if ad[1] == ad[2] else None
            if nm in _SAME_DEG:
                if e.args:
                    return ad[0]
                if rc is not None and not (isinstance(rc, ast.Name) and rc.id in ('np', 'numpy')):
                    return self.deg(rc)
            if nm in _ALL_SAME or (nm in ('max', 'min') and len(e.args) > 1):
                ds = set(ad[:len(e.args)])
                return ds.pop() if len(ds) == 1 else None
            if nm == 'clip' and e.args:
                ds = {d for a, d in zip(e.args, ad) if not _const(a, None)}
                return ds.pop() if len(ds) == 1 else None
            base = self.deg(rc) if rc is not None and not (isinstance(rc, ast.Name) and rc.id in ('np', 'numpy')) \
                and not astx.path(rc) in ('np.linalg', 'numpy.linalg') else 0
            if all(d == 0 for d in ad) and base == 0:
                return 0
            return None
        return None

    # ------------------------------------------------------------------ monomials
    def _field_of(self, e, at):
        """Name of the FDForm field denoted by attribute / index expression e, else None."""
        if isinstance(e, ast.Attribute) and e.attr in FIELDS:
            b, _ = self.cx.resolve(e.value, at)
            if isinstance(b, ast.Call) and astx.callee_attr(b) == '_generate_fd_coeff':
                return e.attr
        return None

    def mono(self, e, at, depth=0):
        """List of alternative monomials denoted by e at CFG node `at` (raises _Unknown)."""
        if depth > 14:
            raise _Unknown(e, 'definition chain too deep')
        if _num(e) is not None:
            return [Mono(Fraction(_num(e)))]
        f = self._field_of(e, at)
        if f:
            return [Mono(1, {f: 1})]
        if isinstance(e, ast.Subscript) and astx.const_str(e.slice) in _STEP_KEYS:
            return [Mono(1, steps={(_dump(e), ()): 1})]
        if isinstance(e, ast.Name):
            if e.id in self.seeds:
                ds = self.cx.rd.defs(at, e.id)
                return [Mono(1, steps={(e.id, tuple(sorted(d.id for d in ds))): 1})]
            if self.env.get(e.id, 0) == 0 and not self._mentions_field_name(e.id, at):
                return [Mono(1, opaque={e.id: 1})]
            ds = self.cx.rd.defs(at, e.id)
            if not ds or self.cx.g.entry in ds:
                raise _Unknown(e, f'`{e.id}` may be undefined or is a parameter')
            out = []
            for d in sorted(ds, key=lambda d: d.id):
                out += self.def_mono(d, e.id, depth)
            return out
        if isinstance(e, ast.UnaryOp) and isinstance(e.op, (ast.USub, ast.UAdd)):
            ms = self.mono(e.operand, at, depth + 1)
            return [m.mul(Mono(-1)) for m in ms] if isinstance(e.op, ast.USub) else ms
        if isinstance(e, ast.BinOp):
            if isinstance(e.op, (ast.Mult, ast.Div)):
                a, b = self.mono(e.left, at, depth + 1), self.mono(e.right, at, depth + 1)
                return self._prod(a, b, 1 if isinstance(e.op, ast.Mult) else -1, e)
            if isinstance(e.op, (ast.Add, ast.Sub)):
                a, b = self.mono(e.left, at, depth + 1), self.mono(e.right, at, depth + 1)
                out = []
                for x in a:
                    for y in b:
                        if x.shape() != y.shape():
                            raise _Unknown(e, 'sum of unlike terms')
                        out.append(Mono(x.coef + (y.coef if isinstance(e.op, ast.Add) else -y.coef),
                                        x.fields, x.steps, x.opaque))
                return out
        if isinstance(e, ast.IfExp):
            return self.mono(e.body, at, depth + 1) + self.mono(e.orelse, at, depth + 1)
        if isinstance(e, ast.Subscript):
            return self.mono(e.value, at, depth + 1)
        if isinstance(e, ast.Call):
            nm = astx.callee_attr(e)
            if nm in ('outer', 'multiply') and len(e.args) == 2 and not e.keywords:
                return self._prod(self.mono(e.args[0], at, depth + 1), self.mono(e.args[1], at, depth + 1), 1, e)
            if nm == 'divide' and len(e.args) == 2 and not e.keywords:
                return self._prod(self.mono(e.args[0], at, depth + 1), self.mono(e.args[1], at, depth + 1), -1, e)
            if nm in ('abs', 'absolute', 'fabs') and len(e.args) == 1:
                return [Mono(abs(m.coef), m.fields, m.steps, m.opaque) for m in self.mono(e.args[0], at, depth + 1)]
            if nm in ('atleast_1d', 'asarray', 'array', 'float', 'real') and len(e.args) == 1:
                return self.mono(e.args[0], at, depth + 1)
        if self.deg(e) == 0 and not any(isinstance(w, ast.Attribute) and w.attr in FIELDS for w in astx.walk(e)):
            return [Mono(1, opaque={_dump(e): 1})]
        raise _Unknown(e)

    def _mentions_field_name(self, name, at):
        for d in self.cx.rd.defs(at, name):
            if d.kind == 'stmt' and isinstance(d.ast, (ast.Assign, ast.AugAssign)):
                if any(isinstance(w, ast.Attribute) and w.attr in FIELDS for w in astx.walk(d.ast.value)):
                    return True
        return False

    def _prod(self, a, b, sign, node):
        out = []
        for x in a:
            for y in b:
                try:
                    out.append(x.mul(y, sign))
                except ZeroDivisionError:
                    raise _Unknown(node, 'division by a zero literal')
        return out

    def def_mono(self, d, name, depth=0):
        if d.kind == 'stmt' and isinstance(d.ast, ast.Assign) and len(d.ast.targets) == 1 and \
                astx.path(d.ast.targets[0]) == name:
            return self.mono(d.ast.value, d, depth + 1)
        if d.kind == 'stmt' and isinstance(d.ast, ast.AugAssign) and astx.path(d.ast.target) == name and \
                isinstance(d.ast.op, (ast.Mult, ast.Div)):
            a = self.mono(ast.Name(id=name, ctx=ast.Load()), d, depth + 1)
            b = self.mono(d.ast.value, d, depth + 1)
            return self._prod(a, b, 1 if isinstance(d.ast.op, ast.Mult) else -1, d.ast)
        raise _Unknown(d.ast, f'`{name}` is bound by an unrecognised statement')


@rule('C12.step', floor=7)
def step_algebra(repo, out):
    """FD data triple: every write to the step keeps degree 1; (deltas, coeffs, current_coeff) = (FDForm.deltas*step, FDForm.coeffs/step, FDForm.current_coeff/step) with unit factor and one step value."""
    fn = repo.func(FD, 'FiniteDifference._get_approx_data')
    sm = StepModel(fn)
    cx = sm.cx
    # (a) step discipline
    okdeg = True
    for st, nm, aug in sm.assigns:
        if nm not in sm.seeds:
            continue
        d = sm.assign_deg(st, aug)
        if d == 'any' or d == 1:
            continue
        okdeg = False
        if d is None:
            out.unsure(fn, st, f'cannot determine the step degree of the value written to `{nm}`')
        else:
            out.bad(fn, st, f'`{nm}` is a step length (degree 1 in the step) but this statement gives it degree {d}: '
                    f'the configured step no longer scales the perturbation', key='step-degree')
    for st in astx.walk_stmts(fn.node.body):
        if isinstance(st, ast.Assign) and len(st.targets) == 1 and isinstance(st.targets[0], ast.Subscript) and \
                isinstance(st.targets[0].value, ast.Name) and st.targets[0].value.id in sm.seeds:
            d = 'any' if _num(st.value) is not None else sm.deg(st.value)
            if d not in ('any', 1):
                okdeg = False
                if d is None:
                    out.unsure(fn, st, 'cannot determine the step degree of the stored value')
                else:
                    out.bad(fn, st, f'elements of `{st.targets[0].value.id}` are step lengths but a value of degree '
                            f'{d} is stored', key='step-degree')
    if okdeg:
        out.ok(fn, fn.node, f'every write to {sorted(sm.seeds)} has step degree 1')
    # (b) returned triple
    ret = _single_return(fn)
    rn = cx.g.nodes_of(ret)[0]
    if not (isinstance(ret.value, ast.Tuple) and len(ret.value.elts) == 3):
        out.unsure(fn, ret, 'return value is not a 3-tuple')
        return
    keysets = []
    for i, (elt, field) in enumerate(zip(ret.value.elts, FIELDS)):
        alts = []   # (stmt for report, [Mono])
        try:
            if isinstance(elt, ast.Name) and elt.id not in sm.seeds:
                ds = cx.rd.defs(rn, elt.id)
                if not ds or cx.g.entry in ds:
                    raise _Unknown(elt, f'`{elt.id}` may be undefined at the return')
                for d in sorted(ds, key=lambda d: d.id):
                    alts.append((d.ast, sm.def_mono(d, elt.id)))
            else:
                alts.append((ret, sm.mono(elt, rn)))
        except _Unknown as u:
            out.unsure(fn, u.node, f'slot {i} ({field}): {u.why}: {astx.src(u.node)}')
            keysets.append(None)
            continue
        ks = set()
        for st, monos in alts:
            for m in monos:
                key = f'slot-{field}'
                want = SPEC[field]
                if m.coef == 0:
                    out.bad(fn, st, f'slot {i} ({field}) is identically zero', key=key)
                elif m.fields != {field: 1}:
                    got = ' * '.join(f'{k}^{v}' for k, v in sorted(m.fields.items())) or 'no table field'
                    out.bad(fn, st, f'slot {i} of the returned triple must be FDForm.{field} scaled by the step, but it '
                            f'is built from {got}', key=key)
                elif m.deg != want:
                    out.bad(fn, st, f'slot {i} ({field}) has step degree {m.deg}, must be {want:+d} '
                            f'({"multiply" if want > 0 else "divide"} by the step)', key=key)
                elif m.opaque:
                    out.unsure(fn, st, f'slot {i} ({field}) carries an extra factor {sorted(m.opaque)}')
                elif m.coef != 1:
                    out.bad(fn, st, f'slot {i} ({field}) carries a constant factor {m.coef}: the derivative is scaled '
                            f'by it', key=key)
                elif len(m.steps) != 1:
                    out.bad(fn, st, f'slot {i} ({field}) mixes different step values '
                            f'({sorted(k[0] for k in m.steps)})', key=key)
                else:
                    ks |= set(m.steps)
                    out.ok(fn, st, f'{field} = FDForm.{field} * step^{want:+d}')
        keysets.append(ks)
    ks = [k for k in keysets if k]
    if len(ks) == 3 and not (ks[0] == ks[1] == ks[2]):
        names = [sorted({k[0] for k in s_}) for s_ in ks]
        out.bad(fn, ret, f'deltas, coeffs and current_coeff are not built from the same step value (step symbols / '
                f'definitions reaching them differ: {names}): perturbation size and divisor disagree',
                key='step-mismatch')


# ------------------------------------------------------------------------- C12.step-calc
def _step_calc_literals(repo):
    fa = repo.func(FD, 'FiniteDifference.add_approximation')
    cx = Ctx(fa)
    found = []
    for n in cx.g.nodes:
        if n.kind != 'test':
            continue
        for w in astx.walk(n.ast.test):
            if isinstance(w, ast.Compare) and len(w.ops) == 1 and isinstance(w.ops[0], (ast.In, ast.NotIn)):
                l, _ = cx.resolve(w.left, n)
                r, _ = cx.resolve(w.comparators[0], n)
                if isinstance(l, ast.Subscript) and astx.const_str(l.slice) == 'step_calc' and \
                        isinstance(r, (ast.List, ast.Tuple, ast.Set)) and r.elts and \
                        all(astx.const_str(x) for x in r.elts):
                    found.append((w, [x.value for x in r.elts]))
    if len(found) != 1:
        raise AnalysisError(f'{fa.ident}: expected one membership test of step_calc, found {len(found)}')
    return fa, found[0][0], found[0][1]


class _Walk:
    """Path-sensitive walk of _get_approx_data for one step_calc literal."""

    def __init__(self, sm, lit):
        self.sm, self.cx, self.g, self.lit = sm, sm.cx, sm.cx.g, lit
        fn = sm.fn
        self.sc_names = set()
        for st, nm, aug in sm.assigns:
            if not aug and isinstance(st.value, ast.Subscript) and astx.const_str(st.value.slice) == 'step_calc':
                self.sc_names.add(nm)
        self.paths = []

    def is_sc(self, e):
        return (isinstance(e, ast.Name) and e.id in self.sc_names) or \
            (isinstance(e, ast.Subscript) and astx.const_str(e.slice) == 'step_calc')

    def ev(self, e, consts, at):
        """True / False / None (unknown) for a branch condition under step_calc == lit."""
        if isinstance(e, ast.BoolOp):
            vals = [self.ev(v, consts, at) for v in e.values]
            if isinstance(e.op, ast.And):
                return False if False in vals else (None if None in vals else True)
            return True if True in vals else (None if None in vals else False)
        if isinstance(e, ast.UnaryOp) and isinstance(e.op, ast.Not):
            v = self.ev(e.operand, consts, at)
            return None if v is None else not v
        if isinstance(e, ast.Constant):
            return bool(e.value)
        if isinstance(e, ast.Name):
            if e.id in consts:
                return consts[e.id]
            v, _ = self.cx.resolve(e, at)
            if isinstance(v, ast.Call) and astx.callee_attr(v) in ('where', 'nonzero') and len(v.args) == 1:
                return True    # np.where(cond) is a non-empty tuple of index arrays
            return None
        if isinstance(e, ast.Compare) and len(e.ops) == 1:
            a, b, op = e.left, e.comparators[0], e.ops[0]
            if self.is_sc(b) and not self.is_sc(a) and isinstance(op, (ast.Eq, ast.NotEq)):
                a, b = b, a
            if self.is_sc(a):
                if isinstance(op, (ast.Eq, ast.NotEq)) and astx.const_str(b) is not None:
                    r = self.lit == b.value
                    return r if isinstance(op, ast.Eq) else not r
                if isinstance(op, (ast.In, ast.NotIn)) and isinstance(b, (ast.Tuple, ast.List, ast.Set)) and \
                        all(astx.const_str(x) is not None for x in b.elts):
                    r = self.lit in [x.value for x in b.elts]
                    return r if isinstance(op, ast.In) else not r
        return None

    def is_array(self, e, arr, at):
        """True when e is elementwise in the wrt value (not reduced to a scalar)."""
        if isinstance(e, ast.Name):
            return arr.get(e.id, False)
        if isinstance(e, ast.Call):
            if astx.callee_attr(e) in _REDUCERS:
                return False
            if astx.callee_attr(e) in ('_abs_get_val', 'get_val', '_get_val', '_abs_get_val_flat'):
                return True     # the value of the wrt variable
            return any(self.is_array(a, arr, at) for a in list(e.args) + [k.value for k in e.keywords]) or \
                (astx.receiver(e) is not None and self.is_array(astx.receiver(e), arr, at))
        if isinstance(e, ast.Subscript):
            return False if isinstance(e.slice, ast.Constant) else self.is_array(e.value, arr, at)
        if isinstance(e, ast.Attribute) and e.attr in ('size', 'shape', 'ndim', 'dtype'):
            return False
        return any(self.is_array(c, arr, at) for c in ast.iter_child_nodes(e) if isinstance(c, ast.expr))

    def clamp_test(self, e):
        """('ok'|'inverted', s, m) if e compares two step-length names, else None."""
        c = _lt(e)
        if c and isinstance(c[0], ast.Name) and isinstance(c[1], ast.Name):
            return c[0].id, c[1].id
        return None

    def run(self):
        g = self.g
        stack = [(g.entry, {}, {}, ())]
        n_paths = 0
        self.visited = set()
        while stack:
            node, consts, arr, events = stack.pop()
            self.visited.add(node)
            if node is g.exit or node is g.raise_exit:
                self.paths.append(events)
                n_paths += 1
                if n_paths > 4000:
                    raise AnalysisError('too many paths in _get_approx_data')
                continue
            consts, arr = dict(consts), dict(arr)
            succ = [(m, lab) for m, lab in g.succ[node] if lab != 'exc']
            if node.kind == 'test':
                t = node.ast.test
                ct = self.clamp_test(t)
                if ct and ct[0] in self.sm.seeds | set(arr) and isinstance(node.ast, ast.If):
                    s_, m_ = ct
                    body_ok = any(isinstance(b, ast.Assign) and len(b.targets) == 1 and
                                  astx.path(b.targets[0]) == s_ and isinstance(b.value, ast.Name) and
                                  b.value.id == m_ for b in node.ast.body)
                    if body_ok and self.sm.env.get(m_) == 1:
                        events = events + (('clamp', s_, node),)
                    elif self.sm.env.get(s_) == 1 and m_ in self.sm.seeds:
                        events = events + (('badclamp', m_, node),)
                v = self.ev(t, consts, node)
                for m, lab in succ:
                    if (lab == 'true' and v is not False) or (lab == 'false' and v is not True) or \
                            lab not in ('true', 'false'):
                        stack.append((m, consts, arr, events))
                continue
            if node.kind == 'stmt':
                st = node.ast
                if isinstance(st, ast.Assign) and len(st.targets) == 1 and isinstance(st.targets[0], ast.Name):
                    nm = st.targets[0].id
                    if isinstance(st.value, ast.Constant) and isinstance(st.value.value, bool):
                        consts[nm] = st.value.value
                    else:
                        consts.pop(nm, None)
                    if nm in self.sm.seeds:
                        v = st.value
                        if isinstance(v, ast.Subscript) and astx.const_str(v.slice) in _STEP_KEYS:
                            arr[nm] = False
                        elif isinstance(v, ast.Name) and self.sm.env.get(v.id) == 1:
                            arr[nm] = arr.get(v.id, False)          # clamp assignment  s = m (event at its test)
                        elif isinstance(v, ast.Call) and astx.callee_attr(v) in ('max', 'maximum', 'fmax') and \
                                len(v.args) == 2 and all(isinstance(a, ast.Name) for a in v.args) and \
                                nm in {a.id for a in v.args} and \
                                all(self.sm.env.get(a.id) == 1 for a in v.args):
                            arr[nm] = any(arr.get(a.id, False) for a in v.args)
                            events = events + (('clamp', nm, node),)
                        elif _num(v) is None:
                            arr[nm] = self.is_array(v, arr, node)
                            events = events + (('scale', nm, node),)
                    else:
                        arr[nm] = self.is_array(st.value, arr, node)
                        self.use(st, st.value, arr, node, events_box := [events])
                        events = events_box[0]
                elif isinstance(st, ast.Assign) and len(st.targets) == 1 and isinstance(st.targets[0], ast.Tuple) and \
                        isinstance(st.value, ast.Call):
                    tn_ = [t.id if isinstance(t, ast.Name) else None for t in st.targets[0].elts]
                    for i_, nm in enumerate(tn_):
                        if nm is None:
                            continue
                        consts.pop(nm, None)
                        hf, rets = _helper_return_elts(self.sm.fn, st.value, i_, len(tn_))
                        arr[nm] = bool(rets) and any(self.is_array(elt, {}, node) for _, elt in rets)
                elif isinstance(st, ast.AugAssign) and isinstance(st.target, ast.Name):
                    nm = st.target.id
                    consts.pop(nm, None)
                    if nm in self.sm.seeds:
                        arr[nm] = arr.get(nm, False) or self.is_array(st.value, arr, node)
                        events = events + (('scale', nm, node),)
                elif isinstance(st, ast.Assign) and len(st.targets) == 1 and isinstance(st.targets[0], ast.Subscript) \
                        and isinstance(st.targets[0].value, ast.Name) and st.targets[0].value.id in self.sm.seeds:
                    nm = st.targets[0].value.id
                    idx, at2 = self.cx.resolve(st.targets[0].slice, node)
                    cond = None
                    if isinstance(idx, ast.Call) and astx.callee_attr(idx) in ('where', 'nonzero') and len(idx.args) == 1:
                        cond = idx.args[0]
                    elif isinstance(idx, ast.Compare):
                        cond = idx
                    ct = self.clamp_test(cond) if cond is not None else None
                    if ct and ct[0] == nm and isinstance(st.value, ast.Name) and st.value.id == ct[1] and \
                            self.sm.env.get(ct[1]) == 1:
                        events = events + (('clamp', nm, node),)
                    elif ct and ct[1] == nm:
                        events = events + (('badclamp', nm, node),)
                elif isinstance(st, ast.Return) and st.value is not None:
                    box = [events]
                    self.use(st, st.value, arr, node, box)
                    events = box[0]
            for m, lab in succ:
                stack.append((m, consts, arr, events))

    def use(self, st, value, arr, node, box):
        """Record a formula that combines an array-valued step with the FD point vectors outside np.outer."""
        has_vec_field = [w for w in astx.walk(value) if isinstance(w, ast.Attribute) and w.attr in ('deltas', 'coeffs')]
        if not has_vec_field:
            return
        for w in astx.walk(value):
            if isinstance(w, ast.Name) and arr.get(w.id, False):
                inside_outer = any(isinstance(a, ast.Call) and astx.callee_attr(a) == 'outer'
                                   for a in astx.ancestors(w) if a is not st and
                                   any(x is a for x in astx.walk(value)))
                if not inside_outer:
                    box[0] = box[0] + (('flat-use', w.id, node),)


@rule('C12.step-calc', floor=5)
def step_calc(repo, out):
    """Every step_calc literal accepted by add_approximation is dispatched in _get_approx_data: 'abs' never rescales, every relative literal rescales and is clamped by minimum_step afterwards, and an elementwise step only meets the np.outer formulas."""
    fa, cmpnode, lits = _step_calc_literals(repo)
    fn = repo.func(FD, 'FiniteDifference._get_approx_data')
    sm = StepModel(fn)
    if 'abs' not in lits:
        out.unsure(fa, cmpnode, "'abs' is not among the accepted step_calc values")
    for lit in lits:
        w = _Walk(sm, lit)
        if not w.sc_names:
            raise AnalysisError(f"{fn.ident}: no local read from meta['step_calc']")
        w.run()
        key = f'step-calc-{lit}'
        scaled = [p for p in w.paths if any(e[0] == 'scale' for e in p)]
        problem = None
        if lit == 'abs':
            if scaled:
                e = [e for e in scaled[0] if e[0] == 'scale'][0]
                problem = (e[2].ast, "step_calc='abs' rescales the step: the configured absolute step is not used")
        else:
            if not scaled:
                problem = (cmpnode, f'step_calc={lit!r} is accepted by add_approximation but no branch of '
                           f'_get_approx_data rescales the step for it (it silently behaves like \'abs\')')
        if problem is None:
            for p in w.paths:
                for i, e in enumerate(p):
                    if e[0] == 'scale' and not any(f[0] == 'clamp' and f[1] == e[1] for f in p[i + 1:]):
                        inv = [f for f in p[i + 1:] if f[0] == 'badclamp']
                        problem = ((inv[0][2].ast if inv else e[2].ast),
                                   f'step_calc={lit!r}: the relative step is not clamped from below by minimum_step '
                                   f'after `{astx.src(e[2].ast)}`' +
                                   (' (the comparison is inverted)' if inv else '') +
                                   ': a zero-valued variable yields a zero step and a division by zero')
                        break
                    if e[0] == 'flat-use':
                        problem = (e[2].ast, f'step_calc={lit!r}: the elementwise step `{e[1]}` is combined with the '
                                   f'FD point vectors without np.outer: this literal is not dispatched to the '
                                   f'elementwise formulas')
                        break
                if problem:
                    break
        if problem:
            out.bad(fa if problem[0] is cmpnode else fn, problem[0], problem[1], key=key)
        else:
            out.ok(fn, cmpnode, f'{lit!r}: {len(w.paths)} path(s); ' +
                   ('never rescaled' if lit == 'abs' else 'rescaled then clamped on every path'))


# =========================================================================== C12.fd-accum
def _nz_polarity(e, base, cx=None, at=None, depth=0):
    """+1 if truth of e means `base` is nonzero, -1 if it means zero, 0 if not recognised.

    Local flags / temporaries are followed through all their reaching definitions (which must agree).
    """
    if depth > 6:
        return 0
    if isinstance(e, ast.UnaryOp) and isinstance(e.op, ast.Not):
        return -_nz_polarity(e.operand, base, cx, at, depth + 1)
    if isinstance(e, ast.Call) and astx.callee_attr(e) in ('any', 'all', 'count_nonzero', 'bool') and len(e.args) == 1:
        return _nz_polarity(e.args[0], base, cx, at, depth + 1)
    if isinstance(e, ast.Name) and e.id == base:
        return 1
    if isinstance(e, ast.Subscript) and isinstance(e.value, ast.Name) and e.value.id == base:
        return 1
    if isinstance(e, ast.Subscript) and isinstance(e.value, ast.Name) and cx is not None:
        return _nz_polarity(e.value, base, cx, at, depth + 1)
    if isinstance(e, ast.Name) and cx is not None and at is not None:
        ds = cx.rd.defs(at, e.id)
        pols = set()
        for d in ds:
            if d.kind == 'stmt' and isinstance(d.ast, ast.Assign) and len(d.ast.targets) == 1 and \
                    astx.path(d.ast.targets[0]) == e.id:
                pols.add(_nz_polarity(d.ast.value, base, cx, d, depth + 1))
            else:
                pols.add(0)
        return pols.pop() if len(pols) == 1 else 0
    if isinstance(e, ast.Compare) and len(e.ops) == 1 and isinstance(e.ops[0], (ast.Eq, ast.NotEq)):
        a, b = e.left, e.comparators[0]
        if _num(a) == 0:
            a, b = b, a
        if _num(b) == 0 and _nz_polarity(a, base, cx, at, depth + 1) == 1:
            return 1 if isinstance(e.ops[0], ast.NotEq) else -1
    return 0


@rule('C12.fd-accum', floor=6)
def fd_accum(repo, out):
    """FD._run_point: result = current_coeff*f(x) + sum(coeff_i*f(x+delta_i)): initialised on every path, each sub-point weighted by its own coefficient and accumulated exactly once, slots of the data triple used in their roles."""
    fn = repo.func(FD, 'FiniteDifference._run_point')
    cx = Ctx(fn)
    g = cx.g
    ps = cx.params
    if len(ps) < 7:
        raise AnalysisError(f'{fn.ident}: signature changed')
    p_data, p_res, p_total, p_loc = ps[3], ps[4], ps[5], ps[6]
    unp = [st for st in astx.walk_stmts(fn.node.body) if isinstance(st, ast.Assign) and len(st.targets) == 1 and
           isinstance(st.targets[0], ast.Tuple) and isinstance(st.value, ast.Name) and st.value.id == p_data]
    if len(unp) != 1 or len(unp[0].targets[0].elts) != 3 or \
            not all(isinstance(x, ast.Name) for x in unp[0].targets[0].elts):
        raise AnalysisError(f'{fn.ident}: `a, b, c = {p_data}` not found')
    s0, s1, s2 = [x.id for x in unp[0].targets[0].elts]
    loops = [st for st in astx.walk_stmts(fn.node.body) if isinstance(st, ast.For) and
             isinstance(st.iter, ast.Call) and astx.call_name(st.iter) == 'zip']
    if len(loops) != 1:
        raise AnalysisError(f'{fn.ident}: expected one `for .. in zip(..)` loop, found {len(loops)}')
    loop = loops[0]
    hdr = g.nodes_of(loop)[0]
    body = set(g.body_nodes(loop))
    za = loop.iter.args
    tg = loop.target
    if not (len(za) == 2 and all(isinstance(a, ast.Name) for a in za) and isinstance(tg, ast.Tuple) and
            len(tg.elts) == 2 and all(isinstance(a, ast.Name) for a in tg.elts)):
        out.unsure(fn, loop, 'loop is not `for d, c in zip(A, B)`')
        return
    dx, cy = tg.elts[0].id, tg.elts[1].id
    roles = {s0, s1, s2, dx, cy}
    for nm in (s0, s1, s2):
        if len(cx.rd.defs(hdr, nm)) != 1:
            out.unsure(fn, loop, f'`{nm}` is rebound before the loop')
            return
    # 1. zip pairs slot 0 with slot 1
    if (za[0].id, za[1].id) == (s0, s1):
        out.ok(fn, loop, f'loop pairs slot 0 ({s0}) as perturbation with slot 1 ({s1}) as weight')
    elif {za[0].id, za[1].id} <= {s0, s1, s2}:
        out.bad(fn, loop, f'the loop reads the perturbation from `{za[0].id}` and the weight from `{za[1].id}`, but '
                f'the data triple is (deltas, coeffs, current_coeff) = ({s0}, {s1}, {s2})', key='zip-slots')
    else:
        out.unsure(fn, loop, 'zip arguments are not slots of the data triple')
    # 2. the sub-point call
    subs = [(n, c) for n, c in _call_nodes(g, lambda c: astx.callee_attr(c) == '_run_sub_point' and
                                           astx.path(astx.receiver(c)) == 'self') if n in body]
    if len(subs) != 1 or not (isinstance(subs[0][0].ast, ast.Assign) and len(subs[0][0].ast.targets) == 1 and
                              isinstance(subs[0][0].ast.targets[0], ast.Name) and
                              subs[0][0].ast.value is subs[0][1]):
        raise AnalysisError(f'{fn.ident}: expected one `r = self._run_sub_point(...)` in the loop')
    sn, sc = subs[0]
    R = sn.ast.targets[0].id
    dl = astx.arg(sc, 2, 'delta')
    if dl is None:
        out.unsure(fn, sc, 'delta argument of _run_sub_point not found')
    else:
        roots = cx.roots(dl, sn, roles, region=body)
        if roots == {dx}:
            out.ok(fn, sc, f'perturbation passed to _run_sub_point derives from `{dx}` only')
        elif roots:
            out.bad(fn, sc, f'the perturbation passed to _run_sub_point derives from {sorted(roots)}; it must be the '
                    f'current delta `{dx}`', key='delta-slot')
        else:
            out.unsure(fn, sc, 'cannot relate the perturbation to the data triple')
    # 3. weight and accumulate
    mults = [n for n in body if n.kind == 'stmt' and n is not sn and _aug(n.ast, R)]
    accs = [n for n in body if n.kind == 'stmt' and _aug(n.ast, p_res)]
    problem = None
    for m in mults:
        op_, val_ = _aug(m.ast, R)
        rts = cx.roots(val_, m, roles, region=body)
        if op_ is not ast.Mult:
            problem = (m.ast, f'`{R}` is combined with the coefficient by {op_.__name__}, not multiplied')
        elif rts != {cy}:
            problem = (m.ast, f'the sub-point result is weighted by {sorted(rts)}; it must '
                       f'be weighted by its own coefficient `{cy}`')
    good_acc = [a for a in accs if _aug(a.ast, p_res)[0] is ast.Add and isinstance(_aug(a.ast, p_res)[1], ast.Name) and
                _aug(a.ast, p_res)[1].id == R]
    if problem is None:
        if [a for a in accs if a not in good_acc]:
            a = [a for a in accs if a not in good_acc][0]
            problem = (a.ast, f'`{p_res}` must accumulate `+= {R}`')
        else:
            w = g.path(g.normal_succ(sn), good_acc + [hdr], avoid=mults, labels=cfgm.noexc)
            if w is not None:
                problem = (sn.ast, f'a sub-point result reaches the accumulation without being multiplied by its '
                           f'coefficient: {g.fmt_path(w)}')
            elif any(g.reach(g.normal_succ(m), avoid=[hdr], labels=cfgm.noexc) & set(mults) for m in mults):
                problem = (mults[0].ast, 'a sub-point result is multiplied by its coefficient twice')
    if problem:
        out.bad(fn, problem[0], problem[1], key='coeff-slot')
    else:
        out.ok(fn, mults[0].ast, f'`{R}` multiplied exactly once by `{cy}` before it is accumulated')
    w = g.path(g.normal_succ(sn), [hdr], avoid=good_acc, labels=cfgm.noexc)
    twice = any(g.reach(g.normal_succ(a), avoid=[hdr], labels=cfgm.noexc) & set(good_acc) for a in good_acc)
    rebind = [n for n in g.nodes if n.kind == 'stmt' and isinstance(n.ast, ast.Assign) and
              any(isinstance(t, ast.Name) and t.id == p_res for t in astx.assigned_targets(n.ast)) and
              not _aug(n.ast, p_res)]
    if w is not None or twice or rebind:
        why = 'is rebound instead of accumulated in place' if rebind else \
            ('is accumulated twice per sub-point' if twice else
             f'does not accumulate every sub-point: {g.fmt_path(w)}')
        out.bad(fn, (rebind[0].ast if rebind else loop), f'`{p_res}` {why}', key='accumulate')
    else:
        out.ok(fn, good_acc[0].ast, f'`{p_res} += {R}` exactly once per sub-point')
    # 4. initialisation before the loop
    inits = []
    for n in g.nodes:
        if n.kind == 'stmt' and n not in body and isinstance(n.ast, ast.Assign) and len(n.ast.targets) == 1:
            t = n.ast.targets[0]
            if isinstance(t, ast.Subscript) and isinstance(t.value, ast.Name) and t.value.id == p_res and \
                    _is_full_slice(t.slice):
                inits.append(n)
    w = g.path([g.entry], [hdr], avoid=set(inits) | body, labels=cfgm.noexc)
    problem = None
    unsure = None
    if w is not None:
        problem = (loop, f'`{p_res}` is not initialised on the path {g.fmt_path(w)}: the column accumulates on top '
                   f'of the previous one', 'init')
    copies = [n for n in inits if _num(n.ast.value) != 0]
    zeros = [n for n in inits if _num(n.ast.value) == 0]
    if problem is None and not copies:
        problem = (zeros[0].ast if zeros else loop, f'the current point is never added: current_coeff*f(x) is missing '
                   f'from the difference', 'current-coeff')
    scales = [n for n in g.nodes if n.kind == 'stmt' and n not in body and _aug(n.ast, p_res)]
    if problem is None:
        for cnode in copies:
            v = cnode.ast.value
            src = None
            if isinstance(v, ast.Call) and astx.callee_attr(v) == 'asarray' and astx.receiver(v) is not None:
                rcv, at2 = cx.resolve(astx.receiver(v), cnode)
                if isinstance(rcv, ast.IfExp):
                    t = rcv.test
                    a, b = cx.vec(rcv.body, at2), cx.vec(rcv.orelse, at2)
                    if isinstance(t, ast.UnaryOp) and isinstance(t.op, ast.Not):
                        t, a, b = t.operand, b, a
                    if isinstance(t, ast.Name) and t.id == p_total and a and b:
                        src = (a, b)
                else:
                    vv = cx.vec(rcv, at2)
                    if vv:
                        src = (vv, vv)
            if src is None:
                unsure = (cnode.ast, 'source of the current-point copy not recognised')
                break
            if src != ('_outputs', '_residuals'):
                problem = (cnode.ast, f'the current point is read from {src[0]} (total) / {src[1]} (partial); the '
                           f'perturbed points are read from _outputs (total) / _residuals (partial)', 'current-vec')
                break
            w = g.path(g.normal_succ(cnode), [hdr], avoid=scales, labels=cfgm.noexc)
            bad_scale = [s_ for s_ in scales if _aug(s_.ast, p_res)[0] is not ast.Mult or
                         cx.roots(_aug(s_.ast, p_res)[1], s_, roles) != {s2}]
            if w is not None or bad_scale:
                problem = ((bad_scale[0].ast if bad_scale else cnode.ast), f'the copy of the current point must be '
                           f'multiplied by current_coeff (`{s2}`) before the loop', 'current-coeff')
                break
    if problem is None and unsure is None:
        for z in zeros:
            st = z.ast
            par = astx.enclosing(st, (ast.If,))
            if par is None:
                problem = (st, f'`{p_res}` is zeroed unconditionally: the current-point term is lost', 'zero-init')
                break
            pol = _nz_polarity(par.test, s2, cx, g.nodes_of(par)[0])
            if pol == 0:
                # an `if rel_element:`-style outer test: look one level up is not needed, the zero store must be
                # directly controlled by the nonzero test of current_coeff
                unsure = (par, f'zero initialisation is not directly guarded by a test of `{s2}`')
                break
            in_body = astx.in_body(st, par, 'body')
            if (pol == 1 and in_body) or (pol == -1 and not in_body):
                problem = (par, f'`{p_res}` is zeroed when `{s2}` is nonzero and filled with the current point when it '
                           f'is zero: the branches are inverted', 'zero-init')
                break
    if unsure is not None and problem is None:
        out.unsure(fn, unsure[0], unsure[1])
    elif problem:
        out.bad(fn, problem[0], problem[1], key=problem[2])
    else:
        out.ok(fn, copies[0].ast, f'initialised on every path: current_coeff * current point ({len(copies)} site(s)) or '
               f'zero when current_coeff is zero ({len(zeros)} site(s))')
    # 5. rel_element indexing
    flags = set()
    for st in astx.walk_stmts(fn.node.body):
        if isinstance(st, ast.Assign) and len(st.targets) == 1 and isinstance(st.targets[0], ast.Name) and \
                any(isinstance(w_, ast.Attribute) and w_.attr == 'size' for w_ in astx.walk(st.value)) and \
                s2 in astx.names(st.value):
            flags.add(st.targets[0].id)
    def _flag_pol(t):
        if isinstance(t, ast.Name) and t.id in flags:
            return 1
        if isinstance(t, ast.UnaryOp) and isinstance(t.op, ast.Not) and isinstance(t.operand, ast.Name) and \
                t.operand.id in flags:
            return -1
        return 0
    arms = []       # (reporting node, [AST roots evaluated only when rel_element holds])
    for w_ in astx.walk(fn.node):
        if isinstance(w_, ast.If) and _flag_pol(w_.test):
            arms.append((w_, w_.body if _flag_pol(w_.test) == 1 else w_.orelse))
        elif isinstance(w_, ast.IfExp) and _flag_pol(w_.test):
            arms.append((w_, [w_.body if _flag_pol(w_.test) == 1 else w_.orelse]))
    if not arms:
        out.unsure(fn, fn.node, 'no `if rel_element:` branch recognised')
        return
    problem = None
    n_idx = 0
    for st, region in arms:
        for sub in region:
            for w_ in astx.walk(sub):
                if isinstance(w_, ast.Name) and w_.id in (s2, dx, cy) and isinstance(w_.ctx, ast.Load):
                    par = getattr(w_, '_parent', None)
                    if isinstance(par, ast.Subscript) and par.value is w_:
                        n_idx += 1
                        if not (isinstance(par.slice, ast.Name) and par.slice.id == p_loc):
                            problem = problem or (par, f'under rel_element `{w_.id}` must be indexed by `{p_loc}` (the '
                                                  f'element being stepped), found `{astx.src(par)}`')
                    elif isinstance(par, ast.If) and par.test is w_:
                        pass
                    else:
                        problem = problem or (astx.stmt_of(w_), f'under rel_element `{w_.id}` is a per-element vector '
                                              f'and must be indexed by `{p_loc}`')
    if problem:
        out.bad(fn, problem[0], problem[1], key='rel-element-index')
    elif n_idx == 0:
        out.unsure(fn, arms[0][0], 'rel_element branches do not index the data triple')
    else:
        out.ok(fn, arms[0][0], f'{n_idx} per-element reads under rel_element all use [{p_loc}]')


# =========================================================================== C12.colored-scatter
@rule('C12.colored-scatter', floor=1)
def colored_scatter(repo, out):
    """Coloured decompression: for each column the scratch buffer is zeroed, then filled through one row mask used on both sides, the mask belongs to the yielded column."""
    fn = repo.func(AS, 'ApproximationScheme._colored_column_iter')
    cx = Ctx(fn)
    g = cx.g
    ys = []
    for n in g.nodes:
        if n.kind == 'stmt' and isinstance(n.ast, ast.Expr) and isinstance(n.ast.value, ast.Yield):
            ys.append(n)
    if not ys:
        raise AnalysisError(f'{fn.ident}: no yield')
    for y in ys:
        v = y.ast.value.value
        key = 'scatter'
        if not (isinstance(v, ast.Tuple) and len(v.elts) == 2 and all(isinstance(e, ast.Name) for e in v.elts)):
            out.unsure(fn, y.ast, 'yield is not `yield col, buffer`')
            continue
        col, buf = v.elts[0].id, v.elts[1].id
        loop = astx.enclosing(y.ast, (ast.For,))
        if loop is None or not (isinstance(loop.iter, ast.Call) and astx.call_name(loop.iter) == 'enumerate' and
                                len(loop.iter.args) == 1 and isinstance(loop.iter.args[0], ast.Name) and
                                isinstance(loop.target, ast.Tuple) and len(loop.target.elts) == 2 and
                                all(isinstance(e, ast.Name) for e in loop.target.elts)):
            out.unsure(fn, y.ast, 'yield is not inside `for i, col in enumerate(cols)`')
            continue
        idx, lcol = loop.target.elts[0].id, loop.target.elts[1].id
        jc = loop.iter.args[0].id
        hdr = g.nodes_of(loop)[0]
        body = set(g.body_nodes(loop))
        if lcol != col:
            out.bad(fn, y.ast, f'the yielded column index `{col}` is not the loop column `{lcol}`', key=key)
            continue
        zeros, scat = [], []
        for n in body:
            if n.kind == 'stmt' and isinstance(n.ast, ast.Assign) and len(n.ast.targets) == 1:
                t = n.ast.targets[0]
                if isinstance(t, ast.Subscript) and isinstance(t.value, ast.Name) and t.value.id == buf:
                    if _is_full_slice(t.slice) and _num(n.ast.value) == 0:
                        zeros.append(n)
                    else:
                        scat.append(n)
        entry = [m for m, lab in g.succ[hdr] if lab == 'true']
        w = g.path(entry, [y], avoid=zeros, labels=cfgm.noexc)
        if w is not None:
            out.bad(fn, y.ast, f'`{buf}` is reused for every column but not zeroed before column `{col}` is filled: '
                    f'rows of the previous column leak into this one', key=key)
            continue
        if not scat:
            out.bad(fn, y.ast, f'`{buf}` is yielded without being filled from the result', key=key)
            continue
        problem = None
        for sc_ in scat:
            t, val = sc_.ast.targets[0], sc_.ast.value
            if not (isinstance(val, ast.Subscript) and isinstance(val.value, ast.Name)):
                out.unsure(fn, sc_.ast, 'scatter source is not `res[mask]`')
                problem = 'unsure'
                break
            ts, tat = cx.resolve(t.slice, sc_)
            vs, vat = cx.resolve(val.slice, sc_)
            if _dump(ts) != _dump(vs) or any(cx.rd.defs(tat, nm_) != cx.rd.defs(vat, nm_)
                                            for nm_ in astx.names(ts)):
                problem = (sc_.ast, f'rows `{astx.src(ts)}` of `{buf}` are filled from rows `{astx.src(vs)}` '
                           f'of the result: source and target row masks differ')
                break
            m = ts
            if not (isinstance(m, ast.Subscript) and isinstance(m.value, ast.Name)):
                out.unsure(fn, sc_.ast, 'row mask is not `rows[i]`')
                problem = 'unsure'
                break
            if tat is not sc_ and (tat not in body or any(cx.rd.defs(tat, nm_) != cx.rd.defs(sc_, nm_)
                                                          for nm_ in astx.names(m))):
                out.unsure(fn, sc_.ast, 'row mask temporary is not computed in the same iteration')
                problem = 'unsure'
                break
            if not (isinstance(m.slice, ast.Name) and m.slice.id == idx):
                problem = (sc_.ast, f'the row mask `{astx.src(m)}` is not the mask of the column being yielded '
                           f'(`{m.value.id}[{idx}]`)')
                break
            if val.value.id == buf:
                problem = (sc_.ast, 'the buffer is filled from itself')
                break
            # rows and columns are elements of the same group tuple
            sj = cx.slot_of(jc, hdr, exclude=[hdr])
            sn_ = cx.slot_of(m.value.id, sc_)
            if sj is None or sn_ is None:
                out.unsure(fn, sc_.ast, f'cannot see which group tuple `{m.value.id}` and `{jc}` are taken from')
                problem = 'unsure'
                break
            if sj[0] != sn_[0]:
                problem = (sc_.ast, f'`{m.value.id}` and `{jc}` are not taken from the same group tuple')
                break
            if g.path(g.normal_succ(sc_), zeros, avoid=[hdr, y], labels=cfgm.noexc) is not None:
                problem = (sc_.ast, f'`{buf}` is zeroed after it has been filled')
                break
        if problem == 'unsure':
            continue
        if problem is None:
            w = g.path([m for z in zeros for m in g.normal_succ(z)], [y], avoid=scat, labels=cfgm.noexc)
            if w is not None:
                problem = (y.ast, f'`{buf}` can be yielded without being filled: {g.fmt_path(w)}')
        if problem:
            out.bad(fn, problem[0], problem[1], key=key)
        else:
            out.ok(fn, scat[0].ast, f'`{buf}[:] = 0` then `{buf}[rows[{idx}]] = res[rows[{idx}]]` before every yield')


# =========================================================================== C12.pipeline
def _enclosing_guard(node_ast, stop, atom_of):
    """Conjunction (boolx formula) of the if-tests between statement node_ast and ancestor `stop`."""
    from .. import boolx
    parts = []
    cur = node_ast
    for a in astx.ancestors(node_ast):
        if a is stop:
            break
        if isinstance(a, ast.If):
            f = boolx.from_ast(a.test, atom_of)
            if cur in a.orelse or any(cur is x for st in a.orelse for x in astx.walk(st, into_scopes=True)):
                f = boolx.Not(f)
            parts.append(f)
        cur = a
    return boolx.And(*parts) if parts else boolx.TRUE


def _data_per_group(repo, qn):
    """True if the producer of the groups consumed by iterator qn computes approximation data per group,
    False if one data object is shared by all groups, None if not recognised."""
    if 'uncolored' not in qn:
        fp = repo.func(AS, 'ApproximationScheme._init_colored_approximations')
        cp = Ctx(fp)
        prods = [c.args[0] for c in astx.calls(fp.node) if astx.callee_attr(c) == 'append' and
                 astx.path(astx.receiver(c)) == 'self._colored_approx_groups' and len(c.args) == 1 and
                 isinstance(c.args[0], ast.Tuple)]
        if len(prods) != 1:
            return None
        lp = astx.enclosing(prods[0], (ast.For,))
        if lp is None:
            return None
        body = set(cp.g.body_nodes(lp))
        pn = cp.g.nodes_of(astx.stmt_of(prods[0]))[0]
        for e in prods[0].elts:
            if isinstance(e, ast.Name):
                ds = _real_defs(cp.rd.defs(pn, e.id))
                if ds and all(d.kind == 'stmt' and isinstance(d.ast, ast.Assign) and isinstance(d.ast.value, ast.Call)
                              and astx.callee_attr(d.ast.value) == '_get_approx_data' for d in ds):
                    return any(d in body for d in ds)
        return None
    fp = repo.func(AS, 'ApproximationScheme._init_approximations')
    cs_ = [c for c in astx.calls(fp.node) if astx.callee_attr(c) == '_get_approx_data']
    if not cs_:
        return None
    return all(astx.enclosing(c, (ast.For,)) is not None for c in cs_)


@rule('C12.pipeline', floor=2)
def pipeline(repo, out):
    """Both column iterators pass every point result through _transform_result exactly once and multiply it by _get_multiplier(data of the same group) whenever that multiplier differs from 1."""
    from .. import boolx
    for qn in ('ApproximationScheme._colored_column_iter', 'ApproximationScheme._uncolored_column_iter'):
        fn = repo.func(AS, qn)
        cx = Ctx(fn)
        g = cx.g
        key = 'pipeline-' + qn.split('.')[-1].strip('_').split('_')[0]
        runs = [(n, c) for n, c in _call_nodes(g, lambda c: astx.callee_attr(c) == '_run_point' and
                                              astx.path(astx.receiver(c)) == 'self')]
        names_r = {n.ast.targets[0].id for n, c in runs if isinstance(n.ast, ast.Assign) and
                   len(n.ast.targets) == 1 and isinstance(n.ast.targets[0], ast.Name) and n.ast.value is c}
        if not runs or len(names_r) != 1 or any(not isinstance(n.ast, ast.Assign) for n, _ in runs):
            raise AnalysisError(f'{fn.ident}: `result = self._run_point(...)` not recognised')
        R = names_r.pop()
        loop = [a for a in astx.ancestors(runs[0][0].ast) if isinstance(a, ast.For)]
        if not loop:
            raise AnalysisError(f'{fn.ident}: _run_point is not inside a loop')
        inner = loop[0]
        hdr = g.nodes_of(inner)[0]
        trans = [n for n in g.nodes if n.kind == 'stmt' and isinstance(n.ast, ast.Assign) and
                 isinstance(n.ast.value, ast.Call) and astx.callee_attr(n.ast.value) == '_transform_result']
        sends = [n for n in g.nodes if n.kind == 'stmt' and isinstance(n.ast, ast.Assign) and
                 isinstance(n.ast.value, ast.Tuple) and
                 any(isinstance(e, ast.Name) and e.id == R for e in n.ast.value.elts)]
        mults = [n for n in g.nodes if n.kind == 'stmt' and isinstance(n.ast, ast.AugAssign) and
                 isinstance(n.ast.target, ast.Name) and n.ast.target.id == R]
        if not sends:
            raise AnalysisError(f'{fn.ident}: no `tosend = (.., {R})`')
        problem = None
        for t in trans:
            v = t.ast.value
            if not (len(t.ast.targets) == 1 and isinstance(t.ast.targets[0], ast.Name) and t.ast.targets[0].id == R and
                    len(v.args) == 1 and isinstance(v.args[0], ast.Name) and v.args[0].id == R and
                    astx.path(astx.receiver(v)) == 'self'):
                problem = (t.ast, f'_transform_result is not applied as `{R} = self._transform_result({R})`')
        if problem is None:
            for rn, rc in runs:
                tgt = [s_ for s_ in sends if g.path(g.normal_succ(rn), [s_], avoid=[hdr], labels=cfgm.noexc)]
                if not tgt:
                    problem = (rn.ast, f'the result of this run never reaches `tosend`')
                    break
                w = g.path(g.normal_succ(rn), tgt, avoid=trans + [hdr], labels=cfgm.noexc)
                if w is not None:
                    problem = (rn.ast, f'a point result is sent without _transform_result (real/imaginary part not '
                               f'extracted): {g.fmt_path(w)}')
                    break
            if problem is None and any(g.reach(g.normal_succ(t), avoid=[hdr], labels=cfgm.noexc) & set(trans)
                                       for t in trans):
                problem = (trans[0].ast, '_transform_result is applied twice to one result')
        # multiplier
        if problem is None:
            if not mults:
                problem = (runs[0][0].ast, f'the result is never multiplied by _get_multiplier(...): complex-step '
                           f'columns are not divided by the step')
            elif any(g.reach(g.normal_succ(m), avoid=[hdr], labels=cfgm.noexc) & set(mults) for m in mults):
                problem = (mults[0].ast, 'the multiplier is applied twice to one result')
        if problem is None:
            for m in mults:
                if not (isinstance(m.ast.op, ast.Mult) and isinstance(m.ast.value, ast.Name)):
                    problem = (m.ast, f'`{R}` must be multiplied by the multiplier')
                    break
                M = m.ast.value.id
                # multiplier computed once, ahead of the loop over the approximation groups
                outer = loop[-1]
                ohdr = g.nodes_of(outer)[0]
                obody = set(g.body_nodes(outer))
                mdefs = cx.rd.defs(m, M)
                if mdefs and all(d not in obody and d.kind == 'stmt' and isinstance(d.ast, ast.Assign) and
                                 any(astx.callee_attr(c_) == '_get_multiplier' for c_ in astx.calls(d.ast.value))
                                 for d in mdefs):
                    per_group = _data_per_group(repo, qn)
                    varies = any(ohdr in _iteration_identity(cx, astx.names(astx.arg(rc, 2, 'data') or ast.Tuple(elts=[])), rn)
                                 for rn, rc in runs)
                    if per_group is False:
                        continue    # every group carries the same data object: one multiplier fits all
                    if per_group and varies:
                        d0 = sorted(mdefs, key=lambda d: d.id)[0]
                        problem = (d0.ast, f'`{M}` is computed once before the loop over the approximation groups, but '
                                   f'every group carries its own approximation data (own complex step): columns of '
                                   f'later groups are scaled with the multiplier of the first group')
                        break
                    out.unsure(fn, m.ast, f'`{M}` is computed outside the group loop')
                    problem = 'unsure'
                    break
                sd = cx.single_def(m, M)
                if not sd or not (isinstance(sd[0], ast.Call) and astx.callee_attr(sd[0]) == '_get_multiplier' and
                                  len(sd[0].args) == 1 and isinstance(sd[0].args[0], ast.Name)):
                    out.unsure(fn, m.ast, f'`{M}` is not `self._get_multiplier(<name>)`')
                    problem = 'unsure'
                    break
                D = sd[0].args[0].id
                if any(d.kind == 'stmt' and isinstance(d.ast, ast.Assign) and
                       any(isinstance(a_, ast.Call) and astx.callee_attr(a_) == 'apply_directional'
                           for a_ in _arms(d.ast.value)) for d in cx.rd.defs(sd[1], D)):
                    problem = (sd[1].ast, f'the multiplier is computed from `{D}`, which already contains the '
                               f'direction vector: it must come from the undirected approximation data')
                    break
                for rn, rc in runs:
                    Y = astx.arg(rc, 2, 'data')
                    okd = False
                    if isinstance(Y, ast.Name):
                        if Y.id == D:
                            okd = cx.rd.defs(rn, D) == cx.rd.defs(sd[1], D)
                        else:
                            ds = cx.rd.defs(rn, Y.id)
                            okd = bool(ds) and all(
                                d.kind == 'stmt' and isinstance(d.ast, ast.Assign) and all(
                                    (isinstance(a_, ast.Name) and a_.id == D) or
                                    (isinstance(a_, ast.Call) and astx.callee_attr(a_) == 'apply_directional' and
                                     a_.args and isinstance(a_.args[0], ast.Name) and a_.args[0].id == D)
                                    for a_ in _arms(d.ast.value))
                                and cx.rd.defs(d, D) == cx.rd.defs(sd[1], D) for d in ds)
                    if not okd:
                        problem = (m.ast, f'the multiplier comes from `{D}` but the point was run with '
                                   f'`{astx.src(Y)}`: multiplier and perturbation belong to different data')
                        break
                if problem:
                    break

                def atom_of(e, M=M):
                    if isinstance(e, ast.Compare) and len(e.ops) == 1 and isinstance(e.ops[0], (ast.Eq, ast.NotEq)):
                        a, b = e.left, e.comparators[0]
                        if _num(a) == 1:
                            a, b = b, a
                        if isinstance(a, ast.Name) and a.id == M and _num(b) == 1:
                            return 'M' if isinstance(e.ops[0], ast.NotEq) else ('not', 'M')
                    return _dump(e)
                try:
                    gm = _enclosing_guard(m.ast, inner, atom_of)
                    for s_ in sends:
                        if g.path(g.normal_succ(m), [s_], avoid=[hdr], labels=cfgm.noexc) is None and \
                                not g.path([m], [s_], avoid=[hdr], labels=cfgm.noexc):
                            continue
                        gs = _enclosing_guard(s_.ast, inner, atom_of)
                        res = boolx.implies(boolx.And(gs, boolx.A('M')), gm)
                        if not res[0]:
                            problem = (m.ast, f'the multiplication is skipped although the multiplier differs from 1 '
                                       f'({boolx.fmt_val(res[2])}): the column is sent unscaled')
                            break
                except AnalysisError as e:
                    out.unsure(fn, m.ast, f'guard of the multiplication not recognised: {e}')
                    problem = 'unsure'
                if problem:
                    break
        if problem == 'unsure':
            continue
        if problem:
            out.bad(fn, problem[0], problem[1], key=key)
        else:
            out.ok(fn, trans[0].ast, f'{len(runs)} run site(s): transform once, multiplier of the same data applied '
                   f'whenever it is not 1')


# =========================================================================== C12.slots
@rule('C12.slots', floor=4)
def slots(repo, out):
    """Producers and consumers of the data triple and of the approximation-group tuples agree on slot positions."""
    # (a) FD.apply_directional keeps the slots
    fn = repo.func(FD, 'FiniteDifference.apply_directional')
    ps = _params(fn)
    ret = _single_return(fn)
    unp = [st for st in astx.walk_stmts(fn.node.body) if isinstance(st, ast.Assign) and len(st.targets) == 1 and
           isinstance(st.targets[0], ast.Tuple) and isinstance(st.value, ast.Name) and len(ps) > 2 and
           st.value.id == ps[1]]
    if len(unp) != 1 or len(unp[0].targets[0].elts) != 3 or not isinstance(ret.value, ast.Tuple) or \
            len(ret.value.elts) != 3 or not all(isinstance(e, ast.Name) for e in unp[0].targets[0].elts):
        out.unsure(fn, ret, 'apply_directional is not `a, b, c = data; return (f(a), b, c)`')
    else:
        nm = [e.id for e in unp[0].targets[0].elts]
        problem = None
        for i, e in enumerate(ret.value.elts):
            used = astx.names(e) & set(nm)
            if used != {nm[i]}:
                problem = f'slot {i} of the returned triple is built from {sorted(used)}, must be built from `{nm[i]}`'
                break
            if i == 0 and ps[2] not in astx.names(e):
                problem = f'the perturbations (slot 0) are not multiplied by `{ps[2]}`'
                break
            if i > 0 and not isinstance(e, ast.Name):
                problem = f'slot {i} must be passed through unchanged'
                break
        if problem is None:
            e0 = ret.value.elts[0]
            ok0 = isinstance(e0, ast.Call) and astx.callee_attr(e0) in ('outer', 'multiply') and len(e0.args) == 2 or \
                isinstance(e0, ast.BinOp) and isinstance(e0.op, ast.Mult)
            if not ok0:
                out.unsure(fn, ret, 'slot 0 is not a product of the deltas and the direction')
            else:
                out.ok(fn, ret, 'apply_directional: (deltas x direction, coeffs, current_coeff)')
        else:
            out.bad(fn, ret, problem, key='directional-slots')
    # (b) coloured groups
    fp = repo.func(AS, 'ApproximationScheme._init_colored_approximations')
    fc = repo.func(AS, 'ApproximationScheme._colored_column_iter')
    prods = [c.args[0] for c in astx.calls(fp.node) if astx.callee_attr(c) == 'append' and
             astx.path(astx.receiver(c)) == 'self._colored_approx_groups' and len(c.args) == 1 and
             isinstance(c.args[0], ast.Tuple)]
    if len(prods) != 1:
        raise AnalysisError(f'{fp.ident}: expected one append of a group tuple')
    prod = prods[0]
    cp = Ctx(fp)
    pn = cp.g.nodes_of(astx.stmt_of(prod))[0]

    def origin(e, cxx, at):
        """callee name the element value comes from (through single local definitions), else None."""
        v, _ = cxx.resolve(e, at)
        if isinstance(v, ast.Call):
            return astx.callee_attr(v)
        if isinstance(e, ast.Name):
            ds = _real_defs(cxx.rd.defs(at, e.id))
            cs = set()
            for d in ds:
                if d.kind == 'stmt' and isinstance(d.ast, ast.Assign) and isinstance(d.ast.value, ast.Call):
                    cs.add(astx.callee_attr(d.ast.value))
                else:
                    cs.add(None)
            if len(cs) == 1:
                return cs.pop()
        return None
    ppos = {}
    for i, e in enumerate(prod.elts):
        o = origin(e, cp, pn)
        if o in ('_get_approx_data', 'get_input_idx_split'):
            ppos[o] = i
    # rows: element whose definition is built from the second target of the colour loop
    ploop = astx.enclosing(prod, (ast.For,))
    if ploop is not None and isinstance(ploop.target, ast.Tuple) and len(ploop.target.elts) == 2 and \
            all(isinstance(e, ast.Name) for e in ploop.target.elts):
        ctgt, rtgt = [e.id for e in ploop.target.elts]
        for i, e in enumerate(prod.elts):
            if isinstance(e, ast.Name) and e.id == rtgt:
                ppos['rows'] = i
            if isinstance(e, ast.Name):
                sd = cp.single_def(pn, e.id)
                if sd and not isinstance(sd[0], ast.Call) and ctgt in astx.names(sd[0]) and rtgt not in astx.names(sd[0]):
                    ppos['cols'] = i
    cc = Ctx(fc)
    loops = [st for st in astx.walk_stmts(fc.node.body) if isinstance(st, ast.For) and
             isinstance(st.iter, ast.Name) and st.iter.id == cc.params[2] and isinstance(st.target, ast.Tuple)]
    if len(loops) != 1 or len(ppos) != 4:
        out.unsure(fc, fc.node, f'group tuple producer/consumer not recognised ({sorted(ppos)})')
    else:
        lp = loops[0]
        tn = [e.id if isinstance(e, ast.Name) else None for e in lp.target.elts]
        problem = None
        if len(tn) != len(prod.elts):
            problem = (lp, f'the group tuple has {len(prod.elts)} slots but the loop unpacks {len(tn)}')
        cpos = {}
        for c in astx.calls(fc.node):
            if astx.callee_attr(c) == '_run_point' and astx.path(astx.receiver(c)) == 'self':
                a1, a2 = astx.arg(c, 1, 'idx_info'), astx.arg(c, 2, 'data')
                if isinstance(a1, ast.Name) and a1.id in tn:
                    cpos['get_input_idx_split'] = tn.index(a1.id)
                if isinstance(a2, ast.Name) and a2.id in tn:
                    cpos['_get_approx_data'] = tn.index(a2.id)
        inner = [st for st in astx.walk_stmts(lp.body) if isinstance(st, ast.Assign) and len(st.targets) == 1 and
                 isinstance(st.targets[0], ast.Tuple) and isinstance(st.value, ast.Subscript) and
                 isinstance(st.value.value, ast.Name) and st.value.value.id == cc.params[2]]
        if problem is None and len(inner) == 1 and len(inner[0].targets[0].elts) != len(prod.elts):
            problem = (inner[0], f'the group tuple has {len(prod.elts)} slots but '
                       f'{len(inner[0].targets[0].elts)} are unpacked')
        if problem is None:
            for st in astx.walk_stmts(lp.body):
                if isinstance(st, ast.For) and isinstance(st.iter, ast.Call) and \
                        astx.call_name(st.iter) == 'enumerate' and len(st.iter.args) == 1 and \
                        isinstance(st.iter.args[0], ast.Name) and isinstance(st.target, ast.Tuple) and \
                        len(st.target.elts) == 2 and isinstance(st.target.elts[0], ast.Name):
                    jc_ = st.iter.args[0].id
                    ix_ = st.target.elts[0].id
                    hn = cc.g.nodes_of(st)[0]
                    sj = cc.slot_of(jc_, hn, exclude=[hn])
                    if sj is None or not sj[0][0] == 'src':
                        continue
                    cpos['cols'] = sj[1]
                    for w_ in astx.walk(st):
                        if isinstance(w_, ast.Subscript) and isinstance(w_.value, ast.Name) and \
                                w_.value.id != jc_ and isinstance(w_.slice, ast.Name) and w_.slice.id == ix_:
                            nn = cc.g.nodes_of(astx.stmt_of(w_))
                            sn_ = cc.slot_of(w_.value.id, nn[0]) if nn else None
                            if sn_ is not None and sn_[0] == sj[0]:
                                cpos['rows'] = sn_[1]
            if any(v >= len(prod.elts) for v in cpos.values()):
                problem = (lp, f'slot {max(cpos.values())} is read from a group tuple that has {len(prod.elts)} slots')
        if problem is None:
            if len(cpos) != 4:
                out.unsure(fc, lp, f'consumer roles not recognised ({sorted(cpos)})')
                problem = 'unsure'
            else:
                diff = [k for k in ppos if ppos[k] != cpos[k]]
                if diff:
                    what = {'_get_approx_data': 'approximation data', 'get_input_idx_split': 'perturbation indices',
                            'rows': 'nonzero rows', 'cols': 'jacobian columns'}
                    problem = (lp, '; '.join(f'{what[k]} are stored in slot {ppos[k]} but read from slot {cpos[k]}'
                                             for k in diff))
        if problem == 'unsure':
            pass
        elif problem:
            out.bad(fc, problem[0], problem[1], key='colored-slots')
        else:
            out.ok(fc, lp, f'coloured group tuple: data/cols/indices/rows in slots '
                   f'{[ppos[k] for k in ("_get_approx_data", "cols", "get_input_idx_split", "rows")]} on both sides')
    # (c) uncoloured groups
    fp = repo.func(AS, 'ApproximationScheme._init_approximations')
    fu = repo.func(AS, 'ApproximationScheme._uncolored_column_iter')
    cp = Ctx(fp)
    cu = Ctx(fu)
    tuples = []
    for c in astx.calls(fp.node):
        if astx.callee_attr(c) == 'append' and astx.path(astx.receiver(c)) == 'self._approx_groups' and \
                len(c.args) == 1 and isinstance(c.args[0], ast.Tuple):
            tuples.append(c.args[0])
    for st in astx.walk_stmts(fp.node.body):
        if isinstance(st, ast.Assign) and any(astx.path(t) == 'self._approx_groups' for t in st.targets) and \
                isinstance(st.value, ast.List):
            tuples += [e for e in st.value.elts if isinstance(e, ast.Tuple)]
    unp = [st for st in astx.walk_stmts(fu.node.body) if isinstance(st, ast.Assign) and len(st.targets) == 1 and
           isinstance(st.targets[0], ast.Tuple) and len(st.targets[0].elts) >= 5 and isinstance(st.value, ast.Name)]
    if len(tuples) < 2 or len(unp) != 1:
        raise AnalysisError(f'{fp.ident}/{fu.ident}: group tuple producer or consumer not found')
    tn = [e.id if isinstance(e, ast.Name) else None for e in unp[0].targets[0].elts]
    cpos = {}
    for c in astx.calls(fu.node):
        nm_ = astx.callee_attr(c)
        if nm_ == '_get_multiplier' and c.args and isinstance(c.args[0], ast.Name) and c.args[0].id in tn:
            cpos['data'] = tn.index(c.args[0].id)
        if nm_ == '_vec_ind_iter' and c.args and isinstance(c.args[0], ast.Name) and c.args[0].id in tn:
            cpos['vecs'] = tn.index(c.args[0].id)
        if nm_ == 'apply_directional' and len(c.args) == 2 and isinstance(c.args[1], ast.Name) and c.args[1].id in tn:
            cpos['direction'] = tn.index(c.args[1].id)
        if nm_ == 'len' and c.args and isinstance(c.args[0], ast.Name) and c.args[0].id in tn:
            cpos['jcols'] = tn.index(c.args[0].id)
    lits = []
    for w_ in astx.walk(fu.node):
        if isinstance(w_, ast.Subscript) and isinstance(w_.value, ast.Subscript) and \
                isinstance(w_.value.value, ast.Name) and w_.value.value.id == cu.params[2] and \
                isinstance(w_.slice, ast.Constant) and isinstance(w_.slice.value, int):
            lits.append((w_, w_.slice.value))
    if set(cpos) != {'data', 'vecs', 'direction', 'jcols'} or len(lits) != 1:
        out.unsure(fu, unp[0], f'consumer roles not recognised ({sorted(cpos)}, {len(lits)} literal index)')
        return
    for tp in tuples:
        at = cp.g.nodes_of(astx.stmt_of(tp))[0]
        key = 'uncolored-slots'
        if len(tp.elts) != len(tn):
            out.bad(fp, tp, f'a group tuple with {len(tp.elts)} slots is produced but {len(tn)} are unpacked', key=key)
            continue
        ppos = {}
        for i, e in enumerate(tp.elts):
            v, at2 = cp.resolve(e, at)
            if isinstance(v, ast.Name):
                v, at2 = cp.resolve(v, at2)
            o = origin(e, cp, at)
            if o == '_get_approx_data' or (isinstance(e, ast.Name) and
                                           any(d.kind == 'stmt' and isinstance(d.ast, ast.Assign) and
                                               isinstance(d.ast.value, ast.Name) and
                                               origin(d.ast.value, cp, d) == '_get_approx_data'
                                               for d in cp.rd.defs(at, e.id))):
                ppos['data'] = i
            elif isinstance(e, ast.List) and e.elts and isinstance(e.elts[0], ast.Tuple) and len(e.elts[0].elts) == 2:
                ppos['vecs'] = i
            elif isinstance(e, ast.Call) and astx.callee_attr(e) == 'list' and e.args and \
                    isinstance(e.args[0], ast.Call) and astx.callee_attr(e.args[0]) == 'items':
                ppos['vecs'] = i
        if set(ppos) != {'data', 'vecs'}:
            out.unsure(fp, tp, f'producer roles not recognised ({sorted(ppos)})')
            continue
        diff = [k for k in ppos if ppos[k] != cpos[k]]
        if lits[0][1] != cpos['jcols']:
            out.bad(fu, lits[0][0], f'columns are looked up in slot {lits[0][1]} of the group tuple but the column '
                    f'indices are unpacked from slot {cpos["jcols"]}', key=key)
        elif diff:
            out.bad(fp, tp, '; '.join(f'{k} stored in slot {ppos[k]} but read from slot {cpos[k]}' for k in diff),
                    key=key)
        else:
            out.ok(fp, tp, f'uncoloured group tuple: data/vecs in slots {[ppos[k] for k in ("data", "vecs")]} on both '
                   f'sides, columns looked up in the slot they are unpacked from ({cpos["jcols"]})')


# =========================================================================== C12.colored-data
@rule('C12.colored-data', floor=2)
def colored_data(repo, out):
    """Coloured groups share one approximation-data object, so no scheme's _get_approx_data may depend on the wrt variable (or the data must be computed per colour / the dependent configurations rejected)."""
    fp = repo.func(AS, 'ApproximationScheme._init_colored_approximations')
    cp = Ctx(fp)
    g = cp.g
    prods = [c.args[0] for c in astx.calls(fp.node) if astx.callee_attr(c) == 'append' and
             astx.path(astx.receiver(c)) == 'self._colored_approx_groups' and len(c.args) == 1 and
             isinstance(c.args[0], ast.Tuple)]
    if len(prods) != 1:
        raise AnalysisError(f'{fp.ident}: expected one append of a group tuple')
    prod = prods[0]
    pn = g.nodes_of(astx.stmt_of(prod))[0]
    cloop = astx.enclosing(prod, (ast.For,))
    if cloop is None:
        raise AnalysisError(f'{fp.ident}: group tuples are not appended in a loop')
    body = set(g.body_nodes(cloop))
    data_defs = None
    for e in prod.elts:
        if isinstance(e, ast.Name):
            ds = _real_defs(cp.rd.defs(pn, e.id))
            if ds and all(d.kind == 'stmt' and isinstance(d.ast, ast.Assign) and isinstance(d.ast.value, ast.Call) and
                          astx.callee_attr(d.ast.value) == '_get_approx_data' for d in ds):
                data_defs = ds
                data_name = e.id
    if data_defs is None:
        out.unsure(fp, prod, 'no element of the group tuple comes from self._get_approx_data(...)')
        return
    shared = not any(d in body for d in data_defs)
    guard = [st for st in astx.walk_stmts(fp.node.body) if isinstance(st, ast.If) and
             astx.mentions(st.test, 'step_calc') and any(isinstance(x, ast.Raise) for x in astx.walk_stmts(st.body))]
    for rel, cls in ((FD, 'FiniteDifference'), (CS, 'ComplexStep')):
        fn = repo.func(rel, f'{cls}._get_approx_data')
        ps = _params(fn)
        if len(ps) < 4:
            raise AnalysisError(f'{fn.ident}: signature changed')
        wrt = ps[2]
        uses = [w for w in astx.walk(fn.node) if isinstance(w, ast.Name) and w.id == wrt and isinstance(w.ctx, ast.Load)]
        if not uses:
            out.ok(fn, fn.node, f'{cls}: approximation data does not depend on the wrt variable')
            continue
        if not shared:
            out.ok(fp, list(data_defs)[0].ast, 'approximation data is computed inside the colour loop')
            continue
        if guard:
            out.ok(fp, guard[0], 'wrt-dependent step_calc settings are rejected for coloured approximations')
            continue
        # which step_calc settings actually read the wrt variable?
        lits = None
        if rel == FD:
            try:
                _, _, accepted = _step_calc_literals(repo)
                sm = StepModel(fn)
                cg = sm.cx.g
                use_nodes = {n for n in cg.nodes if n.kind not in ('entry', 'exit', 'raise', 'join') and
                             any(isinstance(w, ast.Name) and w.id == wrt and isinstance(w.ctx, ast.Load)
                                 for e in n.exprs() for w in astx.walk(e))}
                lits = []
                for lit in accepted:
                    w = _Walk(sm, lit)
                    w.run()
                    if use_nodes & w.visited:
                        lits.append(lit)
            except AnalysisError:
                lits = None
        if lits is not None and not lits:
            out.ok(fn, fn.node, f'{cls}: no accepted step_calc setting reads the wrt variable')
            continue
        which = f'for step_calc in {lits}' if lits else 'on some paths'
        out.bad(fp, list(data_defs)[0].ast,
                f'{cls}._get_approx_data reads the wrt variable {which} (the step is scaled by the value of that '
                f'variable), but here it is called once, for the first coloured wrt only, and the same `{data_name}` '
                f'object is stored in every colour group: all coloured columns are perturbed with the step of one '
                f'variable (rel_element: of its element 0, _run_point is called without loc_idx), so coloured '
                f'approximations differ from uncoloured ones and from the configured relative step',
                key=f'shared-data-{cls}')


# =========================================================================== C12.step-scale
_ABS = {'abs', 'absolute', 'fabs'}
_LIN_RED = {'sum', 'mean', 'average', 'nansum', 'nanmean', 'median'}
_ORDER_RED = {'max', 'amax', 'nanmax'}


def _magnitude(sm, e, at, depth=0):
    """Abstract sign/shape of a step scale factor built from the wrt value.

    'E'  signed, elementwise wrt value          'R'  signed value after a reduction
    'NN' non-negative magnitude (abs taken elementwise before any reduction, or a norm)
    'BAD' abs applied after a signed reduction  'POS' positive, independent of the value's sign (len, step, 2.0)
    None not recognised.
    """
    if depth > 10:
        return None
    if _num(e) is not None:
        return 'POS' if _num(e) > 0 else None
    if isinstance(e, ast.Name):
        if sm.env.get(e.id) == 1:
            return 'POS'
        ds = sm.cx.rd.defs(at, e.id)
        if not ds or sm.cx.g.entry in ds:
            return None
        kinds = set()
        for d in ds:
            if d.kind == 'stmt' and isinstance(d.ast, ast.Assign) and len(d.ast.targets) == 1 and \
                    astx.path(d.ast.targets[0]) == e.id:
                kinds.add(_magnitude(sm, d.ast.value, d, depth + 1))
            elif d.kind == 'stmt' and isinstance(d.ast, ast.Assign) and len(d.ast.targets) == 1 and \
                    isinstance(d.ast.targets[0], ast.Tuple) and isinstance(d.ast.value, ast.Call):
                # `flag, value = helper(...)`: follow the helper's return tuples
                names_ = [t.id if isinstance(t, ast.Name) else None for t in d.ast.targets[0].elts]
                hf, rets = _helper_return_elts(sm.cx.fn, d.ast.value, names_.index(e.id), len(names_)) \
                    if e.id in names_ else (None, None)
                if hf is None or not rets:
                    kinds.add(None)
                    continue
                import types
                try:
                    hsm = types.SimpleNamespace(env={}, cx=Ctx(hf, sys_index=0))
                except AnalysisError:
                    kinds.add(None)
                    continue
                for rst, elt in rets:
                    if _const(elt, None):
                        continue
                    kinds.add(_magnitude(hsm, elt, hsm.cx.g.nodes_of(rst)[0], depth + 1))
            else:
                kinds.add(None)
        return kinds.pop() if len(kinds) == 1 else None
    if isinstance(e, ast.Subscript) and astx.const_str(e.slice) in _STEP_KEYS:
        return 'POS'
    if isinstance(e, ast.Attribute) and e.attr in ('size',):
        return 'POS'
    if isinstance(e, ast.Attribute) and e.attr in ('real', 'flat', 'T'):
        return _magnitude(sm, e.value, at, depth + 1)
    if isinstance(e, ast.UnaryOp) and isinstance(e.op, ast.UAdd):
        return _magnitude(sm, e.operand, at, depth + 1)
    if isinstance(e, ast.BinOp):
        if isinstance(e.op, ast.Pow) and isinstance(e.right, ast.Constant) and isinstance(e.right.value, int) and \
                e.right.value > 0:
            a = _magnitude(sm, e.left, at, depth + 1)
            if e.right.value % 2 == 0 and a in ('E', 'NN'):
                return 'NN'
            if e.right.value % 2 == 0 and a in ('R', 'BAD'):
                return 'BAD'
            return a
        a, b = _magnitude(sm, e.left, at, depth + 1), _magnitude(sm, e.right, at, depth + 1)
        if a is None or b is None:
            return None
        if isinstance(e.op, (ast.Mult, ast.Div)):
            if 'BAD' in (a, b):
                return 'BAD'
            ks = {a, b} - {'POS'}
            if not ks:
                return 'POS'
            if ks == {'NN'}:
                return 'NN'
            if len(ks) == 1:
                return ks.pop() if (a == 'POS' or b == 'POS') else None
            return None
        if isinstance(e.op, ast.Add):
            if {a, b} <= {'NN', 'POS'}:
                return 'NN' if 'NN' in (a, b) else 'POS'
            return None
        return None
    if isinstance(e, ast.Call):
        nm = astx.callee_attr(e)
        rc = astx.receiver(e)
        is_np = rc is None or astx.path(rc) in ('np', 'numpy', 'np.linalg', 'numpy.linalg', 'math')
        if nm in ('_abs_get_val', 'get_val', '_get_val'):
            return 'E'
        arg = e.args[0] if (is_np and e.args) else (rc if not is_np else None)
        if nm in ('len', 'size'):
            return 'POS'
        if arg is None:
            return None
        a = _magnitude(sm, arg, at, depth + 1)
        if a is None:
            return None
        if nm in _ABS:
            return {'E': 'NN', 'NN': 'NN', 'R': 'BAD', 'BAD': 'BAD', 'POS': 'POS'}[a]
        if nm in _LIN_RED:
            return {'E': 'R', 'NN': 'NN', 'R': 'R', 'BAD': 'BAD', 'POS': 'POS'}[a]
        if nm in _ORDER_RED:
            return {'E': 'R', 'NN': 'NN', 'R': 'R', 'BAD': 'BAD', 'POS': 'POS'}[a]
        if nm == 'norm':
            return {'E': 'NN', 'NN': 'NN', 'R': 'BAD', 'BAD': 'BAD', 'POS': 'POS'}[a]
        if nm in ('sqrt',):
            return a if a in ('NN', 'POS', 'BAD') else None
        if nm in ('square',):
            return {'E': 'NN', 'NN': 'NN', 'R': 'BAD', 'BAD': 'BAD', 'POS': 'POS'}[a]
        if nm in ('atleast_1d', 'asarray', 'array', 'ravel', 'flatten', 'copy', 'float', 'item', 'real'):
            return a
        return None
    return None


@rule('C12.step-scale', floor=3)
def step_scale(repo, out):
    """Every relative step_calc branch scales the step by a non-negative magnitude of the wrt value: absolute values are taken elementwise before any reduction (or a norm is used)."""
    fn = repo.func(FD, 'FiniteDifference._get_approx_data')
    sm = StepModel(fn)
    g = sm.cx.g
    for st, nm, aug in sm.assigns:
        if nm not in sm.seeds:
            continue
        v = st.value
        if not aug and (_num(v) is not None or isinstance(v, ast.Name) or
                        (isinstance(v, ast.Subscript) and astx.const_str(v.slice) in _STEP_KEYS) or
                        (isinstance(v, ast.Call) and astx.callee_attr(v) in ('max', 'maximum', 'fmax', 'clip', 'where'))):
            continue    # seed, clamp or literal
        at = g.nodes_of(st)[0]
        k = _magnitude(sm, v, at)
        if k == 'POS':
            continue    # not a value-dependent scale
        key = 'step-scale'
        if k == 'NN':
            out.ok(fn, st, 'relative step scaled by a magnitude with abs taken before the reduction')
        elif k == 'BAD':
            out.bad(fn, st, 'the reference magnitude takes the absolute value AFTER a signed reduction: entries of '
                    'opposite sign cancel, the relative step collapses (to minimum_step) for mixed-sign variables '
                    'and no longer tracks their size', key=key)
        elif k in ('E', 'R'):
            out.bad(fn, st, 'the relative step is scaled by the signed wrt value (no absolute value): a negative or '
                    'mixed-sign variable gives a negative / cancelled step that is then replaced by minimum_step',
                    key=key)
        else:
            out.unsure(fn, st, 'reference magnitude of the relative step not recognised')


# =========================================================================== C12.colored-wrt
@rule('C12.colored-wrt', floor=2)
def colored_wrt(repo, out):
    """The (wrt, meta) pair whose approximation data is shared by all colour groups is drawn from the coloured wrt set, not from the unfiltered _wrt_meta table."""
    fp = repo.func(AS, 'ApproximationScheme._init_colored_approximations')
    cp = Ctx(fp)
    g = cp.g
    wm = set()
    for st in astx.walk_stmts(fp.node.body):
        if isinstance(st, ast.Assign) and len(st.targets) == 1 and isinstance(st.targets[0], ast.Name):
            v = st.value
            if (isinstance(v, ast.Call) and astx.callee_attr(v) == '_update_wrt_matches') or \
                    (isinstance(v, ast.Attribute) and v.attr == 'wrt_matches'):
                wm.add(st.targets[0].id)
    if not wm:
        raise AnalysisError(f'{fp.ident}: the coloured wrt set (wrt_matches) is not computed here')
    calls = _call_nodes(g, lambda c: astx.callee_attr(c) == '_get_approx_data' and astx.path(astx.receiver(c)) == 'self')
    if not calls:
        raise AnalysisError(f'{fp.ident}: no self._get_approx_data call')
    # the shared data must be bound whenever a colour group is appended
    prods = [c for c in astx.calls(fp.node) if astx.callee_attr(c) == 'append' and
             astx.path(astx.receiver(c)) == 'self._colored_approx_groups' and len(c.args) == 1 and
             isinstance(c.args[0], ast.Tuple)]
    for pc in prods:
        pn = g.nodes_of(astx.stmt_of(pc))[0]
        for e in pc.args[0].elts:
            if not isinstance(e, ast.Name):
                continue
            ds = [d for d in g.nodes if d.kind == 'stmt' and isinstance(d.ast, ast.Assign) and
                  isinstance(d.ast.value, ast.Call) and astx.callee_attr(d.ast.value) == '_get_approx_data' and
                  any(isinstance(t, ast.Name) and t.id == e.id for t in d.ast.targets)]
            if not ds:
                continue
            def unbound_edge(a, lab, nm=e.id):
                """Edges feasible while `nm` still holds its None placeholder (tests of `nm is None`)."""
                if lab == 'exc':
                    return False
                if a.kind == 'test' and lab in ('true', 'false'):
                    t = a.ast.test
                    neg = False
                    if isinstance(t, ast.UnaryOp) and isinstance(t.op, ast.Not):
                        t, neg = t.operand, True
                    if isinstance(t, ast.Compare) and len(t.ops) == 1 and isinstance(t.left, ast.Name) and \
                            t.left.id == nm and _const(t.comparators[0], None) and \
                            isinstance(t.ops[0], (ast.Is, ast.IsNot, ast.Eq, ast.NotEq)):
                        val = isinstance(t.ops[0], (ast.Is, ast.Eq)) != neg
                        return val == (lab == 'true')
                return True
            w = _path_edges(g, [g.entry], [pn], ds, unbound_edge)
            if w is not None:
                out.bad(fp, ds[0].ast, f'`{e.id}` is only bound when some wrt of THIS scheme is coloured; a scheme '
                        f'without coloured wrts (e.g. the fd scheme of a component whose colouring was declared with '
                        f'method="cs" and that also has a plain fd partial) reaches the append with `{e.id}` unbound '
                        f'(UnboundLocalError) instead of building no colour groups', key='data-unbound')
            else:
                out.ok(fp, ds[0].ast, f'`{e.id}` is bound on every path that appends a colour group')
    for n, c in calls:
        W, M = astx.arg(c, 1, 'wrt'), astx.arg(c, 2, 'meta')
        key = 'data-wrt-origin'
        if not isinstance(W, ast.Name):
            out.unsure(fp, c, 'wrt argument is not a local name')
            continue
        wdefs = cp.rd.defs(n, W.id)

        def origin(d):
            """'table' (unfiltered self._wrt_meta), 'colored' (the coloured set itself) or None."""
            src_ = d.ast.iter if d.kind == 'iter' else (d.ast.value if d.kind == 'stmt' and
                                                        isinstance(d.ast, ast.Assign) else None)
            if src_ is None:
                return None
            if any(astx.path(w) == 'self._wrt_meta' for w in astx.walk(src_)):
                return 'table'
            if d.kind == 'iter' and isinstance(src_, ast.Name) and src_.id in wm:
                return 'colored'
            return None
        origins = {origin(d) for d in wdefs} if wdefs else {None}
        if None in origins:
            out.unsure(fp, c, f'origin of `{W.id}` not recognised')
            continue
        # meta must belong to the same wrt
        m_ok = False
        if isinstance(M, ast.Name):
            m_ok = cp.rd.defs(n, M.id) == wdefs and all(
                any(isinstance(t, ast.Name) and t.id == M.id for t in astx.assigned_targets(d.ast)) for d in wdefs)
            if not m_ok:
                sd = cp.single_def(n, M.id)
                m_ok = bool(sd) and isinstance(sd[0], ast.Subscript) and astx.path(sd[0].value) == 'self._wrt_meta' \
                    and isinstance(sd[0].slice, ast.Name) and sd[0].slice.id == W.id and \
                    cp.rd.defs(sd[1], W.id) == wdefs
        elif isinstance(M, ast.Subscript):
            m_ok = astx.path(M.value) == 'self._wrt_meta' and isinstance(M.slice, ast.Name) and M.slice.id == W.id
        if not m_ok:
            out.unsure(fp, c, f'cannot see that `{astx.src(M)}` is the metadata of `{W.id}`')
            continue
        if origins == {'colored'}:
            out.ok(fp, c, f'`{W.id}` iterates the coloured wrt set itself')
            continue

        # can the call be reached with  <wm> is not None  and  W not in <wm> ?
        def ev(e, at):
            if isinstance(e, ast.BoolOp):
                vals = [ev(v_, at) for v_ in e.values]
                if isinstance(e.op, ast.And):
                    return False if False in vals else (None if None in vals else True)
                return True if True in vals else (None if None in vals else False)
            if isinstance(e, ast.UnaryOp) and isinstance(e.op, ast.Not):
                v_ = ev(e.operand, at)
                return None if v_ is None else not v_
            if isinstance(e, ast.Compare) and len(e.ops) == 1:
                a, b, op = e.left, e.comparators[0], e.ops[0]
                if isinstance(op, (ast.Is, ast.IsNot, ast.Eq, ast.NotEq)) and isinstance(a, ast.Name) and a.id in wm \
                        and _const(b, None):
                    return isinstance(op, (ast.IsNot, ast.NotEq))
                if isinstance(op, (ast.In, ast.NotIn)) and isinstance(a, ast.Name) and a.id == W.id and \
                        isinstance(b, ast.Name) and b.id in wm and cp.rd.defs(at, W.id) == wdefs:
                    return isinstance(op, ast.NotIn)
            return None

        def allowed(a, lab):
            if lab == 'exc':
                return False
            if a.kind == 'test' and lab in ('true', 'false'):
                v_ = ev(a.ast.test, a)
                if v_ is not None:
                    return v_ == (lab == 'true')
            return True
        w = _path_edges(g, [g.entry], [n], (), allowed)
        if w is not None:
            out.bad(fp, c, f'`{W.id}`/`{astx.src(M)}` are taken from the unfiltered self._wrt_meta table: the call is '
                    f'reached for a wrt that is not in the coloured set ({sorted(wm)[0]}), so the step / form of a '
                    f'non-coloured approximation is used for every coloured column (coloured != uncoloured)', key=key)
        else:
            out.ok(fp, c, f'`{W.id}` comes from self._wrt_meta but the call is only reached when '
                   f'{sorted(wm)[0]} is None or contains it')


# =========================================================================== C12.unscaled
_APPROX_CALLERS = (
    ('openmdao/core/explicitcomponent.py', True),
    ('openmdao/core/implicitcomponent.py', True),
    ('openmdao/core/component.py', True),
    ('openmdao/core/group.py', False),
)


@rule('C12.unscaled', floor=4)
def unscaled(repo, out):
    """Approximations of a component run with outputs AND residuals in the unscaled state (the FD base point current_coeff*residuals is mixed with residuals returned by run_apply_nonlinear, which are physical); group approximations need the outputs unscaled."""
    for rel, is_comp in _APPROX_CALLERS:
        m = repo.module(rel)
        for f in m.funcs.values():
            for c in astx.calls(f.node):
                if astx.callee_attr(c) != 'compute_approximations' or not c.args or astx.path(c.args[0]) != 'self':
                    continue
                ctxs = []
                for a in astx.ancestors(c):
                    if a is f.node:
                        break
                    if isinstance(a, ast.With):
                        for it in a.items:
                            ce = it.context_expr
                            if isinstance(ce, ast.Call) and astx.callee_attr(ce) == '_unscaled_context' and \
                                    astx.path(astx.receiver(ce)) == 'self':
                                ctxs.append(ce)
                if not ctxs:
                    continue    # called in the unscaled state by contract (root model, check_partials)
                have = {'outputs': set(), 'residuals': set()}
                odd = False
                fcx = None
                for ce in ctxs:
                    for i, nm in enumerate(('outputs', 'residuals')):
                        a = astx.arg(ce, i, nm)
                        if a is None:
                            continue
                        if isinstance(a, ast.Name):
                            # a local that names the vector list
                            fcx = fcx or Ctx(f, sys_index=0)
                            wn = fcx.g.nodes_of(astx.stmt_of(ce))
                            if wn:
                                a = fcx.resolve(a, wn[0])[0]
                        if not isinstance(a, (ast.List, ast.Tuple)):
                            odd = True
                            continue
                        have[nm] |= {astx.path(x) for x in a.elts}
                if odd:
                    out.unsure(f, ctxs[0], 'vector lists of _unscaled_context are not literals')
                    continue
                need = [('outputs', 'self._outputs')] + ([('residuals', 'self._residuals')] if is_comp else [])
                missing = [v for k, v in need if v not in have[k]]
                if missing:
                    what = ('the FD base point current_coeff * self._residuals is read in the scaled state while the '
                            'perturbed residuals returned by run_apply_nonlinear are physical: forward/backward '
                            'partials are wrong by (1 - 1/res_ref) * residual / step whenever the residual is non-zero'
                            if missing == ['self._residuals'] else
                            'the approximation reads scaled values where the perturbed runs return physical ones')
                    out.bad(f, ctxs[0], f'{", ".join(missing)} not in the unscaled context around compute_approximations: '
                            f'{what}', key='unscaled-' + '-'.join(x.split('.')[-1] for x in missing))
                else:
                    out.ok(f, ctxs[0], 'approximation runs with ' + ', '.join(v for _, v in need) + ' unscaled')


# =========================================================================== C12.seed-ranges
@rule('C12.seed-ranges', floor=1)
def seed_ranges(repo, out):
    """The RangeMapper that turns coloured column indices into seed variables is built from the per-wrt number of coloured columns (the amount the coloured column counter advances), not from another range."""
    fp = repo.func(AS, 'ApproximationScheme._init_colored_approximations')
    cp = Ctx(fp)
    g = cp.g
    mappers = {}
    for st in astx.walk_stmts(fp.node.body):
        if isinstance(st, ast.Assign) and len(st.targets) == 1 and isinstance(st.targets[0], ast.Name) and \
                isinstance(st.value, ast.Call) and astx.callee_attr(st.value) == 'create' and \
                (astx.path(astx.receiver(st.value)) or '').endswith('RangeMapper') and st.value.args and \
                isinstance(st.value.args[0], ast.Name):
            mappers[st.targets[0].id] = st.value.args[0].id
    used = [c for c in astx.calls(fp.node) if astx.callee_attr(c) == 'inds2keys' and
            isinstance(astx.receiver(c), ast.Name) and astx.receiver(c).id in mappers]
    if not used:
        raise AnalysisError(f'{fp.ident}: no RangeMapper.inds2keys(<coloured columns>) found')
    for uc in used:
        lst = mappers[astx.receiver(uc).id]
        apps = [c for c in astx.calls(fp.node) if astx.callee_attr(c) == 'append' and
                isinstance(astx.receiver(c), ast.Name) and astx.receiver(c).id == lst and len(c.args) == 1 and
                isinstance(c.args[0], ast.Tuple) and len(c.args[0].elts) == 2]
        if not apps:
            out.unsure(fp, uc, f'cannot see how `{lst}` is filled')
            continue
        for ac in apps:
            size = ac.args[0].elts[1]
            loop = astx.enclosing(ac, (ast.For,))
            if loop is None:
                out.unsure(fp, ac, 'range list is not filled in a loop')
                continue
            # the coloured column counter: `CE += ADV` with CE the upper bound of a slice store in the same loop
            uppers = set()
            stores = []
            for st in astx.walk_stmts(loop.body):
                if isinstance(st, ast.Assign) and len(st.targets) == 1 and isinstance(st.targets[0], ast.Subscript) and \
                        isinstance(st.targets[0].slice, ast.Slice) and isinstance(st.targets[0].slice.upper, ast.Name):
                    uppers.add(st.targets[0].slice.upper.id)
                    stores.append(st)
            advs = [st for st in astx.walk_stmts(loop.body) if _aug(st, getattr(getattr(st, 'target', None), 'id', None) or
                                                                   (st.targets[0].id if isinstance(st, ast.Assign) and
                                                                    len(st.targets) == 1 and
                                                                    isinstance(st.targets[0], ast.Name) else ''))
                    and (st.target.id if isinstance(st, ast.AugAssign) else st.targets[0].id) in uppers]
            advs = [a for a in advs if _aug(a, a.target.id if isinstance(a, ast.AugAssign) else a.targets[0].id)[0] is ast.Add]
            if len(advs) != 1:
                out.unsure(fp, ac, 'coloured column counter not recognised')
                continue
            adv_st = advs[0]
            adv = _aug(adv_st, adv_st.target.id if isinstance(adv_st, ast.AugAssign) else adv_st.targets[0].id)[1]
            an = g.nodes_of(astx.stmt_of(ac))[0]
            sz, sat = cp.resolve(size, an)
            key = 'seed-range-size'
            if _dump(sz) == _dump(adv) and all(cp.rd.defs(sat, nm) == cp.rd.defs(g.nodes_of(adv_st)[0], nm)
                                             for nm in astx.names(adv)):
                out.ok(fp, ac, f'range size `{astx.src(size)}` is the number of coloured columns of the wrt')
                continue
            stored = {_dump(st.value) for st in stores}
            if isinstance(sz, ast.Call) and astx.callee_attr(sz) == 'len' and len(sz.args) == 1 and _dump(sz.args[0]) in stored:
                out.ok(fp, ac, 'range size is the length of the column block just stored')
                continue
            if isinstance(sz, ast.BinOp) and isinstance(sz.op, ast.Sub) and isinstance(adv, ast.BinOp) and \
                    isinstance(adv.op, ast.Sub) and all(isinstance(x, ast.Name) for x in (sz.left, sz.right, adv.left, adv.right)):
                b1 = {frozenset(d.id for d in cp.rd.defs(sat, x.id)) for x in (sz.left, sz.right)}
                b2 = {frozenset(d.id for d in cp.rd.defs(g.nodes_of(adv_st)[0], x.id)) for x in (adv.left, adv.right)}
                if b1 != b2:
                    out.bad(fp, ac, f'the seed RangeMapper is given `{astx.src(size)}` entries for this wrt, but the wrt '
                            f'occupies `{astx.src(adv)}` coloured columns (they differ for a design variable with '
                            f'indices): every later wrt is looked up in the wrong range, its columns are run with the '
                            f'seeds of another variable and relevance skips the systems it feeds (zero columns)',
                            key=key)
                    continue
            out.unsure(fp, ac, f'cannot relate `{astx.src(size)}` to the coloured column count `{astx.src(adv)}`')


# =========================================================================== C12.stale-data
@rule('C12.stale-data', floor=2)
def stale_data(repo, out):
    """Approximation data that depends on the current VALUE of the wrt variable must not be cached across linearisations."""
    fg = repo.func(AS, 'ApproximationScheme._get_approx_groups')
    cg = Ctx(fg)
    inits = _call_nodes(cg.g, lambda c: astx.callee_attr(c) == '_init_approximations' and astx.path(astx.receiver(c)) == 'self')
    if not inits:
        raise AnalysisError(f'{fg.ident}: no self._init_approximations call')
    # is there a path through _get_approx_groups that skips regeneration?
    cached = cg.g.path([cg.g.entry], [cg.g.exit], avoid=[n for n, _ in inits], labels=cfgm.noexc) is not None
    for rel, cls in ((FD, 'FiniteDifference'), (CS, 'ComplexStep')):
        fn = repo.func(rel, f'{cls}._get_approx_data')
        reads = [c for c in _calls_deep(fn) if astx.callee_attr(c) in ('_abs_get_val', 'get_val', '_get_val')]
        if not reads:
            out.ok(fn, fn.node, f'{cls}: approximation data does not read variable values')
            continue
        if not cached:
            out.ok(fg, inits[0][0].ast, 'approximation groups are regenerated on every call')
            continue
        # accepted repairs: the scheme drops its cache itself (override, or _reset() / _approx_groups = None
        # before the column iteration), possibly only for value-dependent step_calc settings
        repaired = None
        if repo.module(rel).funcs.get(f'{cls}._get_approx_groups') is not None:
            repaired = f'{cls} overrides _get_approx_groups'
        fc = repo.module(rel).funcs.get(f'{cls}.compute_approx_col_iter')
        if fc is not None and repaired is None:
            for st in astx.walk_stmts(fc.node.body):
                if (isinstance(st, ast.Expr) and isinstance(st.value, ast.Call) and astx.call_name(st.value) == 'self._reset') \
                        or (isinstance(st, ast.Assign) and any(astx.path(t) == 'self._approx_groups' for t in st.targets)
                            and _const(st.value, None)):
                    repaired = f'{cls}.compute_approx_col_iter drops the cached groups'
        if repaired is None and any(astx.mentions(n.ast.test, 'step_calc') for n in cg.g.nodes if n.kind == 'test'):
            repaired = '_get_approx_groups looks at step_calc'
        if repaired:
            out.ok(fn, reads[0], repaired)
            continue
        out.bad(fg, inits[-1][0].ast,
                f'{cls}._get_approx_data reads the current value of the wrt variable (`{astx.src(reads[0])}`, relative '
                f'step_calc) but the groups that embed its result are built only when self._approx_groups is None: '
                f'the relative step is frozen at the value the variable had at the first linearisation (minimum_step '
                f'forever if it was 0 then) and no longer follows the variable', key=f'cached-data-{cls}')


# =========================================================================== C12.result-buffer
@rule('C12.result-buffer', floor=2)
def result_buffer(repo, out):
    """The array handed to _run_point as result buffer is an independent copy, never a live view of outputs / residuals."""
    for qn in ('ApproximationScheme._colored_column_iter', 'ApproximationScheme._uncolored_column_iter'):
        fn = repo.func(AS, qn)
        cx = Ctx(fn)
        g = cx.g
        calls = _call_nodes(g, lambda c: astx.callee_attr(c) == '_run_point' and astx.path(astx.receiver(c)) == 'self')
        if not calls:
            raise AnalysisError(f'{fn.ident}: no self._run_point call')
        bufs = set()
        for n, c in calls:
            b = astx.arg(c, 3, 'results_array')
            bufs.add(b.id if isinstance(b, ast.Name) else None)
        if len(bufs) != 1 or None in bufs:
            out.unsure(fn, calls[0][1], 'result buffer argument of _run_point is not one local name')
            continue
        B = bufs.pop()
        key = 'buffer-' + qn.split('.')[-1].strip('_').split('_')[0]
        verdicts = []
        for n, c in calls:
            for d in cx.rd.defs(n, B):
                if not (d.kind == 'stmt' and isinstance(d.ast, ast.Assign) and len(d.ast.targets) == 1 and
                        isinstance(d.ast.targets[0], ast.Name)):
                    verdicts.append(('unsure', d.ast if d.kind != 'entry' else fn.node, f'`{B}` is not a plain local'))
                    continue
                arms = [d.ast.value]
                while any(isinstance(a, ast.IfExp) for a in arms):
                    arms = [x for a in arms for x in ((a.body, a.orelse) if isinstance(a, ast.IfExp) else (a,))]
                for a in arms:
                    vw = cx.view(a, d)
                    if vw is not None:
                        if vw[1] is True:
                            verdicts.append(('ok', d.ast, f'copy of {vw[0]}'))
                        elif vw[1] is False:
                            verdicts.append(('bad', d.ast, f'`{B}` is a live view of {cx.sys}.{vw[0]}: every approximation '
                                             f'point writes its weighted results straight into that vector, '
                                             f'which stays modified after the sweep'))
                        else:
                            verdicts.append(('unsure', d.ast, 'cannot tell whether the buffer is a copy'))
                    elif isinstance(a, ast.Call) and astx.call_name(a) in (
                            'np.empty', 'np.zeros', 'np.ones', 'np.empty_like', 'np.zeros_like', 'np.full'):
                        verdicts.append(('ok', d.ast, 'fresh array'))
                    else:
                        verdicts.append(('unsure', d.ast, f'origin of `{B}` not recognised'))
        seen = set()
        for kind, node, why in verdicts:
            if (kind, id(node), why) in seen:
                continue
            seen.add((kind, id(node), why))
            if kind == 'bad':
                out.bad(fn, node, why, key=key)
            elif kind == 'unsure':
                out.unsure(fn, node, why)
        if verdicts and all(k == 'ok' for k, _, _ in verdicts):
            out.ok(fn, verdicts[0][1], f'`{B}`: ' + ', '.join(sorted({w for _, _, w in verdicts})))


# =========================================================================== self-test
_RESTORE3 = ("        system._residuals.set_val(self._starting_resids)\n\n"
             "        # save results and restore starting inputs/outputs\n"
             "        system._inputs.set_val(self._starting_ins)\n"
             "        system._outputs.set_val(self._starting_outs)\n")
_FD_RUN = ("        if total:\n            system.run_solve_nonlinear()\n"
           "            self._results_tmp[:] = system._outputs.asarray()\n        else:\n"
           "            system.run_apply_nonlinear()\n            self._results_tmp[:] = system._residuals.asarray()\n")
_CS_RUN = ("        if total:\n            system.run_solve_nonlinear()\n"
           "            result_array[:] = system._outputs.asarray()\n        else:\n"
           "            system.run_apply_nonlinear()\n            result_array[:] = system._residuals.asarray()\n")
_CS_ISUB = ("        for vec, idxs in idx_info:\n            if vec is not None and idxs is not None:\n"
            "                vec.isub(delta, idxs)\n")
_SEEDS_FIN = ("            self._set_seeds(fwd_seeds, rev_seeds)\n            try:\n                yield\n"
              "            finally:\n                self._set_seeds(save_fwd, save_rev)\n"
              "                self._active = save_active")

selftest(
    'C12',
    # ---- fd-restore
    Mutant('fd-snapshot-no-copy', FD, 'self._starting_ins = system._inputs.asarray(copy=True)',
           'self._starting_ins = system._inputs.asarray()', 'C12.fd-restore'),
    Mutant('fd-snapshot-copy-false', FD, 'self._starting_outs = system._outputs.asarray(copy=True)',
           'self._starting_outs = system._outputs.asarray(copy=False)', 'C12.fd-restore'),
    Mutant('fd-restore-swapped', FD, 'system._inputs.set_val(self._starting_ins)\n        system._outputs.set_val(self._starting_outs)',
           'system._inputs.set_val(self._starting_outs)\n        system._outputs.set_val(self._starting_ins)', 'C12.fd-restore'),
    Mutant('fd-snapshot-wrong-vector', FD, 'self._starting_resids = system._residuals.asarray(copy=True)',
           'self._starting_resids = system._outputs.asarray(copy=True)', 'C12.fd-restore'),
    Mutant('fd-restore-resids-deleted', FD, '        system._residuals.set_val(self._starting_resids)\n\n', '\n', 'C12.fd-restore'),
    Mutant('fd-restore-only-partial-branch', FD,
           '            self._results_tmp[:] = system._residuals.asarray()\n\n        system._residuals.set_val(self._starting_resids)',
           '            self._results_tmp[:] = system._residuals.asarray()\n            system._residuals.set_val(self._starting_resids)\n',
           'C12.fd-restore'),
    Mutant('fd-restore-outputs-from-results', FD, 'system._outputs.set_val(self._starting_outs)\n\n        return',
           'system._outputs.set_val(self._results_tmp)\n\n        return', 'C12.fd-restore'),
    Mutant('fd-results-tmp-aliases-snapshot', FD, 'self._results_tmp = self._starting_outs.copy()',
           'self._results_tmp = self._starting_outs', 'C12.fd-restore'),
    # ---- colored-data (the FiniteDifference instance already fires on today's tree; this is the sibling)
    Mutant('cs-data-depends-on-wrt', CS, "        step = meta['step']\n        step *= 1j",
           "        step = meta['step'] * abs(system._outputs._abs_get_val(wrt)).max()\n        step *= 1j", 'C12.colored-data'),
    # ---- step-scale
    Mutant('scale-abs-after-sum', FD, 'step *= np.sum(np.abs(wrt_val)) / len(wrt_val)', 'step *= np.abs(np.sum(wrt_val)) / len(wrt_val)', 'C12.step-scale'),
    Mutant('scale-no-abs', FD, 'step *= np.sum(np.abs(wrt_val)) / len(wrt_val)', 'step *= np.sum(wrt_val) / len(wrt_val)', 'C12.step-scale'),
    Mutant('scale-element-signed', FD, 'step = np.abs(wrt_val) * step', 'step = wrt_val * step', 'C12.step-scale'),
    Mutant('scale-abs-of-mean', FD, 'step *= np.sum(np.abs(wrt_val)) / len(wrt_val)', 'step *= abs(np.mean(wrt_val))', 'C12.step-scale'),
    Mutant('scale-legacy-signed-sum', FD, 'step *= np.linalg.norm(wrt_val)', 'step *= np.abs(wrt_val.sum())', 'C12.step-scale'),
    # ---- colored-wrt
    Mutant('colored-data-from-first-table-entry', AS,
           '        for wrt, meta in self._wrt_meta.items():\n            if wrt_matches is None or wrt in wrt_matches:\n'
           '                # data is the same for all colored approxs so we only need the first\n'
           '                data = self._get_approx_data(system, wrt, meta)\n                break\n'
           '        else:\n            return  # this scheme has no colored wrt\n',
           '        # data is the same for all colored approxs so we only need the first\n'
           '        wrt, meta = next(iter(self._wrt_meta.items()))\n        data = self._get_approx_data(system, wrt, meta)\n',
           'C12.colored-wrt'),
    Mutant('colored-no-coloured-wrt-falls-through', AS, '        else:\n            return  # this scheme has no colored wrt\n', '', 'C12.colored-wrt'),
    Mutant('seed-range-full-variable-size', AS, 'wrt_ranges.append((abs_wrt, cend - cstart))', 'wrt_ranges.append((abs_wrt, stop - start))', 'C12.seed-ranges'),
    Mutant('unscaled-implicit-residuals-dropped', 'openmdao/core/implicitcomponent.py',
           "            with self._unscaled_context(outputs=[self._outputs], residuals=[self._residuals]):\n                # Computing the approximation",
           "            with self._unscaled_context(outputs=[self._outputs]):\n                # Computing the approximation", 'C12.unscaled'),
    Mutant('colored-data-filter-dropped', AS,
           '            if wrt_matches is None or wrt in wrt_matches:\n                # data is the same for all colored approxs so we only need the first\n'
           '                data = self._get_approx_data(system, wrt, meta)\n                break\n',
           '            data = self._get_approx_data(system, wrt, meta)\n            break\n', 'C12.colored-wrt'),
    Mutant('colored-data-filter-and', AS, '            if wrt_matches is None or wrt in wrt_matches:\n                # data is the same',
           '            if wrt_matches is None or wrt not in wrt_matches:\n                # data is the same', 'C12.colored-wrt'),
    # ---- unscaled
    Mutant('unscaled-explicit-residuals-dropped', 'openmdao/core/explicitcomponent.py',
           "            with self._unscaled_context(outputs=[self._outputs], residuals=[self._residuals]):\n                # Computing the approximation",
           "            with self._unscaled_context(outputs=[self._outputs]):\n                # Computing the approximation", 'C12.unscaled'),
    Mutant('unscaled-component-residuals-dropped', 'openmdao/core/component.py',
           "        with self._unscaled_context(outputs=[self._outputs], residuals=[self._residuals]):\n            approximation.compute_approximations(self, jac=jac)",
           "        with self._unscaled_context(outputs=[self._outputs]):\n            approximation.compute_approximations(self, jac=jac)", 'C12.unscaled'),
    Mutant('unscaled-explicit-outputs-dropped', 'openmdao/core/explicitcomponent.py',
           "            with self._unscaled_context(outputs=[self._outputs], residuals=[self._residuals]):\n                # Computing the approximation",
           "            with self._unscaled_context(residuals=[self._residuals]):\n                # Computing the approximation", 'C12.unscaled'),
    Mutant('unscaled-group-outputs-dropped', 'openmdao/core/group.py',
           "                    with self._unscaled_context(outputs=[self._outputs]):\n                        for approximation",
           "                    with self._unscaled_context(residuals=[self._residuals]):\n                        for approximation", 'C12.unscaled'),
    Mutant('pipeline-uncolored-multiplier-hoisted', AS, '            mult = self._get_multiplier(data)\n\n            jidx_iter', '            jidx_iter', 'C12.pipeline',
           also=[(AS, '        # now do uncolored solves\n', '        mult = self._get_multiplier(approx_groups[0][1]) if approx_groups else 1.0\n')]),
    Mutant('cs-save-outputs-live-view', CS, 'saved_outputs = system._outputs.asarray(copy=True)', 'saved_outputs = system._outputs.asarray()', 'C12.cs-save'),
    # ---- stale-data (the FiniteDifference instance fires on today's tree; sibling instance)
    Mutant('cs-data-reads-value-and-is-cached', CS, "        step = meta['step']\n        step *= 1j",
           "        step = meta['step'] * abs(system._outputs._abs_get_val(wrt)).max()\n        step *= 1j", 'C12.stale-data'),
    Mutant('unscaled-named-list-without-residual-vector', 'openmdao/core/implicitcomponent.py',
           "            with self._unscaled_context(outputs=[self._outputs], residuals=[self._residuals]):\n                # Computing the approximation",
           "            outs = [self._outputs]\n            resids = []\n            with self._unscaled_context(outputs=outs, residuals=resids):\n                # Computing the approximation", 'C12.unscaled'),
    Mutant('pipeline-conditional-app-data-multiplier-from-it', AS,
           '            if direction is not None:\n                app_data = self.apply_directional(data, direction)\n            else:\n                app_data = data\n\n            mult = self._get_multiplier(data)\n',
           '            app_data = data if direction is None else self.apply_directional(data, direction)\n\n            mult = self._get_multiplier(app_data)\n', 'C12.pipeline'),
    Mutant('buffer-if-else-live-view', AS, '        results_array = system._outputs.asarray(copy=True) if total_or_semi \\\n            else system._residuals.asarray(copy=True)\n',
           '        if total_or_semi:\n            results_array = system._outputs.asarray(copy=True)\n        else:\n            results_array = system._residuals.asarray()\n', 'C12.result-buffer'),
    Mutant('scale-abs-after-sum-with-lookup-helper', FD, '            var_local = True\n            if system._outputs._contains_abs(wrt):\n                wrt_val = system._outputs._abs_get_val(wrt)\n            elif system._inputs._contains_abs(wrt):\n                wrt_val = system._inputs._abs_get_val(wrt)\n            else:\n                var_local = False\n', '            var_local, wrt_val = _get_local_wrt_val(system, wrt)\n', 'C12.step-scale',
           also=[(FD, 'class FiniteDifference(ApproximationScheme):', 'def _get_local_wrt_val(system, wrt):\n    outputs = system._outputs\n    if outputs._contains_abs(wrt):\n        return True, outputs._abs_get_val(wrt)\n    inputs = system._inputs\n    if inputs._contains_abs(wrt):\n        return True, inputs._abs_get_val(wrt)\n    return False, None\n\n\nclass FiniteDifference(ApproximationScheme):'),
                 (FD, 'step *= np.sum(np.abs(wrt_val)) / len(wrt_val)', 'step *= np.abs(np.sum(wrt_val)) / len(wrt_val)')]),
    Mutant('stepcalc-rel-not-dispatched-with-lookup-helper', FD, '            var_local = True\n            if system._outputs._contains_abs(wrt):\n                wrt_val = system._outputs._abs_get_val(wrt)\n            elif system._inputs._contains_abs(wrt):\n                wrt_val = system._inputs._abs_get_val(wrt)\n            else:\n                var_local = False\n', '            var_local, wrt_val = _get_local_wrt_val(system, wrt)\n', 'C12.step-calc',
           also=[(FD, 'class FiniteDifference(ApproximationScheme):', 'def _get_local_wrt_val(system, wrt):\n    outputs = system._outputs\n    if outputs._contains_abs(wrt):\n        return True, outputs._abs_get_val(wrt)\n    inputs = system._inputs\n    if inputs._contains_abs(wrt):\n        return True, inputs._abs_get_val(wrt)\n    return False, None\n\n\nclass FiniteDifference(ApproximationScheme):'),
                 (FD, "elif step_calc == 'rel_avg' or step_calc == 'rel':", "elif step_calc == 'rel_avg':")]),
    Mutant('fd-restore-helper-forgets-outputs', FD, '        system._residuals.set_val(self._starting_resids)\n\n        # save results and restore starting inputs/outputs\n        system._inputs.set_val(self._starting_ins)\n        system._outputs.set_val(self._starting_outs)\n\n        return self._results_tmp\n', '        self._restore_starting_state(system)\n\n        return self._results_tmp\n\n    def _restore_starting_state(self, system):\n        system._residuals.set_val(self._starting_resids)\n        system._inputs.set_val(self._starting_ins)\n', 'C12.fd-restore'),
    Mutant('fd-restore-helper-swaps-snapshots', FD, '        system._residuals.set_val(self._starting_resids)\n\n        # save results and restore starting inputs/outputs\n        system._inputs.set_val(self._starting_ins)\n        system._outputs.set_val(self._starting_outs)\n\n        return self._results_tmp\n', '        self._restore_starting_state(system)\n\n        return self._results_tmp\n\n    def _restore_starting_state(self, system):\n        system._residuals.set_val(self._starting_resids)\n        system._inputs.set_val(self._starting_outs)\n        system._outputs.set_val(self._starting_ins)\n', 'C12.fd-restore'),
    Mutant('seeds-tuple-restored-swapped', REL, "            save_fwd = self._seed_vars['fwd']\n            save_rev = self._seed_vars['rev']\n            save_active = self._active\n", "            current = self._seed_vars\n            saved = (current['fwd'], current['rev'], self._active)\n", 'C12.relevance', nth=1,
           also=[(REL, '                self._set_seeds(save_fwd, save_rev)\n                self._active = save_active', '                old_fwd, old_rev, old_active = saved\n                self._set_seeds(old_rev, old_fwd)\n                self._active = old_active')]),
    # ---- result-buffer
    Mutant('buffer-colored-live-view', AS, 'results_array = vec.asarray(copy=True)', 'results_array = vec.asarray()', 'C12.result-buffer'),
    Mutant('buffer-uncolored-live-view', AS, 'results_array = system._outputs.asarray(copy=True) if total_or_semi',
           'results_array = system._outputs.asarray() if total_or_semi', 'C12.result-buffer'),
    Mutant('buffer-uncolored-resids-live-view', AS, 'else system._residuals.asarray(copy=True)\n        use_parallel_fd',
           'else system._residuals.asarray(copy=False)\n        use_parallel_fd', 'C12.result-buffer'),
    # ---- capture
    Mutant('fd-capture-alias', FD, 'self._results_tmp[:] = system._outputs.asarray()',
           'self._results_tmp = system._outputs.asarray()', 'C12.capture'),
    Mutant('fd-capture-wrong-vector', FD, 'self._results_tmp[:] = system._outputs.asarray()',
           'self._results_tmp[:] = system._residuals.asarray()', 'C12.capture'),
    Mutant('fd-capture-after-restore', FD, _FD_RUN + '\n        system._residuals.set_val(self._starting_resids)\n',
           '        if total:\n            system.run_solve_nonlinear()\n        else:\n            system.run_apply_nonlinear()\n'
           '        system._residuals.set_val(self._starting_resids)\n        if total:\n'
           '            self._results_tmp[:] = system._outputs.asarray()\n        else:\n'
           '            self._results_tmp[:] = system._residuals.asarray()\n', 'C12.capture'),
    Mutant('cs-run-branches-swapped', CS, _CS_RUN,
           '        if total:\n            system.run_apply_nonlinear()\n            result_array[:] = system._residuals.asarray()\n'
           '        else:\n            system.run_solve_nonlinear()\n            result_array[:] = system._outputs.asarray()\n',
           'C12.capture'),
    Mutant('cs-capture-before-run', CS, '            system.run_solve_nonlinear()\n            result_array[:] = system._outputs.asarray()\n',
           '            result_array[:] = system._outputs.asarray()\n            system.run_solve_nonlinear()\n', 'C12.capture'),
    Mutant('cs-undo-before-capture', CS, _CS_RUN + '\n' + _CS_ISUB, _CS_ISUB + '\n' + _CS_RUN, ['C12.capture', 'C12.cs-mirror']),
    # ---- mode
    Mutant('fd-mode-no-finally', FD,
           '        try:\n            yield from self._compute_approx_col_iter(system, under_cs=under_cs)\n        finally:\n'
           '            # Turn off finite difference.\n            system._set_finite_difference_mode(False)',
           '        yield from self._compute_approx_col_iter(system, under_cs=under_cs)\n        system._set_finite_difference_mode(False)',
           'C12.mode'),
    Mutant('fd-mode-finally-true', FD, 'system._set_finite_difference_mode(False)', 'system._set_finite_difference_mode(True)', 'C12.mode'),
    Mutant('cs-mode-except-instead-of-finally', CS,
           '        finally:\n            # Turn off complex step.\n            system._set_complex_step_mode(False)\n',
           '        except KeyError:\n            pass\n        system._set_complex_step_mode(False)\n', 'C12.mode'),
    Mutant('cs-mode-never-on', CS, '        system._set_complex_step_mode(True)\n', '        pass\n', 'C12.mode'),
    # ---- cs-mirror
    Mutant('cs-isub-is-iadd', CS, 'vec.isub(delta, idxs)', 'vec.iadd(delta, idxs)', 'C12.cs-mirror'),
    Mutant('cs-isub-whole-vector', CS, 'vec.isub(delta, idxs)', 'vec.isub(delta)', 'C12.cs-mirror'),
    Mutant('cs-isub-guard-weaker', CS, '            if vec is not None and idxs is not None:\n                vec.isub',
           '            if vec is not None:\n                vec.isub', 'C12.cs-mirror'),
    Mutant('cs-isub-loop-deleted', CS, _CS_ISUB + '\n        return result_array', '        return result_array', 'C12.cs-mirror'),
    Mutant('cs-delta-rebound', CS, _CS_RUN + '\n' + _CS_ISUB, _CS_RUN + '        delta = delta.real\n' + _CS_ISUB, 'C12.cs-mirror'),
    # ---- cs-save
    Mutant('cs-restore-swapped', CS, '        system._outputs.set_val(saved_outputs)\n        system._residuals.set_val(saved_resids)',
           '        system._outputs.set_val(saved_resids)\n        system._residuals.set_val(saved_outputs)', 'C12.cs-save'),
    Mutant('cs-save-no-copy', CS, 'saved_inputs = system._inputs._get_data().copy()', 'saved_inputs = system._inputs._get_data()', 'C12.cs-save'),
    Mutant('cs-restore-inputs-deleted', CS, '        system._inputs.set_val(saved_inputs)\n        system._outputs.set_val(saved_outputs)\n        system._residuals',
           '        system._outputs.set_val(saved_outputs)\n        system._residuals', 'C12.cs-save'),
    Mutant('cs-reset-between-points-deleted', CS, '                system._outputs.set_val(saved_outputs)\n        finally', '                pass\n        finally', 'C12.cs-save'),
    Mutant('cs-save-outputs-inside-loop', CS, '        saved_outputs = system._outputs.asarray(copy=True)\n', '', 'C12.cs-save',
           also=[(CS, '                yield tup\n', '                yield tup\n                saved_outputs = system._outputs.asarray(copy=True)\n')]),
    # ---- cs-imag
    Mutant('cs-imag-inputs-not-cleared', CS, '        system._inputs._data.imag[:] = 0.0\n', '', 'C12.cs-imag'),
    Mutant('cs-imag-copy-paste', CS, 'system._residuals._data.imag[:] = 0.0', 'system._outputs._data.imag[:] = 0.0', 'C12.cs-imag'),
    # ---- relevance
    Mutant('seeds-no-finally', REL, _SEEDS_FIN,
           '            self._set_seeds(fwd_seeds, rev_seeds)\n            yield\n            self._set_seeds(save_fwd, save_rev)\n'
           '            self._active = save_active', 'C12.relevance'),
    Mutant('seeds-restore-swapped', REL, '                self._set_seeds(save_fwd, save_rev)\n                self._active = save_active',
           '                self._set_seeds(save_rev, save_fwd)\n                self._active = save_active', 'C12.relevance'),
    Mutant('seeds-active-not-restored', REL, '                self._set_seeds(save_fwd, save_rev)\n                self._active = save_active',
           '                self._set_seeds(save_fwd, save_rev)', 'C12.relevance'),
    Mutant('seeds-of-previous-loop', AS, '                        seeds = wrt if directional else (wrt,)\n', '', 'C12.relevance',
           also=[(AS, '        # now do uncolored solves\n', '        for tup in approx_groups:\n            seeds = tup[0] if tup[4] else (tup[0],)\n')]),
    # ---- table
    Mutant('table-central-sign', FD, 'coeffs=np.array([0.5, -0.5])', 'coeffs=np.array([0.5, 0.5])', 'C12.table'),
    Mutant('table-central-weight', FD, 'coeffs=np.array([0.5, -0.5])', 'coeffs=np.array([1.0, -1.0])', 'C12.table'),
    Mutant('table-backward-current', FD, 'coeffs=np.array([-1.0]),\n                                current_coeff=1.0',
           'coeffs=np.array([-1.0]),\n                                current_coeff=-1.0', 'C12.table'),
    Mutant('table-forward-steps-backward', FD, "('forward', 1): FDForm(deltas=np.array([1.0]),\n                               coeffs=np.array([1.0]),\n                               current_coeff=-1.0)",
           "('forward', 1): FDForm(deltas=np.array([-1.0]),\n                               coeffs=np.array([-1.0]),\n                               current_coeff=1.0)", 'C12.table'),
    Mutant('table-default-order-missing-row', FD, "    'central': 2,\n}", "    'central': 4,\n}", 'C12.table'),
    Mutant('table-central-current', FD, 'current_coeff=0.),', 'current_coeff=1.),', 'C12.table'),
    Mutant('table-central-one-sided-second-order-claim', FD, 'deltas=np.array([1.0, -1.0]),\n                               coeffs=np.array([0.5, -0.5]),\n                               current_coeff=0.)',
           'deltas=np.array([1.0, 2.0]),\n                               coeffs=np.array([1.0, 0.0]),\n                               current_coeff=-1.0)', 'C12.table'),
    # ---- cs-formula
    Mutant('cs-multiplier-no-j', CS, 'return (1.0 / delta * 1j).real', 'return (1.0 / delta).real', 'C12.cs-formula'),
    Mutant('cs-multiplier-imag', CS, 'return (1.0 / delta * 1j).real', 'return (1.0 / delta * 1j).imag', 'C12.cs-formula'),
    Mutant('cs-multiplier-times-delta', CS, 'return (1.0 / delta * 1j).real', 'return (delta * 1j).real', 'C12.cs-formula'),
    Mutant('cs-transform-real', CS, 'return array.imag', 'return array.real', 'C12.cs-formula'),
    Mutant('cs-step-real', CS, 'step *= 1j', 'step *= 1', 'C12.cs-formula'),
    Mutant('cs-step-has-real-part', CS, 'step *= 1j', 'step *= (1 + 1j)', 'C12.cs-formula'),
    Mutant('fd-multiplier-half', FD, '        return 1.0\n', '        return 0.5\n', 'C12.cs-formula'),
    # ---- step
    Mutant('step-coeffs-multiplied', FD, 'coeffs = fd_form.coeffs / step', 'coeffs = fd_form.coeffs * step', 'C12.step'),
    Mutant('step-current-not-divided', FD, 'current_coeff = fd_form.current_coeff / step', 'current_coeff = fd_form.current_coeff', 'C12.step'),
    Mutant('step-wrong-field', FD, 'coeffs = fd_form.coeffs / step', 'coeffs = fd_form.deltas / step', 'C12.step'),
    Mutant('step-negated', FD, 'deltas = fd_form.deltas * step\n', 'deltas = -fd_form.deltas * step\n', 'C12.step'),
    Mutant('step-factor-two', FD, 'current_coeff = fd_form.current_coeff * step_divide', 'current_coeff = 2 * fd_form.current_coeff * step_divide', 'C12.step'),
    Mutant('step-raw-step-in-deltas', FD, 'deltas = fd_form.deltas * step\n', "deltas = fd_form.deltas * meta['step']\n", 'C12.step'),
    Mutant('step-vector-coeffs-times-step', FD, 'coeffs = np.outer(fd_form.coeffs, step_divide)', 'coeffs = np.outer(fd_form.coeffs, step)', 'C12.step'),
    Mutant('step-return-order', FD, 'return deltas, coeffs, current_coeff\n\n    def compute_approx', 'return coeffs, deltas, current_coeff\n\n    def compute_approx', 'C12.step'),
    Mutant('step-relative-factor-lost', FD, 'step = np.abs(wrt_val) * step', 'step = np.abs(wrt_val)', 'C12.step'),
    Mutant('step-legacy-overwrites', FD, 'step *= np.linalg.norm(wrt_val)', 'step = np.linalg.norm(wrt_val)', 'C12.step'),
    # ---- step-calc
    Mutant('stepcalc-rel-not-dispatched', FD, "elif step_calc == 'rel_avg' or step_calc == 'rel':", "elif step_calc == 'rel_avg':", 'C12.step-calc'),
    Mutant('stepcalc-new-literal-undispatched', FD, "step_calcs = ['abs', 'rel', 'rel_legacy', 'rel_avg', 'rel_element']",
           "step_calcs = ['abs', 'rel', 'rel_legacy', 'rel_avg', 'rel_element', 'rel_max']", 'C12.step-calc'),
    Mutant('stepcalc-abs-test-flipped', FD, "if step_calc != 'abs':", "if step_calc == 'abs':", 'C12.step-calc'),
    Mutant('stepcalc-avg-no-clamp', FD,
           '                    step *= np.sum(np.abs(wrt_val)) / len(wrt_val)\n\n                    if step < minimum_step:\n                        step = minimum_step\n',
           '                    step *= np.sum(np.abs(wrt_val)) / len(wrt_val)\n', 'C12.step-calc'),
    Mutant('stepcalc-clamp-inverted', FD, '                    step *= np.linalg.norm(wrt_val)\n\n                    if step < minimum_step:',
           '                    step *= np.linalg.norm(wrt_val)\n\n                    if step > minimum_step:', 'C12.step-calc'),
    Mutant('stepcalc-element-clamp-inverted', FD, 'idx_zero = np.where(step < minimum_step)', 'idx_zero = np.where(step > minimum_step)', 'C12.step-calc'),
    Mutant('stepcalc-element-clamp-deleted', FD, '                    if idx_zero:\n                        step[idx_zero] = minimum_step\n', '', 'C12.step-calc'),
    Mutant('stepcalc-second-site-disagrees', FD, "        if step_calc == 'rel_element':\n            step_divide", "        if step_calc == 'rel_avg':\n            step_divide", 'C12.step-calc'),
    Mutant('stepcalc-clamp-before-scaling', FD,
           '                    step *= np.linalg.norm(wrt_val)\n\n                    if step < minimum_step:\n                        step = minimum_step\n',
           '                    if step < minimum_step:\n                        step = minimum_step\n                    step *= np.linalg.norm(wrt_val)\n', 'C12.step-calc'),
    # ---- fd-accum
    Mutant('accum-zip-swapped', FD, 'for delta, coeff in zip(deltas, coeffs):', 'for delta, coeff in zip(coeffs, deltas):', 'C12.fd-accum'),
    Mutant('accum-unpack-swapped', FD, '        deltas, coeffs, current_coeff = data\n        vec_curr', '        coeffs, deltas, current_coeff = data\n        vec_curr', 'C12.fd-accum'),
    Mutant('accum-zero-init-dropped', FD, '            results_array *= current_coeff\n        else:\n            results_array[:] = 0.\n', '            results_array *= current_coeff\n', 'C12.fd-accum'),
    Mutant('accum-rebinds', FD, '            results_array += results\n', '            results_array = results\n', 'C12.fd-accum'),
    Mutant('accum-unweighted-branch', FD, '            if rel_element:\n                results *= coeff[loc_idx]\n            else:\n                results *= coeff\n',
           '            if rel_element:\n                results *= coeff[loc_idx]\n', 'C12.fd-accum'),
    Mutant('accum-weighted-by-delta', FD, '            else:\n                results *= coeff\n', '            else:\n                results *= delta\n', 'C12.fd-accum'),
    Mutant('accum-coeff-index-zero', FD, 'results *= coeff[loc_idx]', 'results *= coeff[0]', 'C12.fd-accum'),
    Mutant('accum-delta-index-zero', FD, 'local_delta = delta[loc_idx].item()', 'local_delta = delta[0].item()', 'C12.fd-accum'),
    Mutant('accum-current-vector-swapped', FD,
           '            current_vec = system._outputs if total else system._residuals\n            # copy data from outputs (if doing total derivs) or residuals (if doing partials)\n            results_array[:] = current_vec.asarray()\n            results_array *= current_coeff\n',
           '            current_vec = system._residuals if total else system._outputs\n            # copy data from outputs (if doing total derivs) or residuals (if doing partials)\n            results_array[:] = current_vec.asarray()\n            results_array *= current_coeff\n', 'C12.fd-accum'),
    Mutant('accum-current-not-weighted', FD, '            results_array[:] = current_vec.asarray()\n            results_array *= current_coeff\n        else:',
           '            results_array[:] = current_vec.asarray()\n        else:', 'C12.fd-accum'),
    Mutant('accum-zero-test-inverted', FD, 'elif np.any(current_coeff != 0.0):', 'elif np.any(current_coeff == 0.0):', 'C12.fd-accum'),
    Mutant('accum-perturb-by-coeff', FD, 'results = self._run_sub_point(system, idx_info, local_delta, total)',
           'results = self._run_sub_point(system, idx_info, coeff, total)', 'C12.fd-accum'),
    Mutant('accum-weight-temporary-from-delta', FD, '            else:\n                results *= coeff\n', '            else:\n                w = delta\n                results *= w\n', 'C12.fd-accum'),
    Mutant('accum-current-temporary-from-coeffs', FD, '            results_array *= current_coeff\n        else:', '            cur = coeffs[0]\n            results_array *= cur\n        else:', 'C12.fd-accum'),
    Mutant('accum-flag-inverted', FD, 'elif np.any(current_coeff != 0.0):', 'elif not np.any(current_coeff != 0.0):', 'C12.fd-accum'),
    Mutant('slots-colored-indexed-swapped', AS, '                _, jcols, _, nzrows, _ = colored_approx_groups[i]\n',
           '                grp = colored_approx_groups[i]\n                jcols = grp[3]\n                nzrows = grp[1]\n', 'C12.slots'),
    # ---- colored-scatter
    Mutant('scatter-not-zeroed', AS, '                    scratch[:] = 0.0\n', '', 'C12.colored-scatter'),
    Mutant('scatter-source-mask-zero', AS, 'scratch[nzrows[i]] = res[nzrows[i]]', 'scratch[nzrows[i]] = res[nzrows[0]]', 'C12.colored-scatter'),
    Mutant('scatter-both-masks-zero', AS, 'scratch[nzrows[i]] = res[nzrows[i]]', 'scratch[nzrows[0]] = res[nzrows[0]]', 'C12.colored-scatter'),
    Mutant('scatter-zero-after-fill', AS, '                    scratch[:] = 0.0\n                    scratch[nzrows[i]] = res[nzrows[i]]\n',
           '                    scratch[nzrows[i]] = res[nzrows[i]]\n                    scratch[:] = 0.0\n', 'C12.colored-scatter'),
    Mutant('scatter-zero-hoisted', AS, '                for i, col in enumerate(jcols):\n                    scratch[:] = 0.0\n',
           '                scratch[:] = 0.0\n                for i, col in enumerate(jcols):\n', 'C12.colored-scatter'),
    Mutant('scatter-indexed-wrong-slot', AS, '                _, jcols, _, nzrows, _ = colored_approx_groups[i]\n',
           '                grp = colored_approx_groups[i]\n                jcols = grp[1]\n                nzrows = colored_approx_groups[0][3]\n', 'C12.colored-scatter'),
    Mutant('scatter-temporary-wrong-index', AS, '                    scratch[nzrows[i]] = res[nzrows[i]]\n',
           '                    rows = nzrows[0]\n                    scratch[rows] = res[rows]\n', 'C12.colored-scatter'),
    # ---- pipeline
    Mutant('pipeline-colored-no-transform', AS, '                if par_fd_w_serial_model or not use_parallel_fd:\n                    result = self._transform_result(result)\n',
           '                if par_fd_w_serial_model or not use_parallel_fd:\n', 'C12.pipeline'),
    Mutant('pipeline-colored-mult-test-flipped', AS, '                    if mult != 1.0:\n                        result *= mult', '                    if mult == 1.0:\n                        result *= mult', 'C12.pipeline'),
    Mutant('pipeline-uncolored-and', AS, 'if direction is not None or mult != 1.0:', 'if direction is not None and mult != 1.0:', 'C12.pipeline'),
    Mutant('pipeline-uncolored-no-mult', AS, '                    if direction is not None or mult != 1.0:\n                        result *= mult\n', '', 'C12.pipeline'),
    Mutant('pipeline-uncolored-no-transform', AS, '                    result = self._transform_result(result)\n\n                    if direction', '                    if direction', 'C12.pipeline'),
    Mutant('pipeline-mult-from-directional-data', AS, '            mult = self._get_multiplier(data)\n\n            jidx_iter', '            mult = self._get_multiplier(app_data)\n\n            jidx_iter', 'C12.pipeline'),
    # ---- slots
    Mutant('slots-directional-swapped', FD, 'return (np.outer(np.atleast_1d(deltas), direction), coeffs, current_coeff)',
           'return (np.outer(np.atleast_1d(coeffs), direction), deltas, current_coeff)', 'C12.slots'),
    Mutant('slots-directional-no-direction', FD, 'return (np.outer(np.atleast_1d(deltas), direction), coeffs, current_coeff)',
           'return (np.atleast_1d(deltas), coeffs, current_coeff)', 'C12.slots'),
    Mutant('slots-colored-producer', AS, 'self._colored_approx_groups.append((data, jaccols, vec_ind_list, nzrows, seed_vars))',
           'self._colored_approx_groups.append((data, vec_ind_list, jaccols, nzrows, seed_vars))', 'C12.slots'),
    Mutant('slots-colored-inner-unpack', AS, '_, jcols, _, nzrows, _ = colored_approx_groups[i]', '_, nzrows, _, jcols, _ = colored_approx_groups[i]', 'C12.slots'),
    Mutant('slots-uncolored-literal', AS, 'jinds = approx_groups[gi][2][icount]', 'jinds = approx_groups[gi][3][icount]', 'C12.slots'),
    Mutant('slots-uncolored-producer', AS,
           'self._approx_groups.append(((wrt,) if directional else wrt, data, in_idx,\n                                                [(vec, vec_idx)], directional, direction))',
           'self._approx_groups.append(((wrt,) if directional else wrt, data,\n                                                [(vec, vec_idx)], in_idx, directional, direction))', 'C12.slots'),
    # ---- twins (behaviour preserving)
    Twin('twin-fd-restore-order', FD, _RESTORE3,
         '        system._outputs.set_val(self._starting_outs)\n        system._inputs.set_val(self._starting_ins)\n'
         '        system._residuals.set_val(self._starting_resids)\n'),
    Twin('twin-fd-vector-alias', FD, '        system._residuals.set_val(self._starting_resids)\n',
         '        resids = system._residuals\n        resids.set_val(self._starting_resids)\n'),
    Twin('twin-fd-snapshot-copy-method', FD, 'self._starting_ins = system._inputs.asarray(copy=True)', 'self._starting_ins = system._inputs.asarray().copy()'),
    Twin('twin-buffer-copy-method', AS, 'results_array = vec.asarray(copy=True)', 'results_array = vec.asarray().copy()'),
    Twin('twin-cs-imag-cleared-inside-try', CS, '        system._outputs._data.imag[:] = 0.0\n', '',
         also=[(CS, '        try:\n            for tup in', '        try:\n            system._outputs._data.imag[:] = 0.0\n            for tup in')]),
    Twin('twin-scatter-index-renamed', AS, '                for i, col in enumerate(jcols):\n                    scratch[:] = 0.0\n                    scratch[nzrows[i]] = res[nzrows[i]]',
         '                for k, col in enumerate(jcols):\n                    scratch[:] = 0.0\n                    scratch[nzrows[k]] = res[nzrows[k]]'),
    Twin('twin-stepcalc-not-equal', FD, "if step_calc != 'abs':", "if not step_calc == 'abs':"),
    Twin('twin-fd-branches-flipped', FD, _FD_RUN,
         '        if not total:\n            system.run_apply_nonlinear()\n            self._results_tmp[:] = system._residuals.asarray()\n'
         '        else:\n            system.run_solve_nonlinear()\n            self._results_tmp[:] = system._outputs.asarray()\n'),
    Twin('twin-scale-mean-of-abs', FD, 'step *= np.sum(np.abs(wrt_val)) / len(wrt_val)', 'step *= np.mean(np.abs(wrt_val))'),
    Twin('twin-scale-abs-method-sum', FD, 'step *= np.sum(np.abs(wrt_val)) / len(wrt_val)', 'step *= np.abs(wrt_val).sum() / wrt_val.size'),
    Twin('twin-scale-temporary', FD, '                    step *= np.sum(np.abs(wrt_val)) / len(wrt_val)\n',
         '                    mag = np.abs(wrt_val)\n                    step *= np.sum(mag) / len(wrt_val)\n'),
    Twin('twin-colored-wrt-continue-guard', AS,
         '            if wrt_matches is None or wrt in wrt_matches:\n                # data is the same for all colored approxs so we only need the first\n'
         '                data = self._get_approx_data(system, wrt, meta)\n                break\n',
         '            if wrt_matches is not None and wrt not in wrt_matches:\n                continue\n'
         '            data = self._get_approx_data(system, wrt, meta)\n            break\n'),
    Twin('twin-colored-wrt-keys-loop', AS,
         '        for wrt, meta in self._wrt_meta.items():\n            if wrt_matches is None or wrt in wrt_matches:\n'
         '                # data is the same for all colored approxs so we only need the first\n'
         '                data = self._get_approx_data(system, wrt, meta)\n                break\n',
         '        for wrt in self._wrt_meta:\n            if wrt_matches is None or wrt in wrt_matches:\n'
         '                data = self._get_approx_data(system, wrt, self._wrt_meta[wrt])\n                break\n'),
    Twin('twin-accum-merged-init-and-ifexp-weight', FD,
         '        if rel_element:\n            if current_coeff[loc_idx]:\n                current_vec = system._outputs if total else system._residuals\n'
         '                # copy data from outputs (if doing total derivs) or residuals (if doing partials)\n'
         '                results_array[:] = current_vec.asarray()\n                results_array *= current_coeff[loc_idx]\n\n'
         '            else:\n                results_array[:] = 0.\n\n        elif np.any(current_coeff != 0.0):\n'
         '            current_vec = system._outputs if total else system._residuals\n'
         '            # copy data from outputs (if doing total derivs) or residuals (if doing partials)\n'
         '            results_array[:] = current_vec.asarray()\n            results_array *= current_coeff\n',
         '        if rel_element:\n            curr = current_coeff[loc_idx]\n            use_current = bool(curr)\n        else:\n'
         '            curr = current_coeff\n            use_current = np.any(current_coeff != 0.0)\n\n        if use_current:\n'
         '            current_vec = system._outputs if total else system._residuals\n'
         '            results_array[:] = current_vec.asarray()\n            results_array *= curr\n',
         also=[(FD, '            if rel_element:\n                results *= coeff[loc_idx]\n            else:\n                results *= coeff\n',
                '            results *= coeff[loc_idx] if rel_element else coeff\n')]),
    Twin('twin-accum-plain-assign-forms', FD, '            results_array += results\n', '            results_array = results_array + results\n',
         also=[(FD, '            else:\n                results *= coeff\n', '            else:\n                results = coeff * results\n')]),
    Twin('twin-accum-weight-temporary', FD, '            else:\n                results *= coeff\n', '            else:\n                w = coeff\n                results *= w\n'),
    Twin('twin-fd-perturb-continue-guard', FD, '            if vec is not None and idxs is not None:\n                vec.iadd(delta, idxs)\n\n        if total:\n            system.run_solve_nonlinear()\n            self',
         '            if vec is None or idxs is None:\n                continue\n            vec.iadd(delta, idxs)\n\n        if total:\n            system.run_solve_nonlinear()\n            self'),
    Twin('twin-scatter-indexing-and-temporaries', AS,
         '                i, res = tup\n\n                _, jcols, _, nzrows, _ = colored_approx_groups[i]\n\n                for i, col in enumerate(jcols):\n'
         '                    scratch[:] = 0.0\n                    scratch[nzrows[i]] = res[nzrows[i]]\n',
         '                igroup, res = tup\n\n                group = colored_approx_groups[igroup]\n                group_cols = group[1]\n'
         '                group_nzrows = group[3]\n\n                for icol, col in enumerate(group_cols):\n                    col_nzrows = group_nzrows[icol]\n'
         '                    scratch[:] = 0.0\n                    scratch[col_nzrows] = res[col_nzrows]\n',
         also=[(AS, 'for data, jcols, vec_ind_list, nzrows, seed_vars, in colored_approx_groups:', 'for data, _, vec_ind_list, _, seed_vars, in colored_approx_groups:')]),
    Twin('twin-colored-early-raise', AS,
         '                if par_fd_w_serial_model or not use_parallel_fd:\n                    result = self._transform_result(result)\n\n'
         '                    if mult != 1.0:\n                        result *= mult\n\n                    if total:\n'
         '                        result = self._get_total_result(result, tot_result)\n\n                    tosend = (fd_count, result)\n\n'
         '                else:  # parallel model (some vars are remote)\n                    raise NotImplementedError(',
         '                if not (par_fd_w_serial_model or not use_parallel_fd):\n                    raise NotImplementedError("x")\n'
         '                result = self._transform_result(result)\n\n                if mult != 1.0:\n                    result *= mult\n\n'
         '                if total:\n                    result = self._get_total_result(result, tot_result)\n\n                tosend = (fd_count, result)\n\n'
         '                if False:\n                    raise NotImplementedError('),
    Twin('twin-unscaled-positional', 'openmdao/core/explicitcomponent.py',
         "            with self._unscaled_context(outputs=[self._outputs], residuals=[self._residuals]):\n                # Computing the approximation",
         "            with self._unscaled_context([self._outputs], [self._residuals]):\n                # Computing the approximation"),
    Twin('twin-unscaled-keyword-order', 'openmdao/core/component.py',
         "        with self._unscaled_context(outputs=[self._outputs], residuals=[self._residuals]):\n            approximation.compute_approximations(self, jac=jac)",
         "        with self._unscaled_context(residuals=(self._residuals,), outputs=(self._outputs,)):\n            approximation.compute_approximations(self, jac=jac)"),
    Twin('twin-colored-multiplier-hoisted', AS,
         '        for data, jcols, vec_ind_list, nzrows, seed_vars, in colored_approx_groups:\n            mult = self._get_multiplier(data)\n',
         '        mult = self._get_multiplier(colored_approx_groups[0][0]) if colored_approx_groups else 1.0\n        for data, jcols, vec_ind_list, nzrows, seed_vars, in colored_approx_groups:\n'),
    # accepted repair idioms of the four findings on today's tree (must be decided ok, not undecided)
    Twin('twin-implicit-unscaled-positional', 'openmdao/core/implicitcomponent.py',
         "            with self._unscaled_context(outputs=[self._outputs], residuals=[self._residuals]):\n                # Computing the approximation",
         "            with self._unscaled_context([self._outputs], [self._residuals]):\n                # Computing the approximation"),
    Twin('twin-seed-range-len', AS, 'wrt_ranges.append((abs_wrt, cend - cstart))', 'wrt_ranges.append((abs_wrt, len(rng)))'),
    Twin('twin-seed-range-temporary', AS, 'wrt_ranges.append((abs_wrt, cend - cstart))', 'ncols = cend - cstart\n                        wrt_ranges.append((abs_wrt, ncols))'),
    Twin('twin-no-coloured-wrt-none-placeholder', AS,
         '        for wrt, meta in self._wrt_meta.items():\n            if wrt_matches is None or wrt in wrt_matches:',
         '        data = None\n        for wrt, meta in self._wrt_meta.items():\n            if wrt_matches is None or wrt in wrt_matches:',
         also=[(AS, '        else:\n            return  # this scheme has no colored wrt\n', '        if data is None:\n            return\n')]),
    Twin('repair-relative-step-not-cached', FD, '        if not self._wrt_meta:\n            return\n\n        self._starting_outs =',
         "        if not self._wrt_meta:\n            return\n\n        if any(m['step_calc'] != 'abs' for m in self._wrt_meta.values()):\n            self._reset()\n\n        self._starting_outs ="),
    Twin('twin-unscaled-named-lists', 'openmdao/core/implicitcomponent.py',
         "            with self._unscaled_context(outputs=[self._outputs], residuals=[self._residuals]):\n                # Computing the approximation",
         "            outs = [self._outputs]\n            resids = [self._residuals]\n            with self._unscaled_context(outputs=outs, residuals=resids):\n                # Computing the approximation"),
    Twin('twin-pipeline-app-data-conditional-expression', AS,
         '            if direction is not None:\n                app_data = self.apply_directional(data, direction)\n            else:\n                app_data = data\n',
         '            app_data = data if direction is None else self.apply_directional(data, direction)\n'),
    Twin('twin-buffer-if-else', AS, '        results_array = system._outputs.asarray(copy=True) if total_or_semi \\\n            else system._residuals.asarray(copy=True)\n',
         '        if total_or_semi:\n            results_array = system._outputs.asarray(copy=True)\n        else:\n            results_array = system._residuals.asarray(copy=True)\n'),
    Twin('twin-wrt-value-lookup-helper', FD, '            var_local = True\n            if system._outputs._contains_abs(wrt):\n                wrt_val = system._outputs._abs_get_val(wrt)\n            elif system._inputs._contains_abs(wrt):\n                wrt_val = system._inputs._abs_get_val(wrt)\n            else:\n                var_local = False\n', '            var_local, wrt_val = _get_local_wrt_val(system, wrt)\n',
         also=[(FD, 'class FiniteDifference(ApproximationScheme):', 'def _get_local_wrt_val(system, wrt):\n    outputs = system._outputs\n    if outputs._contains_abs(wrt):\n        return True, outputs._abs_get_val(wrt)\n    inputs = system._inputs\n    if inputs._contains_abs(wrt):\n        return True, inputs._abs_get_val(wrt)\n    return False, None\n\n\nclass FiniteDifference(ApproximationScheme):')]),
    Twin('twin-fd-restore-helper-method', FD, '        system._residuals.set_val(self._starting_resids)\n\n        # save results and restore starting inputs/outputs\n        system._inputs.set_val(self._starting_ins)\n        system._outputs.set_val(self._starting_outs)\n\n        return self._results_tmp\n', '        self._restore_starting_state(system)\n\n        return self._results_tmp\n\n    def _restore_starting_state(self, system):\n        system._residuals.set_val(self._starting_resids)\n        system._inputs.set_val(self._starting_ins)\n        system._outputs.set_val(self._starting_outs)\n'),
    Twin('twin-seeds-saved-in-one-tuple', REL, "            save_fwd = self._seed_vars['fwd']\n            save_rev = self._seed_vars['rev']\n            save_active = self._active\n", "            current = self._seed_vars\n            saved = (current['fwd'], current['rev'], self._active)\n", nth=1,
         also=[(REL, '                self._set_seeds(save_fwd, save_rev)\n                self._active = save_active', '                old_fwd, old_rev, old_active = saved\n                self._set_seeds(old_fwd, old_rev)\n                self._active = old_active')]),
    Twin('twin-fd-zero-literal', FD, '        else:\n            results_array[:] = 0.\n\n        # Run', '        else:\n            results_array[:] = 0.0\n\n        # Run'),
    Twin('twin-cs-loop-variable', CS, 'for tup in self._compute_approx_col_iter(system, under_cs=True):\n                yield tup',
         'for item in self._compute_approx_col_iter(system, under_cs=True):\n                yield item'),
    Twin('twin-cs-branches-flipped', CS, _CS_RUN,
         '        if not total:\n            system.run_apply_nonlinear()\n            result_array[:] = system._residuals.asarray()\n'
         '        else:\n            system.run_solve_nonlinear()\n            result_array[:] = system._outputs.asarray()\n'),
    Twin('twin-cs-restore-order', CS, '        system._inputs.set_val(saved_inputs)\n        system._outputs.set_val(saved_outputs)\n        system._residuals.set_val(saved_resids)',
         '        system._residuals.set_val(saved_resids)\n        system._outputs.set_val(saved_outputs)\n        system._inputs.set_val(saved_inputs)'),
    Twin('twin-cs-save-asarray', CS, 'saved_inputs = system._inputs._get_data().copy()', 'saved_inputs = system._inputs.asarray(copy=True)'),
    Twin('twin-cs-imag-fill', CS, 'system._outputs._data.imag[:] = 0.0', 'system._outputs._data.imag.fill(0.0)'),
    Twin('twin-cs-negative-imaginary-step', CS, 'step *= 1j', 'step *= -1j'),
    Twin('twin-cs-multiplier-form', CS, 'return (1.0 / delta * 1j).real', 'return 1.0 / delta.imag'),
    Twin('twin-seeds-restore-order', REL, '                self._set_seeds(save_fwd, save_rev)\n                self._active = save_active',
         '                self._active = save_active\n                self._set_seeds(save_fwd, save_rev)'),
    Twin('twin-table-fractions', FD, 'coeffs=np.array([0.5, -0.5])', 'coeffs=np.array([1 / 2, -1 / 2])'),
    Twin('twin-table-positional-reordered', FD, "('central', 2): FDForm(deltas=np.array([1.0, -1.0]),\n                               coeffs=np.array([0.5, -0.5]),\n                               current_coeff=0.)",
         "('central', 2): FDForm(np.array([-1.0, 1.0]), np.array([-0.5, 0.5]), 0.)"),
    Twin('twin-step-clamp-max', FD, '                    step *= np.linalg.norm(wrt_val)\n\n                    if step < minimum_step:\n                        step = minimum_step\n',
         '                    step *= np.linalg.norm(wrt_val)\n                    step = max(step, minimum_step)\n'),
    Twin('twin-step-clamp-flipped-compare', FD, '                    step *= np.linalg.norm(wrt_val)\n\n                    if step < minimum_step:',
         '                    step *= np.linalg.norm(wrt_val)\n\n                    if minimum_step > step:'),
    Twin('twin-stepcalc-membership', FD, "elif step_calc == 'rel_avg' or step_calc == 'rel':", "elif step_calc in ('rel_avg', 'rel'):"),
    Twin('twin-step-inline-inverse', FD, 'coeffs = np.outer(fd_form.coeffs, step_divide)', 'coeffs = np.outer(fd_form.coeffs, 1.0 / step)'),
    Twin('twin-step-operand-order', FD, 'deltas = fd_form.deltas * step\n', 'deltas = step * fd_form.deltas\n'),
    Twin('twin-step-renamed-temporary', FD,
         '            step_divide = 1.0 / step\n            deltas = np.outer(fd_form.deltas, step)\n            coeffs = np.outer(fd_form.coeffs, step_divide)\n            current_coeff = fd_form.current_coeff * step_divide',
         '            inv = 1.0 / step\n            deltas = np.outer(fd_form.deltas, step)\n            coeffs = np.outer(fd_form.coeffs, inv)\n            current_coeff = fd_form.current_coeff * inv'),
    Twin('twin-step-legacy-plain-assign', FD, 'step *= np.linalg.norm(wrt_val)', 'step = step * np.linalg.norm(wrt_val)'),
    Twin('twin-pipeline-compare-flipped', AS, '                    if mult != 1.0:\n                        result *= mult', '                    if 1.0 != mult:\n                        result *= mult'),
    Twin('twin-pipeline-always-multiply', AS, '                    if mult != 1.0:\n                        result *= mult', '                    result *= mult'),
)
