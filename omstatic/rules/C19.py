"""C19 -- Problem.load_case restores the recorded state.

``Problem.load_case`` walks the two value tables of a case (``case.inputs`` / ``case.outputs``, or the
``list_inputs``/``list_outputs`` dictionaries) and stores each entry with ``model.set_val``.  The rules
decide, from the shape of that function and of ``PromAbsDict.__init__`` (which fixes the *key space*
the two tables are iterated in), the structural necessary conditions of "every recorded value is
restored, in model units": nothing is dropped, deferred names are really handled by an overriding
``load_case``, outputs are written after inputs, the stored value is the table entry itself, every
kind of key that a recorded case can contain reaches ``set_val`` and it is stored through an end
point whose units/shape frame is the frame the value was recorded in.
"""
import ast
from collections import deque

from .. import astx, cfg as cfgm
from ..core import AnalysisError
from ..engine import rule, describe, selftest, Mutant, Twin

PRB = 'openmdao/core/problem.py'
CASE = 'openmdao/recorders/case.py'

describe('C19',
         'Decides structural clauses of Problem.load_case (core/problem.py) against the key space that '
         'PromAbsDict.__init__ / Case.__init__ (recorders/case.py) give the case tables. nodrop: every '
         'iteration of the inputs/outputs loops (and of nested fan-out loops) ends in model.set_val, a '
         'set_later deferral or issue_warning, no break/return leaves a loop, and the loops are reached '
         'whenever their table is non-empty. deferred: set_later is true only for names below the pathname '
         '(+".") of a system stored in system_overrides under its own pathname, and load_case(case) of every '
         'such system is called on every normal path. order: the outputs table is written after the inputs '
         'table (a stale recorded input must not overwrite its recorded source). taint: the value given to '
         'set_val is the table entry of the loop key (["val"] in dict mode only), optionally through '
         'scatter_dist_to_local with the sizes of the same variable and io kind, with no literal units=/'
         'indices=. keyspace: each kind of key that iteration of the table can yield for a variable that '
         'exists in the model (absolute / promoted input name; promoted output name / promoted input name '
         'of an auto_ivc output) is accepted by the is_abs/is_prom gate and reaches set_val. endpoint: the '
         'value is stored through an end point in the frame it was recorded in (an input value through the '
         'very input that indexes the table; an output value through an output, a source or the promoted key, '
         'never through inputs resolved by an unrestricted resolver.absnames). Does not decide what set_val '
         'does, MPI scatter arithmetic, or the dict (list_inputs/list_outputs) form beyond value provenance.',
         ['the recorder stores inputs under absolute names and auto_ivc outputs under the promoted input name '
          '(record_util.deserialize resolves them that way)',
          'resolver.absnames(name) without iotype prefers the promoted output and falls back to promoted inputs '
          '(utils/name_maps.py:get_prom_iotype)',
          'model.set_val through a promoted top-level name or an output converts nothing; through an absolute '
          'input it interprets the value in that input\'s units and src_indices (core/conn_graph.py:set_val)'])


# =========================================================================== model of load_case
def _single_name_assigns(fn):
    """name -> [value exprs] for `name = value` statements of the function (not nested scopes)."""
    out = {}
    for st in astx.walk_stmts(fn.node.body):
        if isinstance(st, ast.Assign) and len(st.targets) == 1 and isinstance(st.targets[0], ast.Name):
            out.setdefault(st.targets[0].id, []).append(st.value)
    return out


class Loop:
    def __init__(self, stmt, hdr, kind, modes, view, var):
        self.stmt, self.hdr, self.kind, self.modes, self.view, self.var = stmt, hdr, kind, modes, view, var

    @property
    def io(self):
        return 'input' if self.kind == 'inputs' else 'output'


class LC:
    """Facts about Problem.load_case shared by the rules."""

    def __init__(self, repo):
        self.repo = repo
        self.fn = fn = repo.func(PRB, 'Problem.load_case')
        a = fn.node.args.args
        if len(a) != 2 or a[0].arg != 'self':
            raise AnalysisError(f'{fn.ident}: expected signature (self, case)')
        self.case = a[1].arg
        self.g = cfgm.build(fn)
        self.rd = cfgm.ReachingDefs(self.g)
        asg = _single_name_assigns(fn)
        self.models = {'self.model'}
        for nm, vals in asg.items():
            if len(vals) == 1 and astx.path(vals[0]) == 'self.model':
                self.models.add(nm)
        self.resolvers = {m + '._resolver' for m in self.models}
        for nm, vals in asg.items():
            if len(vals) == 1 and astx.path(vals[0]) in self.resolvers:
                self.resolvers.add(nm)
        self.dictflags = set()
        for nm, vals in asg.items():
            if len(vals) == 1 and self._is_dict_test(vals[0]):
                self.dictflags.add(nm)
        self.local_defs = {st.name: st for st in fn.node.body if isinstance(st, ast.FunctionDef)}
        self.loops = self._table_loops()

    # ---------------------------------------------------------------- small recognisers
    def _is_dict_test(self, e):
        return isinstance(e, ast.Call) and astx.call_name(e) == 'isinstance' and len(e.args) == 2 and \
            astx.path(e.args[0]) == self.case and astx.path(e.args[1]) == 'dict'

    def dict_polarity(self, test):
        """True if `test` holds exactly in dict mode, False if exactly in Case mode, else None."""
        if isinstance(test, ast.UnaryOp) and isinstance(test.op, ast.Not):
            p = self.dict_polarity(test.operand)
            return None if p is None else not p
        if isinstance(test, ast.Name) and test.id in self.dictflags:
            return True
        if self._is_dict_test(test):
            return True
        return None

    def is_model(self, e):
        return astx.path(e) in self.models

    def is_resolver(self, e):
        return astx.path(e) in self.resolvers

    def table(self, e, at, depth=0):
        """Set of (kind, mode) the expression can denote (kind inputs/outputs, mode case/dict); None = unknown."""
        if depth > 5:
            return None
        if isinstance(e, ast.Attribute) and isinstance(e.value, ast.Name) and e.value.id == self.case \
                and e.attr in ('inputs', 'outputs'):
            return {(e.attr, 'case')}
        if isinstance(e, ast.Constant) and e.value is None:
            return set()
        if isinstance(e, ast.DictComp) and len(e.generators) == 1:
            it = e.generators[0].iter
            if isinstance(it, ast.Call) and astx.callee_attr(it) == 'values' and not it.args:
                r = astx.receiver(it)
                if isinstance(r, ast.Subscript) and astx.path(r.value) == self.case and \
                        astx.const_str(r.slice) in ('inputs', 'outputs'):
                    return {(astx.const_str(r.slice), 'dict')}
            return None
        if isinstance(e, ast.Name):
            ds = self.rd.defs(at, e.id)
            if not ds:
                return None
            out = set()
            for d in ds:
                if d.kind == 'stmt' and isinstance(d.ast, ast.Assign) and len(d.ast.targets) == 1 and \
                        isinstance(d.ast.targets[0], ast.Name):
                    r = self.table(d.ast.value, d, depth + 1)
                    if r is None:
                        return None
                    out |= r
                else:
                    return None
            return out
        return None

    def _table_loops(self):
        fn, g = self.fn, self.g
        found = []
        for st in astx.walk_stmts(fn.node.body):
            if not isinstance(st, ast.For):
                continue
            hs = g.nodes_of(st)
            if len(hs) != 1:
                continue
            it, view = st.iter, 'keys'
            if isinstance(it, ast.Call) and not it.args and not it.keywords and \
                    astx.callee_attr(it) in ('absolute_names', 'keys'):
                view = astx.callee_attr(it) if astx.callee_attr(it) == 'absolute_names' else 'keys'
                it = astx.receiver(it)
            tk = self.table(it, hs[0])
            if not tk:
                continue
            kinds = {k for k, _ in tk}
            if len(kinds) != 1:
                raise AnalysisError(f'{fn.ident}: loop at line {st.lineno} iterates a mix of tables {sorted(tk)}')
            if any(isinstance(a, ast.For) and any(a is l.stmt for l in found) for a in astx.ancestors(st)):
                continue
            if not isinstance(st.target, ast.Name):
                raise AnalysisError(f'{fn.ident}: table loop at line {st.lineno} does not bind a single name')
            found.append(Loop(st, hs[0], kinds.pop(), {m for _, m in tk}, view, st.target.id))
        by = {}
        for l in found:
            by.setdefault(l.kind, []).append(l)
        for k in ('inputs', 'outputs'):
            if len(by.get(k, [])) != 1:
                raise AnalysisError(f'{fn.ident}: expected exactly one loop over the case {k}, found '
                                    f'{len(by.get(k, []))}')
        return [by['inputs'][0], by['outputs'][0]]

    def loop(self, kind):
        return [l for l in self.loops if l.kind == kind][0]

    # ---------------------------------------------------------------- sinks
    def set_val_calls(self, node):
        return [c for c in node.calls() if astx.callee_attr(c) == 'set_val' and self.is_model(astx.receiver(c))]

    def set_val_nodes(self, loop):
        body = set(self.g.body_nodes(loop.stmt))
        return [n for n in self.g.nodes if n in body and self.set_val_calls(n)]

    def warn_nodes(self, loop):
        body = set(self.g.body_nodes(loop.stmt))
        return [n for n in self.g.calling('issue_warning') if n in body]

    def loop_vars(self, loop, upto=None):
        """Names bound by the table loop and by For loops nested in it (lexically enclosing `upto`)."""
        out = {loop.var}
        for st in astx.walk_stmts(loop.stmt.body):
            if isinstance(st, ast.For) and isinstance(st.target, ast.Name):
                if upto is None or astx.in_body(upto, st, 'body'):
                    out.add(st.target.id)
        return out

    def set_later_name(self):
        names = [n for n, d in self.local_defs.items() if n == 'set_later' or
                 any(isinstance(s, ast.Return) for s in astx.walk_stmts(d.body))]
        return names

    def deferral_nodes(self, loop):
        """`continue` nodes directly under `if set_later(<loop var>):` inside the loop."""
        out = []
        for n in self.g.body_nodes(loop.stmt):
            if n.kind == 'stmt' and isinstance(n.ast, ast.Continue):
                par = getattr(n.ast, '_parent', None)
                if isinstance(par, ast.If) and n.ast in par.body and self.is_set_later_test(par.test, loop, n.ast):
                    out.append(n)
        return out

    def is_set_later_test(self, t, loop, at_stmt=None):
        return isinstance(t, ast.Call) and isinstance(t.func, ast.Name) and t.func.id in self.local_defs \
            and len(t.args) == 1 and not t.keywords and isinstance(t.args[0], ast.Name) \
            and t.args[0].id in self.loop_vars(loop, at_stmt)

    def inner_loops(self, owner_stmt):
        """For statements directly nested (not through another For) in the body of owner_stmt."""
        out = []
        for st in astx.walk_stmts(owner_stmt.body):
            if isinstance(st, ast.For):
                anc = astx.enclosing(st, (ast.For, ast.While))
                if anc is owner_stmt:
                    out.append(st)
        return out


# =========================================================================== C19.nodrop
def _table_truth(lc, test, kind, at):
    """Polarity of a test that is the truthiness of a table of `kind`: True (table non-empty), False
    (table empty), 'other' (mentions the table in an unrecognised way), None (unrelated)."""
    t = test
    if isinstance(t, ast.UnaryOp) and isinstance(t.op, ast.Not):
        p = _table_truth(lc, t.operand, kind, at)
        return (not p) if isinstance(p, bool) else p

    def is_tab(e):
        tk = lc.table(e, at) if isinstance(e, (ast.Name, ast.Attribute)) else None
        return bool(tk) and {k for k, _ in tk} == {kind}
    if is_tab(t):
        return True
    if isinstance(t, ast.Compare) and len(t.ops) == 1 and is_tab(t.left) and \
            isinstance(t.comparators[0], ast.Constant) and t.comparators[0].value is None:
        if isinstance(t.ops[0], ast.IsNot):
            return True
        if isinstance(t.ops[0], ast.Is):
            return False
    for e in astx.walk(t):
        if isinstance(e, (ast.Name, ast.Attribute)) and is_tab(e):
            return 'other'
    return None


def _model_override_test(lc, n):
    """Test node `if overrides_method('load_case', model, System)`."""
    if n.kind != 'test' or not isinstance(n.ast, ast.If):
        return False
    t = n.ast.test
    return isinstance(t, ast.Call) and astx.callee_attr(t) == 'overrides_method' and len(t.args) >= 2 and \
        astx.const_str(t.args[0]) == 'load_case' and lc.is_model(t.args[1])


def _check_loop_nodrop(lc, out, loop, stmt, label):
    """Every normal path around `stmt` (a For inside the table loop) ends in a sink."""
    g, fn = lc.g, lc.fn
    hdr = g.nodes_of(stmt)[0]
    body = set(g.body_nodes(stmt))
    sinks = set()
    for n in body:
        if lc.set_val_calls(n):
            sinks.add(n)
    sinks |= {n for n in g.calling('issue_warning') if n in body}
    sinks |= {n for n in lc.deferral_nodes(loop) if n in body}
    delegated = []
    for inner in lc.inner_loops(stmt):
        ih = g.nodes_of(inner)[0]
        if astx.names(inner.iter) & lc.loop_vars(loop, inner):
            sinks.add(ih)
            delegated.append(inner)
    entry = [m for m, lab in g.succ[hdr] if lab == 'true']
    w = g.path(entry, [hdr], avoid=sinks, labels=cfgm.noexc)
    if w is not None:
        out.bad(fn, stmt, f'an entry of the case {loop.kind} can pass the {label} loop without set_val, '
                f'set_later deferral or warning (silently not restored): {g.fmt_path(w)}',
                key=f'drop-{loop.kind}-{label}')
        return delegated
    outside = [n for n in g.nodes if n not in body and n is not hdr and n.kind not in ('raise',)]
    w = g.path(entry, outside, avoid=[hdr], labels=cfgm.noexc)
    if w is not None:
        out.bad(fn, w[-2].ast if len(w) > 1 else stmt,
                f'the {label} loop over the case {loop.kind} can be left before all entries are handled: '
                f'{g.fmt_path(w)}', key=f'early-exit-{loop.kind}-{label}')
        return delegated
    out.ok(fn, stmt, f'every iteration ends in set_val ({len([s for s in sinks if lc.set_val_calls(s)])} site(s)), '
           'a set_later deferral, a delegated fan-out loop or issue_warning')
    return delegated


@rule('C19.nodrop', floor=3)
def nodrop(repo, out):
    """No entry of case.inputs/case.outputs is silently skipped; loops run whenever their table is non-empty."""
    lc = LC(repo)
    g, fn = lc.g, lc.fn
    for loop in lc.loops:
        todo = [(loop.stmt, 'table')]
        while todo:
            st, label = todo.pop()
            for inner in _check_loop_nodrop(lc, out, loop, st, label):
                todo.append((inner, 'fan-out'))
        # reached whenever the table is non-empty (and the model does not override load_case)
        unknown = []

        def edge_ok(n, m, lab, loop=loop, unknown=unknown):
            if n.kind == 'test' and lab in ('true', 'false') and isinstance(n.ast, ast.If):
                if _model_override_test(lc, n):
                    return lab == 'false'
                p = _table_truth(lc, n.ast.test, loop.kind, n)
                if isinstance(p, bool):
                    return (lab == 'true') == p
                if p == 'other':
                    unknown.append(n)
            return True
        w = g.path([g.entry], [g.exit], avoid=[loop.hdr], labels=cfgm.noexc, edge_ok=edge_ok)
        if w is None:
            out.ok(fn, loop.stmt, f'the {loop.kind} loop is on every normal path on which the table is non-empty')
        elif any(n in unknown for n in w):
            out.unsure(fn, loop.stmt, f'unrecognised test on the case {loop.kind} guards the loop: {g.fmt_path(w)}')
        else:
            out.bad(fn, loop.stmt, f'load_case can return without iterating a non-empty case {loop.kind} table: '
                    f'{g.fmt_path(w)}', key=f'skipped-{loop.kind}')


# =========================================================================== C19.deferred
def _overrides_dict(lc):
    """(name of the {path: system} dict, the store statement, its guarding If) in load_case."""
    fn = lc.fn
    stores = []
    for st in astx.walk_stmts(fn.node.body):
        if isinstance(st, ast.Assign) and len(st.targets) == 1 and isinstance(st.targets[0], ast.Subscript) \
                and isinstance(st.targets[0].value, ast.Name):
            par = getattr(st, '_parent', None)
            if isinstance(par, ast.If) and isinstance(par.test, ast.Call) and \
                    astx.callee_attr(par.test) == 'overrides_method' and \
                    astx.const_str(astx.arg(par.test, 0, 'method_name')) == 'load_case':
                stores.append((st.targets[0].value.id, st, par))
    if len(stores) != 1:
        raise AnalysisError(f'{fn.ident}: expected one store of overriding subsystems, found {len(stores)}')
    return stores[0]


def _is_prefix_of(e, key):
    """`key + '.'` or f'{key}.'"""
    if isinstance(e, ast.BinOp) and isinstance(e.op, ast.Add) and isinstance(e.left, ast.Name) and \
            e.left.id == key and astx.const_str(e.right) == '.':
        return True
    if isinstance(e, ast.JoinedStr) and len(e.values) == 2 and isinstance(e.values[0], ast.FormattedValue) \
            and isinstance(e.values[0].value, ast.Name) and e.values[0].value.id == key and \
            astx.const_str(e.values[1]) == '.':
        return True
    return False


@rule('C19.deferred', floor=3)
def deferred(repo, out):
    """Deferred names are exactly those below a system whose overriding load_case(case) is then called."""
    lc = LC(repo)
    g, fn = lc.g, lc.fn
    dname, store, guard = _overrides_dict(lc)
    # (a) the store: overrides[<s>.pathname] = <s>, <s> being the system tested by overrides_method
    key, val = store.targets[0].slice, store.value
    tested = astx.arg(guard.test, 1, 'obj')
    if isinstance(key, ast.Attribute) and key.attr == 'pathname' and astx.same(key.value, val) and \
            tested is not None and astx.same(tested, val):
        out.ok(fn, store, 'overriding systems are stored under their own pathname')
    elif isinstance(key, ast.Attribute) and astx.same(key.value, val) and key.attr != 'pathname':
        out.bad(fn, store, f'overriding system stored under .{key.attr}, not .pathname: set_later() then defers '
                'names below a different prefix than the system whose load_case is called (names of an '
                'unrelated system are dropped)', key='overrides-key')
    elif tested is not None and not astx.same(tested, val) and isinstance(val, ast.Name):
        out.bad(fn, store, f'stores {astx.src(val)} but overrides_method tested {astx.src(tested)}',
                key='overrides-key')
    else:
        out.unsure(fn, store, 'store of overriding subsystem not recognised')
    # (b) every deferral test calls a local predicate that is true only below an overriding system
    preds = set()
    for loop in lc.loops:
        for n in lc.deferral_nodes(loop):
            preds.add(n.ast._parent.test.func.id)
    if not preds:
        out.ok(fn, fn.node, 'no deferral in the table loops')
    for p in sorted(preds):
        d = lc.local_defs[p]
        if len(d.args.args) != 1:
            out.unsure(fn, d, f'{p} does not take exactly one name')
            continue
        var = d.args.args[0].arg
        rets = [s for s in astx.walk_stmts(d.body) if isinstance(s, ast.Return)]
        verdict = 'ok'
        for r in rets:
            v = r.value
            if isinstance(v, ast.Constant) and v.value in (False, None):
                continue
            if v is None:
                continue
            if not (isinstance(v, ast.Constant) and v.value is True):
                verdict = ('unsure', r, f'{p} returns a computed value')
                break
            loopst = astx.enclosing(r, (ast.For,))
            test = getattr(r, '_parent', None)
            if not (isinstance(test, ast.If) and r in test.body and loopst is not None and
                    astx.in_body(test, loopst, 'body')):
                verdict = ('bad', r, f'{p} returns True outside a prefix test against the overriding systems: '
                           'names are deferred that no overriding load_case will restore', 'set-later-true')
                break
            it = loopst.iter
            if isinstance(it, ast.Call) and astx.callee_attr(it) == 'keys' and not it.args:
                it = astx.receiver(it)
            if not (isinstance(it, ast.Name) and it.id == dname and isinstance(loopst.target, ast.Name)):
                verdict = ('unsure', loopst, f'{p} does not iterate the keys of {dname}')
                break
            k = loopst.target.id
            t = test.test
            if isinstance(t, ast.Call) and astx.callee_attr(t) == 'startswith' and len(t.args) == 1:
                recv, a0 = astx.receiver(t), t.args[0]
                if isinstance(recv, ast.Name) and recv.id == var and _is_prefix_of(a0, k):
                    continue
                if isinstance(recv, ast.Name) and recv.id == var and isinstance(a0, ast.Name) and a0.id == k:
                    verdict = ('bad', test, f"{p} tests startswith({k}) without the '.' separator: variables of "
                               f"a sibling system whose name merely starts with an overriding system's name "
                               f"(e.g. 'sub2.x' for override 'sub') are deferred and never restored",
                               'set-later-prefix')
                    break
                if isinstance(recv, ast.Name) and recv.id == k and astx.names(a0) & {var}:
                    verdict = ('bad', test, f'{p} tests whether the system path starts with the variable name '
                               '(operands swapped): nothing below an overriding system is deferred correctly',
                               'set-later-prefix')
                    break
            verdict = ('unsure', test, f'{p}: prefix test not recognised')
            break
        if verdict == 'ok':
            if any(isinstance(r.value, ast.Constant) and r.value.value is True for r in rets):
                out.ok(fn, d, f"{p}(name) is True only when name starts with <pathname of an overriding system> + '.'")
            else:
                out.ok(fn, d, f'{p}(name) never defers')
        elif verdict[0] == 'bad':
            out.bad(fn, verdict[1], verdict[2], key=verdict[3])
        else:
            out.unsure(fn, verdict[1], verdict[2])
    # (c) load_case(case) of every stored system on every normal path after the model-override test
    calls = []
    for st in astx.walk_stmts(fn.node.body):
        if not isinstance(st, ast.For) or any(st is l.stmt for l in lc.loops):
            continue
        for c in astx.calls(st):
            if astx.callee_attr(c) == 'load_case' and st.body and astx.in_body(c, st, 'body'):
                calls.append((st, c))
    calls = [(st, c) for st, c in calls if astx.mentions(st.iter, dname)]
    if not calls:
        out.bad(fn, fn.node, f'load_case of the systems in {dname} is never called although their variables '
                'are deferred', key='overrides-not-called')
        return
    if len(calls) > 1:
        out.unsure(fn, calls[1][0], 'several loops call load_case of overriding systems')
        return
    st, c = calls[0]
    hdr = g.nodes_of(st)[0]
    it = st.iter
    if isinstance(it, ast.Call) and astx.call_name(it) == 'sorted' and len(it.args) == 1 and not it.keywords:
        it = it.args[0]
    view = 'keys'
    if isinstance(it, ast.Call) and not it.args and astx.callee_attr(it) in ('keys', 'values', 'items'):
        view = astx.callee_attr(it)
        it = astx.receiver(it)
    recv = astx.receiver(c)
    tgt = st.target
    full = isinstance(it, ast.Name) and it.id == dname
    if view == 'keys':
        recv_ok = isinstance(tgt, ast.Name) and isinstance(recv, ast.Subscript) and \
            astx.path(recv.value) == dname and isinstance(recv.slice, ast.Name) and recv.slice.id == tgt.id
    elif view == 'values':
        recv_ok = isinstance(tgt, ast.Name) and isinstance(recv, ast.Name) and recv.id == tgt.id
    else:
        recv_ok = isinstance(tgt, ast.Tuple) and len(tgt.elts) == 2 and isinstance(recv, ast.Name) and \
            isinstance(tgt.elts[1], ast.Name) and recv.id == tgt.elts[1].id
    if not full or not recv_ok:
        out.unsure(fn, st, f'loop over {dname} / receiver of load_case not recognised')
        return
    a0 = astx.arg(c, 0, 'case')
    case_defs = lc.rd.defs(g.nodes_of(astx.stmt_of(c))[0], lc.case)
    if not (isinstance(a0, ast.Name) and a0.id == lc.case and case_defs == {g.entry}) or len(c.args) + len(c.keywords) != 1:
        out.bad(fn, astx.stmt_of(c), f'overriding load_case is not given the case that was passed in '
                f'({astx.src(c)})', key='overrides-arg')
        return
    entry = [m for m, lab in g.succ[hdr] if lab == 'true']
    cn = g.nodes_of(astx.stmt_of(c))
    w = g.path(entry, [hdr], avoid=cn, labels=cfgm.noexc)
    if w is not None:
        out.bad(fn, st, 'an overriding system can be passed over without calling its load_case: ' + g.fmt_path(w),
                key='overrides-not-called')
        return
    starts = [g.entry]

    def edge_ok(n, m, lab):
        if _model_override_test(lc, n):
            return lab == 'false'
        return True
    w = g.path(starts, [g.exit], avoid=[hdr], labels=cfgm.noexc, edge_ok=edge_ok)
    if w is not None:
        out.bad(fn, st, 'load_case can return without calling load_case of the overriding systems whose '
                'variables were deferred: ' + g.fmt_path(w), key='overrides-not-called')
        return
    out.ok(fn, st, f'load_case({lc.case}) of every system in {dname} is called on every normal path')


# =========================================================================== C19.order
@rule('C19.order', floor=1)
def order(repo, out):
    """The outputs table is written after the inputs table (recorded outputs win over stale inputs)."""
    lc = LC(repo)
    g, fn = lc.g, lc.fn
    li, lo = lc.loop('inputs'), lc.loop('outputs')
    fwd = g.path([li.hdr], [lo.hdr], labels=cfgm.noexc)
    back = g.path([lo.hdr], [li.hdr], labels=cfgm.noexc)
    if back is not None:
        out.bad(fn, lo.stmt, 'the case inputs are written after the case outputs: set_val on an input also '
                'writes its source output, so a recorded input that lags its source (solver/system cases taken '
                'mid-iteration) overwrites the recorded output value: ' + g.fmt_path(back),
                key='outputs-before-inputs')
    elif fwd is None:
        out.unsure(fn, lo.stmt, 'inputs loop and outputs loop are on disjoint paths')
    else:
        out.ok(fn, lo.stmt, 'inputs loop precedes outputs loop on every path; no path leads back')
