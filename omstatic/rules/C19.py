"""C19 -- Problem.load_case restores the recorded state.

``Problem.load_case`` walks the two value tables of a case (``case.inputs`` / ``case.outputs``, or the
``list_inputs``/``list_outputs`` dictionaries) and stores each entry with ``model.set_val``.  The rules
decide, from the shape of that function and of ``PromAbsDict.__init__`` (which fixes the *key space*
the two tables are iterated in), the structural necessary conditions of "every recorded value is
restored, in model units": nothing is dropped, deferred names are really handled by an overriding
``load_case``, outputs are written after inputs, the stored value is the table entry itself, every
kind of key that a recorded case can contain reaches ``set_val`` and it is stored through an end
point whose units/shape frame is the frame the value was recorded in.
"""
import ast
from collections import deque

from .. import astx, cfg as cfgm
from ..core import AnalysisError
from ..engine import rule, describe, selftest, Mutant, Twin

PRB = 'openmdao/core/problem.py'
CASE = 'openmdao/recorders/case.py'

describe('C19',
         'Decides structural clauses of Problem.load_case (core/problem.py) against the key space that '
         'PromAbsDict.__init__ / Case.__init__ (recorders/case.py) give the case tables. nodrop: every '
         'iteration of the inputs/outputs loops (and of nested fan-out loops) ends in model.set_val, a '
         'set_later deferral or issue_warning, no break/return leaves a loop, and the loops are reached '
         'whenever their table is non-empty. deferred: set_later is true only for names below the pathname '
         '(+".") of a system stored in system_overrides under its own pathname, and load_case(case) of every '
         'such system is called on every normal path. order: the outputs table is written after the inputs '
         'table (a stale recorded input must not overwrite its recorded source). taint: the value given to '
         'set_val is the table entry of the loop key (["val"] in dict mode only), optionally through '
         'scatter_dist_to_local with the sizes of the same variable and io kind, with no literal units=/'
         'indices=. keyspace: each kind of key that iteration of the table can yield for a variable that '
         'exists in the model (absolute / promoted input name; promoted output name / promoted input name '
         'of an auto_ivc output) is accepted by the is_abs/is_prom gate and reaches set_val. endpoint: the '
         'value is stored through an end point in the frame it was recorded in (an input value through the '
         'very input that indexes the table; an output value through an output, a source or the promoted key, '
         'never through inputs resolved by an unrestricted resolver.absnames). values: PromAbsDict.__init__ files '
         'each recorded value under the absolute name it was recorded under (key/value of the table loop never '
         'rebound, self._values[key] = val in the absolute-name branch, structured-array row untouched) and '
         '__getitem__(abs_name) answers from self._values first. Does not decide what set_val '
         'does, MPI scatter arithmetic, or the dict (list_inputs/list_outputs) form beyond value provenance.',
         ['the recorder stores inputs under absolute names and auto_ivc outputs under the promoted input name '
          '(record_util.deserialize resolves them that way)',
          'resolver.absnames(name) without iotype prefers the promoted output and falls back to promoted inputs '
          '(utils/name_maps.py:get_prom_iotype)',
          'model.set_val through a promoted top-level name or an output converts nothing; through an absolute '
          'input it interprets the value in that input\'s units and src_indices (core/conn_graph.py:set_val)'])


# =========================================================================== model of load_case
def _single_name_assigns(fn):
    """name -> [value exprs] for `name = value` statements of the function (not nested scopes)."""
    out = {}
    for st in astx.walk_stmts(fn.node.body):
        if isinstance(st, ast.Assign) and len(st.targets) == 1 and isinstance(st.targets[0], ast.Name):
            out.setdefault(st.targets[0].id, []).append(st.value)
    return out


class Loop:
    def __init__(self, stmt, hdr, kind, modes, view, var):
        self.stmt, self.hdr, self.kind, self.modes, self.view, self.var = stmt, hdr, kind, modes, view, var

    @property
    def io(self):
        return 'input' if self.kind == 'inputs' else 'output'


class LC:
    """Facts about Problem.load_case shared by the rules."""

    def __init__(self, repo):
        self.repo = repo
        self.fn = fn = repo.func(PRB, 'Problem.load_case')
        a = fn.node.args.args
        if len(a) != 2 or a[0].arg != 'self':
            raise AnalysisError(f'{fn.ident}: expected signature (self, case)')
        self.case = a[1].arg
        self.g = cfgm.build(fn)
        self.rd = cfgm.ReachingDefs(self.g)
        asg = _single_name_assigns(fn)
        self.models = {'self.model'}
        for nm, vals in asg.items():
            if len(vals) == 1 and astx.path(vals[0]) == 'self.model':
                self.models.add(nm)
        self.resolvers = {m + '._resolver' for m in self.models}
        for nm, vals in asg.items():
            if len(vals) == 1 and astx.path(vals[0]) in self.resolvers:
                self.resolvers.add(nm)
        self.dictflags = set()
        for nm, vals in asg.items():
            if len(vals) == 1 and self._is_dict_test(vals[0]):
                self.dictflags.add(nm)
        self.local_defs = {st.name: st for st in astx.walk_stmts(fn.node.body) if isinstance(st, ast.FunctionDef)}
        self._helpers = {}
        self.loops = self._table_loops()

    # ---------------------------------------------------------------- small recognisers
    def _is_dict_test(self, e):
        return isinstance(e, ast.Call) and astx.call_name(e) == 'isinstance' and len(e.args) == 2 and \
            astx.path(e.args[0]) == self.case and astx.path(e.args[1]) == 'dict'

    def dict_polarity(self, test):
        """True if `test` holds exactly in dict mode, False if exactly in Case mode, else None."""
        if isinstance(test, ast.UnaryOp) and isinstance(test.op, ast.Not):
            p = self.dict_polarity(test.operand)
            return None if p is None else not p
        if isinstance(test, ast.Name) and test.id in self.dictflags:
            return True
        if self._is_dict_test(test):
            return True
        return None

    def is_model(self, e):
        return astx.path(e) in self.models

    def is_resolver(self, e):
        return astx.path(e) in self.resolvers

    def table(self, e, at, depth=0):
        """Set of (kind, mode, view) the expression can denote; None = unknown.

        kind inputs/outputs, mode case/dict, view 'keys' (the table itself / .keys()) or
        'absolute_names' (PromAbsDict.absolute_names()).
        """
        if depth > 6:
            return None
        if isinstance(e, ast.Attribute) and isinstance(e.value, ast.Name) and e.value.id == self.case \
                and e.attr in ('inputs', 'outputs'):
            return {(e.attr, 'case', 'keys')}
        if isinstance(e, ast.IfExp):
            a, b = self.table(e.body, at, depth + 1), self.table(e.orelse, at, depth + 1)
            if a is None or b is None:
                return None
            p = self.dict_polarity(e.test)
            if p is not None:
                a = {t for t in a if (t[1] == 'dict') == p}
                b = {t for t in b if (t[1] == 'dict') != p}
            return a | b
        if isinstance(e, ast.Call) and not e.args and not e.keywords and \
                astx.callee_attr(e) in ('absolute_names', 'keys') and astx.receiver(e) is not None:
            r = self.table(astx.receiver(e), at, depth + 1)
            if not r or any(v != 'keys' for _, _, v in r):
                return None
            if astx.callee_attr(e) == 'keys':
                return r
            # absolute_names() exists on PromAbsDict only: this expression denotes Case-mode tables
            return {(k, m, 'absolute_names') for k, m, _ in r if m == 'case'} or None
        if isinstance(e, ast.Call) and astx.call_name(e) in ('list', 'tuple', 'sorted') and len(e.args) == 1 \
                and not e.keywords:
            return self.table(e.args[0], at, depth + 1)
        if isinstance(e, ast.Constant) and e.value is None:
            return set()
        if isinstance(e, ast.Subscript) and astx.path(e.value) == self.case and \
                astx.const_str(e.slice) in ('inputs', 'outputs'):
            return {(astx.const_str(e.slice), 'dict', 'keys')}
        if isinstance(e, ast.DictComp) and len(e.generators) == 1:
            it = e.generators[0].iter
            if isinstance(it, ast.Call) and astx.callee_attr(it) == 'values' and not it.args:
                r = astx.receiver(it)
                if isinstance(r, ast.Subscript) and astx.path(r.value) == self.case and \
                        astx.const_str(r.slice) in ('inputs', 'outputs'):
                    return {(astx.const_str(r.slice), 'dict', 'keys')}
            return None
        if isinstance(e, ast.Name):
            ds = self.rd.defs(at, e.id)
            if not ds:
                return None
            out = set()
            for d in ds:
                if d.kind == 'stmt' and isinstance(d.ast, ast.Assign) and \
                        all(isinstance(t, ast.Name) for t in d.ast.targets):
                    filled = self.filled_dict(e.id, d)
                    if filled is not None:
                        r = {(filled[0], 'dict', 'keys')}
                    else:
                        r = self.table(d.ast.value, d, depth + 1)
                    if r is None:
                        return None
                    m = self.mode_at(d)
                    if m is not None:      # definition only executed in dict (True) / Case (False) mode
                        r = {t for t in r if (t[1] == 'dict') == m}
                    out |= r
                else:
                    return None
            return out
        return None

    def filled_dict(self, name, d):
        """`name = {}` at node d, filled by `for m in case[K].values(): name[<key>] = m`: (K, key expr, loop)."""
        v = d.ast.value
        if not (isinstance(v, ast.Dict) and not v.keys):
            return None
        found = []
        for st in astx.walk_stmts(self.fn.node.body):
            if isinstance(st, ast.Assign) and len(st.targets) == 1 and isinstance(st.targets[0], ast.Subscript) \
                    and astx.path(st.targets[0].value) == name:
                found.append(st)
        if len(found) != 1:
            return None
        st = found[0]
        loop = astx.enclosing(st, (ast.For, ast.While))
        if not (isinstance(loop, ast.For) and st in loop.body and isinstance(loop.target, ast.Name) and
                isinstance(st.value, ast.Name) and st.value.id == loop.target.id and
                isinstance(loop.iter, ast.Call) and astx.callee_attr(loop.iter) == 'values' and not loop.iter.args):
            return None
        r = astx.receiver(loop.iter)
        if not (isinstance(r, ast.Subscript) and astx.path(r.value) == self.case and
                astx.const_str(r.slice) in ('inputs', 'outputs')):
            return None
        # the fill loop directly follows the empty definition (same block, nothing in between rebinding it)
        blk = getattr(d.ast, '_parent', None)
        body = None
        for fld in ('body', 'orelse', 'finalbody'):
            lst = getattr(blk, fld, None)
            if isinstance(lst, list) and d.ast in lst:
                body = lst
        if body is None or loop not in body or body.index(loop) < body.index(d.ast):
            return None
        return astx.const_str(r.slice), st.targets[0].slice, loop

    def dict_key_kinds(self, e, at, kind, depth=0):
        """Kinds of key a dict-form table expression is keyed by: {'abs'|'prom'[_out]} or None if unknown."""
        suf = '' if kind == 'inputs' else '_out'
        if depth > 6:
            return None
        if isinstance(e, ast.IfExp):
            p = self.dict_polarity(e.test)
            if p is True:
                return self.dict_key_kinds(e.body, at, kind, depth + 1)
            if p is False:
                return self.dict_key_kinds(e.orelse, at, kind, depth + 1)
            a, b = self.dict_key_kinds(e.body, at, kind, depth + 1), self.dict_key_kinds(e.orelse, at, kind, depth + 1)
            return None if a is None or b is None else a | b
        if isinstance(e, ast.Constant) and e.value is None:
            return set()
        if isinstance(e, ast.Attribute) and astx.path(e.value) == self.case:
            return set()        # Case-mode table
        if isinstance(e, ast.Call) and not e.args and astx.callee_attr(e) in ('keys', 'absolute_names'):
            return self.dict_key_kinds(astx.receiver(e), at, kind, depth + 1)
        if isinstance(e, ast.Call) and astx.call_name(e) in ('list', 'tuple', 'sorted') and len(e.args) == 1:
            return self.dict_key_kinds(e.args[0], at, kind, depth + 1)
        if isinstance(e, ast.Subscript) and astx.path(e.value) == self.case and astx.const_str(e.slice) == kind:
            return {'abs' + suf}            # list_inputs/list_outputs dictionaries are keyed by absolute name
        if isinstance(e, ast.DictComp):
            k = e.key
            if isinstance(k, ast.Subscript) and astx.const_str(k.slice) == 'prom_name':
                return {'prom' + suf}
            if isinstance(k, ast.Name) and isinstance(e.generators[0].target, ast.Tuple) and \
                    isinstance(e.generators[0].target.elts[0], ast.Name) and \
                    e.generators[0].target.elts[0].id == k.id:
                return {'abs' + suf}
            return None
        if isinstance(e, ast.Name):
            ds = self.rd.defs(at, e.id)
            out = set()
            for d in ds:
                if d.kind == 'stmt' and isinstance(d.ast, ast.Assign) and \
                        all(isinstance(t, ast.Name) for t in d.ast.targets):
                    if self.mode_at(d) is False:
                        continue
                    filled = self.filled_dict(e.id, d)
                    if filled is not None:
                        k = filled[1]
                        if isinstance(k, ast.Subscript) and astx.const_str(k.slice) == 'prom_name':
                            r = {'prom' + suf}
                        else:
                            r = None
                    else:
                        r = self.dict_key_kinds(d.ast.value, d, kind, depth + 1)
                    if r is None:
                        return None
                    out |= r
                else:
                    return None
            return out
        return None

    def mode_at(self, at):
        """True/False if CFG node `at` lies lexically under a test that fixes dict/Case mode, else None."""
        st = at.ast
        for a in astx.ancestors(st):
            if isinstance(a, (ast.If, ast.IfExp)):
                p = self.dict_polarity(a.test)
                if p is not None and isinstance(a, ast.If):
                    return p if astx.in_body(st, a, 'body') else (not p)
        return None

    def _table_loops(self):
        fn, g = self.fn, self.g
        found = []
        for st in astx.walk_stmts(fn.node.body):
            if not isinstance(st, ast.For):
                continue
            hs = g.nodes_of(st)
            if len(hs) != 1:
                continue
            tk = self.table(st.iter, hs[0])
            if not tk:
                continue
            kinds = {k for k, _, _ in tk}
            if len(kinds) != 1:
                raise AnalysisError(f'{fn.ident}: loop at line {st.lineno} iterates a mix of tables {sorted(tk)}')
            if any(isinstance(a, ast.For) and any(a is l.stmt for l in found) for a in astx.ancestors(st)):
                continue
            if not isinstance(st.target, ast.Name):
                raise AnalysisError(f'{fn.ident}: table loop at line {st.lineno} does not bind a single name')
            views = {v for _, m, v in tk if m == 'case'}
            if len(views) > 1:
                raise AnalysisError(f'{fn.ident}: loop at line {st.lineno} iterates the Case table in several views')
            found.append(Loop(st, hs[0], kinds.pop(), {m for _, m, _ in tk}, views.pop() if views else 'keys',
                              st.target.id))
        by = {}
        for l in found:
            by.setdefault(l.kind, []).append(l)
        for k in ('inputs', 'outputs'):
            if len(by.get(k, [])) != 1:
                raise AnalysisError(f'{fn.ident}: expected exactly one loop over the case {k}, found '
                                    f'{len(by.get(k, []))}')
        return [by['inputs'][0], by['outputs'][0]]

    def loop(self, kind):
        return [l for l in self.loops if l.kind == kind][0]

    # ---------------------------------------------------------------- sinks
    def set_val_calls(self, node):
        out = [c for c in node.calls() if astx.callee_attr(c) == 'set_val' and self.is_model(astx.receiver(c))]
        # calls of a local helper that stores its (name, value) arguments with model.set_val are stores too
        for c in node.calls():
            if isinstance(c.func, ast.Name) and self.store_helper(c.func.id) is not None and \
                    self.store_helper(c.func.id)['status'] != 'drops':
                out.append(c)
        return out

    def store_helper(self, name):
        """Summary of a local `def h(name, value)` whose body is `model.set_val(name, value | scatter(value))`
        on every path: dict(status 'ok'|'unsure', params, variants, scatter_io, scatter_col) or None."""
        if name in self._helpers:
            return self._helpers[name]
        d = self.local_defs.get(name)
        info = None
        if d is not None and any(astx.callee_attr(c) == 'set_val' and self.is_model(astx.receiver(c))
                                 for c in astx.calls(d)):
            a = d.args
            params = [x.arg for x in a.args]
            info = dict(status='unsure', params=params, variants=set(), scatter_io=None, scatter_col=None,
                        why='helper shape not recognised', node=d)
            if len(params) == 2 and not (a.vararg or a.kwarg or a.kwonlyargs or a.defaults):
                pn, pv = params
                g = cfgm.build(d)
                rd = cfgm.ReachingDefs(g)
                stores, okay = [], True
                for n in g.nodes:
                    if n.kind in ('entry', 'exit', 'raise', 'join'):
                        continue
                    for c in n.calls():
                        if not (astx.callee_attr(c) == 'set_val' and self.is_model(astx.receiver(c))):
                            continue
                        stores.append(n)
                        nm, v = astx.arg(c, 0, 'name'), astx.arg(c, 1, 'val')
                        if len(c.args) + len(c.keywords) != 2 or not (isinstance(nm, ast.Name) and nm.id == pn):
                            okay = False
                            continue
                        if isinstance(v, ast.Name) and v.id != pv:
                            v = rd.value(n, v.id) or v
                        if isinstance(v, ast.Name) and v.id == pv and rd.defs(n, pv) == {g.entry}:
                            info['variants'].add('plain')
                        elif isinstance(v, ast.Call) and astx.callee_attr(v) == 'scatter_dist_to_local' and \
                                len(v.args) == 3 and isinstance(v.args[0], ast.Name) and v.args[0].id == pv:
                            comm, sizes = v.args[1], v.args[2]
                            if isinstance(sizes, ast.Name):
                                sizes = rd.value(n, sizes.id)
                            shape = isinstance(sizes, ast.Subscript) and isinstance(sizes.value, ast.Subscript) and \
                                isinstance(sizes.value.value, ast.Attribute) and \
                                sizes.value.value.attr == '_var_sizes' and self.is_model(sizes.value.value.value) and \
                                isinstance(sizes.slice, ast.Tuple) and len(sizes.slice.elts) == 2 and \
                                isinstance(sizes.slice.elts[1], ast.Subscript) and \
                                isinstance(sizes.slice.elts[1].slice, ast.Name)
                            if shape and isinstance(comm, ast.Attribute) and comm.attr == 'comm' and \
                                    self.is_model(comm.value):
                                info['variants'].add('scatter')
                                info['scatter_io'] = astx.const_str(sizes.value.slice)
                                info['scatter_col'] = sizes.slice.elts[1].slice.id
                            else:
                                okay = False
                        else:
                            okay = False
                rebinds = [n for n in g.nodes if n.kind == 'stmt' and
                           any(astx.path(t) in (pn, pv) for t in astx.assigned_targets(n.ast))]
                if okay and stores and not rebinds:
                    w = g.path([g.entry], [g.exit], avoid=stores, labels=cfgm.noexc)
                    if w is None:
                        info['status'] = 'ok'
                    else:
                        info['status'] = 'drops'
                        info['why'] = f'helper {name} can return without set_val: {g.fmt_path(w)}'
        self._helpers[name] = info
        return info

    def set_val_nodes(self, loop):
        body = set(self.g.body_nodes(loop.stmt))
        return [n for n in self.g.nodes if n in body and self.set_val_calls(n)]

    def warn_nodes(self, loop):
        body = set(self.g.body_nodes(loop.stmt))
        return [n for n in self.g.calling('issue_warning') if n in body]

    def loop_vars(self, loop, upto=None):
        """Names bound by the table loop and by For loops nested in it (lexically enclosing `upto`)."""
        out = {loop.var}
        for st in astx.walk_stmts(loop.stmt.body):
            if isinstance(st, ast.For) and isinstance(st.target, ast.Name):
                if upto is None or astx.in_body(upto, st, 'body'):
                    out.add(st.target.id)
        return out

    def set_later_name(self):
        names = [n for n, d in self.local_defs.items() if n == 'set_later' or
                 any(isinstance(s, ast.Return) for s in astx.walk_stmts(d.body))]
        return names

    def deferral_polarity(self, t, loop, at_stmt=None):
        """True/False: the edge label of test t on which set_later(<loop var>) holds; None if t is no such test."""
        if isinstance(t, ast.UnaryOp) and isinstance(t.op, ast.Not):
            p = self.deferral_polarity(t.operand, loop, at_stmt)
            return None if p is None else not p
        return True if self.is_set_later_test(t, loop, at_stmt) else None

    def deferral_tests(self, loop):
        """[(test node, label on which the name is deferred, predicate name)] inside the loop."""
        out = []
        for n in self.g.body_nodes(loop.stmt):
            if n.kind == 'test' and isinstance(n.ast, ast.If):
                p = self.deferral_polarity(n.ast.test, loop, n.ast)
                if p is not None:
                    t = n.ast.test
                    while isinstance(t, ast.UnaryOp):
                        t = t.operand
                    out.append((n, 'true' if p else 'false', t.func.id))
        return out

    def deferral_edge_ok(self, loop):
        """edge_ok filter that cuts the edges on which a name is deferred (they are accepted ends)."""
        cut = {(n, lab) for n, lab, _ in self.deferral_tests(loop)}

        def ok(n, m, lab):
            return (n, lab) not in cut
        return ok

    def is_set_later_test(self, t, loop, at_stmt=None):
        return isinstance(t, ast.Call) and isinstance(t.func, ast.Name) and t.func.id in self.local_defs \
            and len(t.args) == 1 and not t.keywords and isinstance(t.args[0], ast.Name) \
            and t.args[0].id in self.loop_vars(loop, at_stmt)

    def inner_loops(self, owner_stmt):
        """For statements directly nested (not through another For) in the body of owner_stmt."""
        out = []
        for st in astx.walk_stmts(owner_stmt.body):
            if isinstance(st, ast.For):
                anc = astx.enclosing(st, (ast.For, ast.While))
                if anc is owner_stmt:
                    out.append(st)
        return out


# =========================================================================== C19.nodrop
def _table_truth(lc, test, kind, at):
    """Polarity of a test that is the truthiness of a table of `kind`: True (table non-empty), False
    (table empty), 'other' (mentions the table in an unrecognised way), None (unrelated)."""
    t = test
    if isinstance(t, ast.UnaryOp) and isinstance(t.op, ast.Not):
        p = _table_truth(lc, t.operand, kind, at)
        return (not p) if isinstance(p, bool) else p

    def is_tab(e):
        tk = lc.table(e, at) if isinstance(e, (ast.Name, ast.Attribute)) else None
        return bool(tk) and {k for k, _, _ in tk} == {kind}
    if is_tab(t):
        return True
    if isinstance(t, ast.Compare) and len(t.ops) == 1 and is_tab(t.left) and \
            isinstance(t.comparators[0], ast.Constant) and t.comparators[0].value is None:
        if isinstance(t.ops[0], ast.IsNot):
            return True
        if isinstance(t.ops[0], ast.Is):
            return False
    for e in astx.walk(t):
        if isinstance(e, (ast.Name, ast.Attribute)) and is_tab(e):
            return 'other'
    return None


def _model_override_test(lc, n):
    """Test node `if overrides_method('load_case', model, System)`."""
    if n.kind != 'test' or not isinstance(n.ast, ast.If):
        return False
    t = n.ast.test
    return isinstance(t, ast.Call) and astx.callee_attr(t) == 'overrides_method' and len(t.args) >= 2 and \
        astx.const_str(t.args[0]) == 'load_case' and lc.is_model(t.args[1])


def _check_loop_nodrop(lc, out, loop, stmt, label):
    """Every normal path around `stmt` (a For inside the table loop) ends in a sink."""
    g, fn = lc.g, lc.fn
    hdr = g.nodes_of(stmt)[0]
    body = set(g.body_nodes(stmt))
    sinks = set()
    for n in body:
        if lc.set_val_calls(n):
            sinks.add(n)
    sinks |= {n for n in g.calling('issue_warning') if n in body}
    defer_ok = lc.deferral_edge_ok(loop)
    delegated = []
    for inner in lc.inner_loops(stmt):
        ih = g.nodes_of(inner)[0]
        if not any(lc.set_val_calls(n) for n in g.body_nodes(inner)):
            continue
        items = _iter_exprs(lc, inner.iter, ih)
        keyvars = lc.loop_vars(loop, inner)
        if items and all(astx.names(e) & keyvars for _, e, _ in items):
            sinks.add(ih)
            delegated.append(inner)
        else:
            out.unsure(fn, inner, f'nested loop stores values but its iterable {astx.src(inner.iter)} is not '
                       'derived from the loop key')
            sinks.add(ih)
    entry = [m for m, lab in g.succ[hdr] if lab == 'true']
    w = g.path(entry, [hdr], avoid=sinks, labels=cfgm.noexc, edge_ok=defer_ok)
    if w is not None:
        out.bad(fn, stmt, f'an entry of the case {loop.kind} can pass the {label} loop without set_val, '
                f'set_later deferral or warning (silently not restored): {g.fmt_path(w)}',
                key=f'drop-{loop.kind}-{label}')
        return delegated
    outside = [n for n in g.nodes if n not in body and n is not hdr and n.kind not in ('raise',)]
    w = g.path(entry, outside, avoid=[hdr], labels=cfgm.noexc)
    if w is not None:
        out.bad(fn, w[-2].ast if len(w) > 1 else stmt,
                f'the {label} loop over the case {loop.kind} can be left before all entries are handled: '
                f'{g.fmt_path(w)}', key=f'early-exit-{loop.kind}-{label}')
        return delegated
    out.ok(fn, stmt, f'every iteration ends in set_val ({len([s for s in sinks if lc.set_val_calls(s)])} site(s)), '
           'a set_later deferral, a delegated fan-out loop or issue_warning')
    return delegated


def _check_dict_entry(lc, out, loop):
    """Dict form: whenever case[<kind>] is present, the table of that kind is built from it."""
    g, fn = lc.g, lc.fn
    if 'dict' not in loop.modes:
        return
    builds, odd, wrong = [], [], []

    def has_entry(t):
        """polarity of `'<kind>' in case` / `'<kind>' not in case`"""
        if isinstance(t, ast.UnaryOp) and isinstance(t.op, ast.Not):
            p = has_entry(t.operand)
            return None if p is None else not p
        if isinstance(t, ast.Compare) and len(t.ops) == 1 and isinstance(t.ops[0], (ast.In, ast.NotIn)) and \
                astx.const_str(t.left) == loop.kind and astx.path(t.comparators[0]) == lc.case:
            return isinstance(t.ops[0], ast.In)
        return None
    for n in g.nodes:
        if not (n.kind == 'stmt' and isinstance(n.ast, ast.Assign)):
            continue
        v = n.ast.value
        if isinstance(v, ast.IfExp):
            # `<table> if '<kind>' in case else None` (or the inverse)
            for tab, other, want in ((v.body, v.orelse, True), (v.orelse, v.body, False)):
                tk = lc.table(tab, n) if isinstance(tab, (ast.DictComp, ast.Subscript)) else None
                if tk and {(k, m) for k, m, _ in tk} == {(loop.kind, 'dict')}:
                    if has_entry(v.test) is want:
                        builds.append(n)
                    elif has_entry(v.test) is not None:
                        wrong.append(n)      # table chosen exactly when its entry is absent
                    elif isinstance(v.test, ast.Compare) and len(v.test.ops) == 1 and \
                            isinstance(v.test.ops[0], (ast.In, ast.NotIn)) and \
                            astx.const_str(v.test.left) not in (None, loop.kind) and \
                            astx.path(v.test.comparators[0]) == lc.case:
                        wrong.append(n)
                    else:
                        odd.append(n)
        elif isinstance(v, (ast.DictComp, ast.Subscript)):
            tk = lc.table(v, n)
            if tk and {(k, m) for k, m, _ in tk} == {(loop.kind, 'dict')}:
                builds.append(n)
        elif isinstance(v, ast.Dict) and len(n.ast.targets) == 1 and isinstance(n.ast.targets[0], ast.Name):
            f = lc.filled_dict(n.ast.targets[0].id, n)
            if f is not None and f[0] == loop.kind:
                builds.append(n)
    if wrong:
        out.bad(fn, wrong[0].ast, f"dict form: the {loop.kind} table is not taken from case['{loop.kind}'] exactly when that "
                f"entry is present (selected by `{astx.src(wrong[0].ast.value.test)}`): the entry is ignored or "
                f"raises KeyError", key=f'dict-{loop.kind}-not-built')
        return
    if odd:
        out.unsure(fn, odd[0].ast, f"dict form: the {loop.kind} table is selected by a test other than "
                   f"'{loop.kind}' in case")
        return
    if not builds:
        return

    def edge_ok(n, m, lab):
        if n.kind == 'test' and lab in ('true', 'false') and isinstance(n.ast, ast.If):
            if _model_override_test(lc, n):
                return lab == 'false'
            p = lc.dict_polarity(n.ast.test)
            if p is None:
                p = has_entry(n.ast.test)
            if p is not None:
                return (lab == 'true') == p
        return True
    w = g.path([g.entry], [g.exit, loop.hdr], avoid=builds, labels=cfgm.noexc, edge_ok=edge_ok)
    if w is None:
        out.ok(fn, builds[0].ast, f"dict form: the {loop.kind} table is built on every path on which "
               f"'{loop.kind}' is in the case")
    else:
        out.bad(fn, builds[0].ast, f"dict form: the case has an '{loop.kind}' entry but the table is not built "
                f'from it on the path {g.fmt_path(w)}: every recorded {loop.io} is silently ignored',
                key=f'dict-{loop.kind}-not-built')


@rule('C19.nodrop', floor=3)
def nodrop(repo, out):
    """No entry of case.inputs/case.outputs is silently skipped; loops run whenever their table is non-empty."""
    lc = LC(repo)
    g, fn = lc.g, lc.fn
    for loop in lc.loops:
        todo = [(loop.stmt, 'table')]
        while todo:
            st, label = todo.pop()
            for inner in _check_loop_nodrop(lc, out, loop, st, label):
                todo.append((inner, 'fan-out'))
        # reached whenever the table is non-empty (and the model does not override load_case)
        unknown = []

        def edge_ok(n, m, lab, loop=loop, unknown=unknown):
            if n.kind == 'test' and lab in ('true', 'false') and isinstance(n.ast, ast.If):
                if _model_override_test(lc, n):
                    return lab == 'false'
                p = _table_truth(lc, n.ast.test, loop.kind, n)
                if isinstance(p, bool):
                    return (lab == 'true') == p
                if p == 'other':
                    unknown.append(n)
            return True
        _check_dict_entry(lc, out, loop)
        w = g.path([g.entry], [g.exit], avoid=[loop.hdr], labels=cfgm.noexc, edge_ok=edge_ok)
        if w is None:
            out.ok(fn, loop.stmt, f'the {loop.kind} loop is on every normal path on which the table is non-empty')
        elif any(n in unknown for n in w):
            out.unsure(fn, loop.stmt, f'unrecognised test on the case {loop.kind} guards the loop: {g.fmt_path(w)}')
        else:
            out.bad(fn, loop.stmt, f'load_case can return without iterating a non-empty case {loop.kind} table: '
                    f'{g.fmt_path(w)}', key=f'skipped-{loop.kind}')


# =========================================================================== C19.deferred
def _is_override_test(t):
    return isinstance(t, ast.Call) and astx.callee_attr(t) == 'overrides_method' and \
        astx.const_str(astx.arg(t, 0, 'method_name')) == 'load_case'


def _overrides_dict(lc):
    """(dict name, node to report at, key expr, value expr, system tested by overrides_method) in load_case.

    Accepts the store loop `if overrides_method('load_case', s, System): d[s.pathname] = s` and the dict
    comprehension `d = {s.pathname: s for s in ... if overrides_method('load_case', s, System)}`.
    """
    fn = lc.fn
    found = []
    for st in astx.walk_stmts(fn.node.body):
        if not (isinstance(st, ast.Assign) and len(st.targets) == 1):
            continue
        t = st.targets[0]
        if isinstance(t, ast.Subscript) and isinstance(t.value, ast.Name):
            tests = [a for a in astx.ancestors(st) if isinstance(a, ast.If) and astx.in_body(st, a, 'body')
                     and _is_override_test(a.test)]
            if tests:
                found.append((t.value.id, st, t.slice, st.value, astx.arg(tests[0].test, 1, 'obj')))
        elif isinstance(t, ast.Name) and isinstance(st.value, ast.DictComp) and len(st.value.generators) == 1:
            gen = st.value.generators[0]
            tests = [c for c in gen.ifs if _is_override_test(c)]
            if tests and len(gen.ifs) == 1:
                found.append((t.id, st, st.value.key, st.value.value, astx.arg(tests[0], 1, 'obj')))
    if len(found) != 1:
        raise AnalysisError(f'{fn.ident}: expected one store of overriding subsystems, found {len(found)}')
    return found[0]


def _prefix_verdict(p, t, var, k, where):
    """Decide the test `t` of predicate p: is it `var.startswith(k + '.')`?  None = ok, else verdict tuple."""
    if isinstance(t, ast.Call) and astx.callee_attr(t) == 'startswith' and len(t.args) == 1:
        recv, a0 = astx.receiver(t), t.args[0]
        if isinstance(recv, ast.Name) and recv.id == var and _is_prefix_of(a0, k):
            return None
        if isinstance(recv, ast.Name) and recv.id == var and isinstance(a0, ast.Name) and a0.id == k:
            return ('bad', where, f"{p} tests startswith({k}) without the '.' separator: variables of "
                    f"a sibling system whose name merely starts with an overriding system's name "
                    f"(e.g. 'sub2.x' for override 'sub') are deferred and never restored", 'set-later-prefix')
        if isinstance(recv, ast.Name) and recv.id == k and astx.names(a0) & {var}:
            return ('bad', where, f'{p} tests whether the system path starts with the variable name '
                    '(operands swapped): nothing below an overriding system is deferred correctly',
                    'set-later-prefix')
    return ('unsure', where, f'{p}: prefix test not recognised')


def _keys_of(it, dname):
    """Is `it` an iteration over the keys of dict `dname` (d, d.keys(), sorted(...), list(...))?"""
    if isinstance(it, ast.Call) and astx.call_name(it) in ('sorted', 'list', 'tuple') and len(it.args) == 1 \
            and not it.keywords:
        it = it.args[0]
    if isinstance(it, ast.Call) and astx.callee_attr(it) == 'keys' and not it.args:
        it = astx.receiver(it)
    return isinstance(it, ast.Name) and it.id == dname


def _is_prefix_of(e, key):
    """`key + '.'` or f'{key}.'"""
    if isinstance(e, ast.BinOp) and isinstance(e.op, ast.Add) and isinstance(e.left, ast.Name) and \
            e.left.id == key and astx.const_str(e.right) == '.':
        return True
    if isinstance(e, ast.JoinedStr) and len(e.values) == 2 and isinstance(e.values[0], ast.FormattedValue) \
            and isinstance(e.values[0].value, ast.Name) and e.values[0].value.id == key and \
            astx.const_str(e.values[1]) == '.':
        return True
    return False


@rule('C19.deferred', floor=3)
def deferred(repo, out):
    """Deferred names are exactly those below a system whose overriding load_case(case) is then called."""
    lc = LC(repo)
    g, fn = lc.g, lc.fn
    dname, store, key, val, tested = _overrides_dict(lc)
    # (a) the store: overrides[<s>.pathname] = <s>, <s> being the system tested by overrides_method
    if isinstance(key, ast.Attribute) and key.attr == 'pathname' and astx.same(key.value, val) and \
            tested is not None and astx.same(tested, val):
        out.ok(fn, store, 'overriding systems are stored under their own pathname')
    elif isinstance(key, ast.Attribute) and astx.same(key.value, val) and key.attr != 'pathname':
        out.bad(fn, store, f'overriding system stored under .{key.attr}, not .pathname: set_later() then defers '
                'names below a different prefix than the system whose load_case is called (names of an '
                'unrelated system are dropped)', key='overrides-key')
    elif tested is not None and not astx.same(tested, val) and isinstance(val, ast.Name):
        out.bad(fn, store, f'stores {astx.src(val)} but overrides_method tested {astx.src(tested)}',
                key='overrides-key')
    else:
        out.unsure(fn, store, 'store of overriding subsystem not recognised')
    # (b) every deferral test calls a local predicate that is true only below an overriding system
    preds = set()
    for loop in lc.loops:
        for _, _, pname in lc.deferral_tests(loop):
            preds.add(pname)
    if not preds:
        out.ok(fn, fn.node, 'no deferral in the table loops')
    for p in sorted(preds):
        d = lc.local_defs[p]
        if len(d.args.args) != 1:
            out.unsure(fn, d, f'{p} does not take exactly one name')
            continue
        var = d.args.args[0].arg
        rets = [s for s in astx.walk_stmts(d.body) if isinstance(s, ast.Return)]
        verdict = 'ok'
        defers = False
        for r in rets:
            v = r.value
            if isinstance(v, ast.Constant) and v.value in (False, None):
                continue
            if v is None:
                continue
            if isinstance(v, ast.Call) and astx.call_name(v) == 'any' and len(v.args) == 1 and not v.keywords \
                    and isinstance(v.args[0], (ast.GeneratorExp, ast.ListComp)) and len(v.args[0].generators) == 1:
                gen = v.args[0].generators[0]
                if gen.ifs or not isinstance(gen.target, ast.Name) or not _keys_of(gen.iter, dname):
                    verdict = ('unsure', r, f'{p}: any() does not range over the keys of {dname}')
                    break
                pv = _prefix_verdict(p, v.args[0].elt, var, gen.target.id, r)
                if pv is not None:
                    verdict = pv
                    break
                defers = True
                continue
            if not (isinstance(v, ast.Constant) and v.value is True):
                verdict = ('unsure', r, f'{p} returns a computed value')
                break
            loopst = astx.enclosing(r, (ast.For,))
            test = getattr(r, '_parent', None)
            if not (isinstance(test, ast.If) and r in test.body and loopst is not None and
                    astx.in_body(test, loopst, 'body')):
                verdict = ('bad', r, f'{p} returns True outside a prefix test against the overriding systems: '
                           'names are deferred that no overriding load_case will restore', 'set-later-true')
                break
            if not (_keys_of(loopst.iter, dname) and isinstance(loopst.target, ast.Name)):
                verdict = ('unsure', loopst, f'{p} does not iterate the keys of {dname}')
                break
            pv = _prefix_verdict(p, test.test, var, loopst.target.id, test)
            if pv is not None:
                verdict = pv
                break
            defers = True
            continue
        if verdict == 'ok':
            if defers:
                out.ok(fn, d, f"{p}(name) is True only when name starts with <pathname of an overriding system> + '.'")
            else:
                out.ok(fn, d, f'{p}(name) never defers')
        elif verdict[0] == 'bad':
            out.bad(fn, verdict[1], verdict[2], key=verdict[3])
        else:
            out.unsure(fn, verdict[1], verdict[2])
    # (c) load_case(case) of every stored system on every normal path after the model-override test
    calls = []
    for st in astx.walk_stmts(fn.node.body):
        if not isinstance(st, ast.For) or any(st is l.stmt for l in lc.loops):
            continue
        for c in astx.calls(st):
            if astx.callee_attr(c) == 'load_case' and st.body and astx.in_body(c, st, 'body'):
                calls.append((st, c))
    calls = [(st, c) for st, c in calls if astx.mentions(st.iter, dname)]
    if not calls:
        out.bad(fn, fn.node, f'load_case of the systems in {dname} is never called although their variables '
                'are deferred', key='overrides-not-called')
        return
    if len(calls) > 1:
        out.unsure(fn, calls[1][0], 'several loops call load_case of overriding systems')
        return
    st, c = calls[0]
    hdr = g.nodes_of(st)[0]
    it = st.iter
    if isinstance(it, ast.Call) and astx.call_name(it) == 'sorted' and len(it.args) == 1 and not it.keywords:
        it = it.args[0]
    view = 'keys'
    if isinstance(it, ast.Call) and not it.args and astx.callee_attr(it) in ('keys', 'values', 'items'):
        view = astx.callee_attr(it)
        it = astx.receiver(it)
    recv = astx.receiver(c)
    if isinstance(recv, ast.Name):
        tmp = [x.value for x in astx.walk_stmts(st.body) if isinstance(x, ast.Assign) and len(x.targets) == 1
               and astx.path(x.targets[0]) == recv.id]
        if len(tmp) == 1 and isinstance(tmp[0], ast.Subscript):
            recv = tmp[0]
    tgt = st.target
    full = isinstance(it, ast.Name) and it.id == dname
    if view == 'keys':
        recv_ok = isinstance(tgt, ast.Name) and isinstance(recv, ast.Subscript) and \
            astx.path(recv.value) == dname and isinstance(recv.slice, ast.Name) and recv.slice.id == tgt.id
    elif view == 'values':
        recv_ok = isinstance(tgt, ast.Name) and isinstance(recv, ast.Name) and recv.id == tgt.id
    else:
        recv_ok = isinstance(tgt, ast.Tuple) and len(tgt.elts) == 2 and isinstance(recv, ast.Name) and \
            isinstance(tgt.elts[1], ast.Name) and recv.id == tgt.elts[1].id
    if not full or not recv_ok:
        out.unsure(fn, st, f'loop over {dname} / receiver of load_case not recognised')
        return
    a0 = astx.arg(c, 0, 'case')
    case_defs = lc.rd.defs(g.nodes_of(astx.stmt_of(c))[0], lc.case)
    if not (isinstance(a0, ast.Name) and a0.id == lc.case and case_defs == {g.entry}) or len(c.args) + len(c.keywords) != 1:
        out.bad(fn, astx.stmt_of(c), f'overriding load_case is not given the case that was passed in '
                f'({astx.src(c)})', key='overrides-arg')
        return
    entry = [m for m, lab in g.succ[hdr] if lab == 'true']
    cn = g.nodes_of(astx.stmt_of(c))
    w = g.path(entry, [hdr], avoid=cn, labels=cfgm.noexc)
    if w is not None:
        out.bad(fn, st, 'an overriding system can be passed over without calling its load_case: ' + g.fmt_path(w),
                key='overrides-not-called')
        return
    starts = [g.entry]

    def edge_ok(n, m, lab):
        if _model_override_test(lc, n):
            return lab == 'false'
        return True
    w = g.path(starts, [g.exit], avoid=[hdr], labels=cfgm.noexc, edge_ok=edge_ok)
    if w is not None:
        out.bad(fn, st, 'load_case can return without calling load_case of the overriding systems whose '
                'variables were deferred: ' + g.fmt_path(w), key='overrides-not-called')
        return
    out.ok(fn, st, f'load_case({lc.case}) of every system in {dname} is called on every normal path')


# =========================================================================== C19.order
@rule('C19.order', floor=1)
def order(repo, out):
    """The outputs table is written after the inputs table (recorded outputs win over stale inputs)."""
    lc = LC(repo)
    g, fn = lc.g, lc.fn
    li, lo = lc.loop('inputs'), lc.loop('outputs')
    fwd = g.path([li.hdr], [lo.hdr], labels=cfgm.noexc)
    back = g.path([lo.hdr], [li.hdr], labels=cfgm.noexc)
    if back is not None:
        out.bad(fn, lo.stmt, 'the case inputs are written after the case outputs: set_val on an input also '
                'writes its source output, so a recorded input that lags its source (solver/system cases taken '
                'mid-iteration) overwrites the recorded output value: ' + g.fmt_path(back),
                key='outputs-before-inputs')
    elif fwd is None:
        out.unsure(fn, lo.stmt, 'inputs loop and outputs loop are on disjoint paths')
    else:
        out.ok(fn, lo.stmt, 'inputs loop precedes outputs loop on every path; no path leads back')


# =========================================================================== set_val sites
class Fetch:
    """One way the value stored at a set_val site is obtained from a table: T[idx] or T[idx]['val']."""

    def __init__(self, kinds, idx, form, stmt, guard):
        self.kinds, self.idx, self.form, self.stmt, self.guard = kinds, idx, form, stmt, guard


class Site:
    def __init__(self, lc, loop, node, call):
        self.lc, self.loop, self.node, self.call = lc, loop, node, call
        self.helper = lc.store_helper(call.func.id) if isinstance(call.func, ast.Name) else None
        if self.helper is not None:
            pn, pv = (self.helper['params'] + [None, None])[:2]
            self.name, self.val = astx.arg(call, 0, pn), astx.arg(call, 1, pv)
        else:
            self.name = astx.arg(call, 0, 'name')
            self.val = astx.arg(call, 1, 'val')
        self.scatter = None
        self.variants = set()    # 'plain' / 'scatter': ways the stored value reaches this call
        self.problem = None      # (status, why, key)
        self.fetches = []
        self._analyse()

    def _resolve_temp(self, e, at, depth=0):
        """Follow a local temporary `t = <expr>` (single reaching definition) that is not a table fetch."""
        if isinstance(e, ast.Name) and depth < 3:
            v = self.lc.rd.value(at, e.id)
            if isinstance(v, ast.Call) and astx.callee_attr(v) == 'scatter_dist_to_local':
                d = next(iter(self.lc.rd.defs(at, e.id)))
                return v, d
        return e, at

    def _lexical_guard(self, stmt):
        for a in astx.ancestors(stmt):
            if a is self.loop.stmt:
                break
            if isinstance(a, ast.If):
                p = self.lc.dict_polarity(a.test)
                if p is not None:
                    return p if astx.in_body(stmt, a, 'body') else (not p)
        return None

    def _path_guard(self, dnode, var, target):
        """Mode in which definition `dnode` of `var` can still be live at `target`: True = dict mode only,
        False = Case mode only, None = both (tests on the dict/Case flag are followed path-sensitively)."""
        lc, g = self.lc, self.lc.g
        others = {d for d in g.nodes if d is not dnode and d is not target and var in lc.rd.gen.get(d, {})}

        def live(assume):
            def ok(n, m, lab):
                if n.kind == 'test' and isinstance(n.ast, ast.If) and lab in ('true', 'false'):
                    p = lc.dict_polarity(n.ast.test)
                    if p is not None:
                        return (lab == 'true') == (p == assume)
                return True
            starts = [m for m, lab in g.succ[dnode] if lab != 'exc' and ok(dnode, m, lab) and m not in others]
            return g.path(starts, [target], avoid=others, labels=cfgm.noexc, edge_ok=ok) is not None
        in_dict, in_case = live(True), live(False)
        if in_dict and not in_case:
            return True
        if in_case and not in_dict:
            return False
        return None

    def _fetches(self, e, stmt, at, guard, depth=0):
        """List of Fetch for a value expression (None if it is not made of plain table entries)."""
        lc = self.lc
        if depth > 4:
            return None
        if isinstance(e, ast.IfExp):
            p = lc.dict_polarity(e.test)
            if p is None or guard is not None:
                return None
            a = self._fetches(e.body, stmt, at, p, depth + 1)
            b = self._fetches(e.orelse, stmt, at, not p, depth + 1)
            return None if a is None or b is None else a + b
        if isinstance(e, ast.Name):
            return self._name_fetches(e, at, guard, depth + 1)
        form = 'plain'
        if isinstance(e, ast.Subscript) and astx.const_str(e.slice) == 'val':
            form, e = 'val', e.value
            if isinstance(e, ast.Name):
                # index-then-unwrap: v = T[k] ... v = v['val']
                inner = self._name_fetches(e, at, guard, depth + 1)
                if inner is None or any(f.form != 'plain' for f in inner):
                    return None
                return [Fetch(f.kinds, f.idx, 'val', stmt, guard if guard is not None else f.guard) for f in inner]
        if isinstance(e, ast.Subscript) and isinstance(e.slice, ast.Name):
            tk = lc.table(e.value, at)
            if tk and all(v == 'keys' for _, _, v in tk):
                return [Fetch({(k, m) for k, m, _ in tk}, e.slice.id, form, stmt, guard)]
        return None

    def _name_fetches(self, name, at, guard, depth=0, top=False):
        """Fetches of every definition of local `name` reaching `at`; sets self.problem and returns None on failure."""
        lc = self.lc
        ds = lc.rd.defs(at, name.id)
        if not ds:
            return None
        out = []
        for d in ds:
            fs = None
            if d.kind == 'stmt' and isinstance(d.ast, ast.Assign) and len(d.ast.targets) == 1 and \
                    astx.path(d.ast.targets[0]) == name.id:
                gd = guard
                if gd is None:
                    gd = self._lexical_guard(d.ast)
                if gd is None:
                    gd = self._path_guard(d, name.id, at)
                v = d.ast.value
                if top:
                    self.variants.add('scatter' if isinstance(v, ast.Call) and
                                      astx.callee_attr(v) == 'scatter_dist_to_local' else 'plain')
                if isinstance(v, ast.Call) and astx.callee_attr(v) == 'scatter_dist_to_local' and v.args \
                        and depth < 4:
                    # v = scatter_dist_to_local(v, comm, sizes): the scattered copy of the same entry
                    if self.scatter is None:
                        self.scatter = (v, d)
                    elif self.scatter[0] is not v:
                        self._bad_def = d
                        return None
                    v = v.args[0]
                fs = self._fetches(v, d.ast, d, gd, depth + 1)
            if fs is None:
                self._bad_def = d
                return None
            out += fs
        return out

    def _analyse(self):
        lc, call = self.lc, self.call
        if self.name is None or self.val is None:
            self.problem = ('unsure', 'set_val arguments not recognised', None)
            return
        v, at = self._resolve_temp(self.val, self.node)
        if isinstance(v, ast.Call) and astx.callee_attr(v) == 'scatter_dist_to_local':
            self.scatter = (v, at)
            self.variants.add('scatter')
            if not v.args:
                self.problem = ('unsure', 'scatter_dist_to_local arguments not recognised', None)
                return
            v = v.args[0]
        self._bad_def = None
        if isinstance(v, ast.Name):
            fs = self._name_fetches(v, at, None, top=not self.variants)
            if fs is None:
                d = self._bad_def
                if d is not None and d.kind == 'iter' and v.id in lc.loop_vars(self.loop):
                    self.problem = ('bad', f'the loop name {v.id} is passed as the value of set_val '
                                    '(arguments swapped)', 'set-val-args')
                elif d is not None:
                    self.problem = ('unsure', f'value {v.id} is not a plain table entry at '
                                    f'line {d.lineno}: {d.text()[:60]}', None)
                else:
                    self.problem = ('unsure', f'no definition of {v.id} reaches set_val', None)
                return
            self.fetches = fs
        else:
            st = astx.stmt_of(call)
            fs = self._fetches(v, st, at, self._lexical_guard(st))
            if fs is None:
                self.problem = ('unsure', f'value {astx.src(v)} is not a plain table entry', None)
                return
            self.fetches = fs

    def name_var(self):
        return self.name.id if isinstance(self.name, ast.Name) else None


def sites_of(lc, loop):
    out = []
    for n in lc.set_val_nodes(loop):
        for c in lc.set_val_calls(n):
            out.append(Site(lc, loop, n, c))
    return out


# =========================================================================== C19.taint
@rule('C19.taint', floor=4)
def taint(repo, out):
    """set_val receives the table entry of the loop key unchanged: right table, right form, no units=/indices=."""
    lc = LC(repo)
    fn = lc.fn
    for loop in lc.loops:
        for s in sites_of(lc, loop):
            st = astx.stmt_of(s.call)
            tag = f'{loop.kind}'
            if s.problem:
                kind, why, key = s.problem
                if kind == 'bad':
                    out.bad(fn, st, why, key=f'{key}-{tag}')
                else:
                    out.unsure(fn, st, why)
                continue
            c = s.call
            extra = [k for k in c.keywords if k.arg not in (tuple(s.helper['params']) if s.helper else ('name', 'val'))]
            verdict = None
            if s.helper is not None:
                h = s.helper
                if h['status'] != 'ok':
                    out.unsure(fn, st, f"local helper {c.func.id}: {h['why']}")
                    continue
                s.variants = set(h['variants'])
                if 'scatter' in h['variants']:
                    if h['scatter_io'] != loop.io:
                        verdict = ('bad', f"helper {c.func.id} scatters a distributed {loop.io} value with the sizes of "
                                   f"_var_sizes[{h['scatter_io']!r}]", 'scatter-sizes')
                    elif h['scatter_col'] != h['params'][0]:
                        verdict = ('bad', f"helper {c.func.id} scatters with the sizes of variable {h['scatter_col']}, "
                                   f"not of the name it stores ({h['params'][0]})", 'scatter-sizes')
            if len(c.args) > 2:
                extra = extra + [None]
            for k in extra:
                if k is None or k.arg is None:
                    verdict = ('unsure', 'extra positional/starred arguments to set_val', None)
                elif k.arg in ('units', 'indices') and isinstance(k.value, ast.Constant) and k.value.value is None:
                    continue
                elif k.arg in ('units', 'indices') and isinstance(k.value, ast.Constant):
                    verdict = ('bad', f'set_val is given the literal {k.arg}={astx.src(k.value)}: the recorded value '
                               f'is already in model units / full shape, so it is {"converted" if k.arg == "units" else "stored into a slice"} '
                               'for every variable alike', f'set-val-{k.arg}')
                else:
                    verdict = ('unsure', f'set_val is given {k.arg}=', None)
                break
            nv = s.name_var()
            if verdict is None and (nv is None or nv not in lc.loop_vars(loop, st)):
                verdict = ('unsure', f'name argument {astx.src(s.name)} is not a loop variable', None)
            if verdict is None:
                for f in s.fetches:
                    kinds = {k for k, _ in f.kinds}
                    modes = {m for _, m in f.kinds}
                    if kinds != {loop.kind}:
                        verdict = ('bad', f'value stored in the {loop.kind} loop is read from the case '
                                   f'{"/".join(sorted(kinds))} table ({astx.src(f.stmt)})', 'value-wrong-table')
                        break
                    if f.idx != loop.var and f.idx != nv:
                        verdict = ('unsure', f'table indexed by {f.idx}, which is neither the loop key nor the stored name',
                                   None)
                        break
                    # form vs mode: dict tables hold metadata dicts (value under 'val'), Case tables hold values
                    if f.guard is True:
                        want = 'val'
                    elif f.guard is False:
                        want = 'plain'
                    elif modes == {'case'}:
                        want = 'plain'
                    elif modes == {'dict'}:
                        want = 'val'
                    elif modes == {'case', 'dict'}:
                        # executed in both modes with one form: wrong in one of them whatever the form
                        want = 'val' if f.form == 'plain' else 'plain'
                    else:
                        verdict = ('unsure', f'{astx.src(f.stmt)} is not under a dict/Case mode test', None)
                        break
                    if f.form != want:
                        verdict = ('bad', f'{astx.src(f.stmt)} is executed in {"dict" if want == "val" else "Case"} mode '
                                   f"but reads the entry {'without' if want == 'val' else 'with'} ['val']: the "
                                   'metadata dict / a component of the value is stored instead of the value',
                                   'value-form')
                        break
                    if f.guard is not None and ((f.guard and 'dict' not in modes) or (not f.guard and 'case' not in modes)):
                        verdict = ('unsure', f'{astx.src(f.stmt)}: table cannot be in the tested mode', None)
                        break
            if verdict is None and s.scatter is not None:
                verdict = _check_scatter(lc, loop, s)
            if verdict is None:
                forms = sorted({f.form for f in s.fetches})
                for variant in sorted(s.variants or {'plain'}):
                    out.ok(fn, st, f'value is {loop.kind}[{loop.var}] ({"/".join(forms)})'
                           f'{" through scatter_dist_to_local" if variant == "scatter" else ""}, stored under {nv}, '
                           'no units/indices')
            elif verdict[0] == 'bad':
                out.bad(fn, st, verdict[1], key=f'{verdict[2]}-{tag}')
            else:
                out.unsure(fn, st, verdict[1])


def _check_scatter(lc, loop, s):
    call, at = s.scatter
    if len(call.args) != 3 or call.keywords:
        return ('unsure', 'scatter_dist_to_local call shape not recognised', None)
    comm, sizes = call.args[1], call.args[2]
    if not (isinstance(comm, ast.Attribute) and comm.attr == 'comm' and lc.is_model(comm.value)):
        return ('unsure', f'communicator {astx.src(comm)} is not model.comm', None)
    if isinstance(sizes, ast.Name):
        sv = lc.rd.value(at, sizes.id)
        if sv is None:
            return ('unsure', f'sizes {sizes.id} has no unique definition', None)
        sizes = sv
    # model._var_sizes[io][:, abs2idx[name]]
    ok_shape = isinstance(sizes, ast.Subscript) and isinstance(sizes.value, ast.Subscript) and \
        isinstance(sizes.value.value, ast.Attribute) and sizes.value.value.attr == '_var_sizes' and \
        lc.is_model(sizes.value.value.value) and isinstance(sizes.slice, ast.Tuple) and len(sizes.slice.elts) == 2
    if not ok_shape:
        return ('unsure', f'sizes expression {astx.src(sizes)} not recognised', None)
    io = astx.const_str(sizes.value.slice)
    col = sizes.slice.elts[1]
    if io != loop.io:
        return ('bad', f"distributed {loop.io} value is scattered with the sizes of _var_sizes[{io!r}] "
                f"(column index is taken from the other io kind's table)", 'scatter-sizes')
    if not (isinstance(col, ast.Subscript) and isinstance(col.slice, ast.Name)):
        return ('unsure', f'size column {astx.src(col)} not recognised', None)
    if col.slice.id != s.name_var():
        return ('bad', f'sizes of variable {col.slice.id} are used to scatter the value stored under '
                f'{s.name_var()}', 'scatter-sizes')
    return None


# =========================================================================== key space of the case tables
# Kinds of key under which a variable THAT EXISTS IN THE MODEL can appear when a table is iterated:
#   inputs : 'abs'      absolute input name (and not also its promoted name)
#            'prom'     promoted input name (and not an absolute name)
#   outputs: 'abs_out'  absolute output name (not its promoted name)
#            'prom_out' promoted output name
#            'autoivc'  promoted *input* name under which the recorder stores an _auto_ivc output
def case_keyspace(repo):
    """{'inputs'|'outputs': {view: {kind: ast node that creates it}}} from Case.__init__ / PromAbsDict.__init__."""
    ci = repo.func(CASE, 'Case.__init__')
    with_in = {}
    for st in astx.walk_stmts(ci.node.body):
        if isinstance(st, ast.Assign) and len(st.targets) == 1 and \
                astx.path(st.targets[0]) in ('self.inputs', 'self.outputs') and isinstance(st.value, ast.Call):
            if astx.call_name(st.value) != 'PromAbsDict':
                raise AnalysisError(f'{ci.ident}: {astx.src(st)} does not build a PromAbsDict')
            c = st.value
            k = astx.path(st.targets[0]).split('.')[1]
            io = k[:-1]
            p2a, a2p = astx.arg(c, 1, 'prom2abs'), astx.arg(c, 2, 'abs2prom')
            if astx.path(p2a) != f"prom2abs[{io!r}]" or astx.path(a2p) != f"abs2prom[{io!r}]":
                raise AnalysisError(f'{ci.ident}: name maps given to the {k} PromAbsDict not recognised')
            with_in[k] = astx.kwarg(c, 'in_prom2abs') is not None
    if set(with_in) != {'inputs', 'outputs'}:
        raise AnalysisError(f'{ci.ident}: construction of self.inputs/self.outputs not found')
    pi = repo.func(CASE, 'PromAbsDict.__init__')
    argn = [a.arg for a in pi.node.args.args]
    if argn[:4] != ['self', 'values', 'prom2abs', 'abs2prom'] or 'in_prom2abs' not in argn:
        raise AnalysisError(f'{pi.ident}: signature changed')
    space = {'inputs': {'keys': {}, 'absolute_names': {}}, 'outputs': {'keys': {}, 'absolute_names': {}}}
    n_calls = 0
    for c in astx.calls(pi.node):
        if not (astx.callee_attr(c) == '__setitem__' and isinstance(astx.receiver(c), ast.Call) and
                astx.call_name(astx.receiver(c)) == 'super' and len(c.args) == 2):
            continue
        loopst = astx.enclosing(c, (ast.For,))
        if loopst is None:
            continue
        tg = loopst.target
        kv = tg.elts[0].id if isinstance(tg, ast.Tuple) and isinstance(tg.elts[0], ast.Name) else None
        if kv is None:
            raise AnalysisError(f'{pi.ident}: key loop at line {loopst.lineno} not recognised')
        n_calls += 1
        keyexpr = c.args[0]
        if isinstance(keyexpr, ast.Name) and keyexpr.id != kv:
            tmp = [st.value for st in astx.walk_stmts(loopst.body) if isinstance(st, ast.Assign) and
                   len(st.targets) == 1 and astx.path(st.targets[0]) == keyexpr.id]
            if len(tmp) == 1:
                keyexpr = tmp[0]
        # branch context: nearest enclosing membership test in whose body/orelse chain we are
        member = None          # 'abs2prom' | 'prom2abs' | 'else' | 'deriv'
        applies = {'inputs', 'outputs'}
        node = c
        for a in astx.ancestors(c):
            if a is loopst:
                break
            if isinstance(a, ast.If):
                t = a.test
                inb = astx.in_body(astx.stmt_of(c), a, 'body')
                if isinstance(t, ast.Compare) and len(t.ops) == 1 and isinstance(t.ops[0], ast.In) and \
                        isinstance(t.left, ast.Name) and t.left.id == kv and \
                        isinstance(t.comparators[0], ast.Name) and t.comparators[0].id in ('abs2prom', 'prom2abs'):
                    if inb and member is None:
                        member = t.comparators[0].id
                elif isinstance(t, ast.Compare) and len(t.ops) == 1 and astx.path(t.left) == 'in_prom2abs' and \
                        isinstance(t.comparators[0], ast.Constant) and t.comparators[0].value is None and \
                        isinstance(t.ops[0], (ast.Is, ast.IsNot)):
                    none_side = inb == isinstance(t.ops[0], ast.Is)
                    applies &= {k for k, w in with_in.items() if w != none_side}
                elif inb and member is None:
                    member = 'deriv'
        if member is None:
            member = 'else'
        if isinstance(keyexpr, ast.Subscript) and astx.path(keyexpr.value) == 'abs2prom' and \
                isinstance(keyexpr.slice, ast.Name) and keyexpr.slice.id == kv:
            stored = 'prom'
        elif isinstance(keyexpr, ast.Name) and keyexpr.id == kv:
            stored = 'raw'
        else:
            stored = 'other'
        for tab in applies:
            if tab == 'inputs':
                # recorded inputs are keyed by absolute name: only the `key in abs2prom` branch is taken
                if member == 'abs2prom':
                    kind = {'prom': 'prom', 'raw': 'abs'}.get(stored)
                    if kind is None:
                        raise AnalysisError(f'{pi.ident}: key expression {astx.src(keyexpr)} not recognised')
                    space[tab]['keys'].setdefault(kind, c)
            else:
                if member == 'abs2prom':
                    kind = {'prom': 'prom_out', 'raw': 'abs_out'}.get(stored)
                    if kind is None:
                        raise AnalysisError(f'{pi.ident}: key expression {astx.src(keyexpr)} not recognised')
                    space[tab]['keys'].setdefault(kind, c)
                elif member == 'else' and stored == 'raw':
                    space[tab]['keys'].setdefault('autoivc', c)
    if n_calls < 6:
        raise AnalysisError(f'{pi.ident}: only {n_calls} super().__setitem__ calls recognised')
    # promoted names in a case are those of the system the recorder was attached to
    if 'prom_out' in space['outputs']['keys'] and _recorder_maps_are_relative(repo):
        space['outputs']['keys']['relprom_out'] = space['outputs']['keys']['prom_out']
    # absolute_names() yields the raw recorded keys
    an = repo.func(CASE, 'PromAbsDict.absolute_names')
    ys = [n for n in astx.walk(an.node) if isinstance(n, ast.Yield)]
    loops = [s for s in astx.walk_stmts(an.node.body) if isinstance(s, ast.For)]
    if len(loops) == 1 and astx.path(loops[0].iter) == 'self._keys' and isinstance(loops[0].target, ast.Name) and \
            any(isinstance(y.value, ast.Name) and y.value.id == loops[0].target.id for y in ys):
        space['inputs']['absolute_names'] = {'abs': an.node}
        space['outputs']['absolute_names'] = {'abs_out': an.node, 'autoivc': an.node}
    else:
        space['inputs']['absolute_names'] = space['outputs']['absolute_names'] = None
    return space


REC = 'openmdao/recorders/sqlite_recorder.py'


def _recorder_maps_are_relative(repo):
    """True if SqliteRecorder.startup takes abs2prom from the recording System itself (not the model)."""
    fn = repo.func(REC, 'SqliteRecorder.startup')
    if len(fn.node.args.args) < 2:
        raise AnalysisError(f'{fn.ident}: signature changed')
    req = fn.node.args.args[1].arg
    src = None
    for c in astx.calls(fn.node):
        if astx.callee_attr(c) == 'update' and astx.path(astx.receiver(c)) == "self._abs2prom['output']" and c.args:
            a = c.args[0]
            if isinstance(a, ast.Call) and astx.callee_attr(a) == 'abs2prom_iter':
                r = astx.receiver(a)
                if isinstance(r, ast.Attribute) and r.attr == '_resolver' and isinstance(r.value, ast.Name):
                    src = r.value.id
    if src is None:
        raise AnalysisError(f'{fn.ident}: source of the recorded abs2prom map not recognised')
    rel = False
    for st in astx.walk_stmts(fn.node.body):
        if isinstance(st, ast.Assign) and len(st.targets) == 1 and astx.path(st.targets[0]) == src:
            if astx.path(st.value) in (req, f'{req}._system()'):
                rel = True
    return rel


# three-valued evaluation of the name gates for one kind of key
_IS_ABS = {'abs': ('input',), 'abs_out': ('output',)}
_IS_PROM = {'prom': ('input',), 'prom_out': ('output',), 'autoivc': ('input',)}


def _gate_atom(lc, c, kind, var):
    """Value of resolver.is_abs/is_prom(var[, iotype]) for a key of `kind`; None if not such a call."""
    if not (isinstance(c, ast.Call) and astx.callee_attr(c) in ('is_abs', 'is_prom') and
            lc.is_resolver(astx.receiver(c))):
        return None
    a0 = astx.arg(c, 0, 'absname' if astx.callee_attr(c) == 'is_abs' else 'promname')
    if not (isinstance(a0, ast.Name) and a0.id == var):
        return None
    io = astx.arg(c, 1, 'iotype')
    if io is None or (isinstance(io, ast.Constant) and io.value is None):
        iov = None
    elif astx.const_str(io) in ('input', 'output'):
        iov = astx.const_str(io)
    else:
        return None
    tab = _IS_ABS if astx.callee_attr(c) == 'is_abs' else _IS_PROM
    ios = tab.get(kind, ())
    return bool(ios) and (iov is None or iov in ios)


def _rec_abs_filter(lc, e, var):
    """`[n for n in <table>._prom2abs.get(var, ()) if resolver.is_abs(n, io)]`: the absolute names recorded
    under key `var` that exist in the model.  Returns the io literal ('input'/'output'/None) or False."""
    if isinstance(e, ast.Call) and astx.call_name(e) in ('list', 'tuple') and len(e.args) == 1:
        e = e.args[0]
    if not (isinstance(e, (ast.ListComp, ast.GeneratorExp)) and len(e.generators) == 1):
        return False
    gen = e.generators[0]
    if not (isinstance(gen.target, ast.Name) and isinstance(e.elt, ast.Name) and e.elt.id == gen.target.id
            and len(gen.ifs) == 1):
        return False
    it = gen.iter
    if isinstance(it, ast.Call) and astx.callee_attr(it) == 'get' and it.args and \
            isinstance(it.args[0], ast.Name) and it.args[0].id == var:
        m = astx.receiver(it)
    elif isinstance(it, ast.Subscript) and isinstance(it.slice, ast.Name) and it.slice.id == var:
        m = it.value
    else:
        return False
    if not (isinstance(m, ast.Attribute) and m.attr == '_prom2abs'):
        return False
    c = gen.ifs[0]
    if not (isinstance(c, ast.Call) and astx.callee_attr(c) == 'is_abs' and lc.is_resolver(astx.receiver(c)) and
            c.args and isinstance(c.args[0], ast.Name) and c.args[0].id == gen.target.id):
        return False
    io = astx.arg(c, 1, 'iotype')
    return astx.const_str(io) if io is not None else None


# does a recorded absolute name exist in the model for a key of this kind?  (None = either)
# (an absolute name is no key of _prom2abs unless it is its own promoted name)
_REC_ABS_TRUTH = {'relprom_out': True, 'abs_out': False, 'prom_out': None, 'autoivc': False,
                  'abs': False, 'prom': None}


def _name_truth(lc, t, kind, var, at, dmode):
    """Truthiness of a local Name that holds the recorded-absolute-names filter (or an empty default)."""
    if at is None:
        return None
    vals = set()
    for d in lc.rd.defs(at, t.id):
        if not (d.kind == 'stmt' and isinstance(d.ast, ast.Assign) and len(d.ast.targets) == 1):
            return None
        m = lc.mode_at(d)
        if m is not None and m != dmode:
            continue
        v = d.ast.value
        if isinstance(v, (ast.Tuple, ast.List)) and not v.elts:
            vals.add(False)
        elif isinstance(v, ast.Constant) and v.value is None:
            vals.add(False)
        elif _rec_abs_filter(lc, v, var) is not False:
            io = _rec_abs_filter(lc, v, var)
            want = 'input' if kind in ('abs', 'prom') else 'output'
            vals.add(_REC_ABS_TRUTH.get(kind) if io in (None, want) else False)
        else:
            return None
    return vals.pop() if len(vals) == 1 else None


def gate_eval(lc, t, kind, var, at=None, dmode=False):
    """True/False/None(unknown) of test t for a key of `kind` bound to `var`."""
    if isinstance(t, ast.UnaryOp) and isinstance(t.op, ast.Not):
        v = gate_eval(lc, t.operand, kind, var, at, dmode)
        return None if v is None else not v
    if isinstance(t, ast.Name):
        return _name_truth(lc, t, kind, var, at, dmode)
    if isinstance(t, ast.BoolOp):
        vals = [gate_eval(lc, v, kind, var, at, dmode) for v in t.values]
        if isinstance(t.op, ast.And):
            if any(v is False for v in vals):
                return False
            return True if all(v is True for v in vals) else None
        if any(v is True for v in vals):
            return True
        return False if all(v is False for v in vals) else None
    return _gate_atom(lc, t, kind, var)


def _looks_like_name_gate(lc, t, var):
    """An undecided test that classifies the loop key (is_*/membership) rather than the variable's data."""
    for e in astx.walk(t):
        if isinstance(e, ast.Call) and lc.is_resolver(astx.receiver(e)) and \
                (astx.callee_attr(e) or '').startswith('is_') and var in astx.names(e):
            return True
        if isinstance(e, ast.Compare) and len(e.ops) == 1 and isinstance(e.ops[0], (ast.In, ast.NotIn)) and \
                isinstance(e.left, ast.Name) and e.left.id == var:
            return True
    return False


def simulate(lc, loop, kind, dict_mode=False):
    """Nodes of the loop body reachable for a present variable whose key is of `kind` (normal edges),
    in Case mode (default) or dict mode: tests on the dict/Case flag are pinned."""
    g = lc.g
    body = set(g.body_nodes(loop.stmt))
    start = [m for m, lab in g.succ[loop.hdr] if lab == 'true']
    seen = set(start)
    dq = deque(start)
    unknown = []
    while dq:
        n = dq.popleft()
        val = None
        if n.kind == 'test' and isinstance(n.ast, ast.If):
            val = gate_eval(lc, n.ast.test, kind, loop.var, n, dict_mode)
            if val is None:
                p = lc.dict_polarity(n.ast.test)
                if p is not None:
                    val = (p == dict_mode)
            if val is None and _looks_like_name_gate(lc, n.ast.test, loop.var):
                unknown.append(n)
        for m, lab in g.succ[n]:
            if lab == 'exc' or m not in body:
                continue
            if val is not None and lab in ('true', 'false') and (lab == 'true') != val:
                continue
            if m not in seen:
                seen.add(m)
                dq.append(m)
    return seen, unknown


_KIND_TEXT = {'abs': 'absolute input names', 'prom': 'promoted input names',
              'abs_out': 'absolute output names', 'prom_out': 'promoted output names',
              'autoivc': 'promoted input names that stand for _auto_ivc outputs',
              'relprom_out': 'promoted output names relative to the (sub)system the recorder was attached to'}


def loop_kinds(lc, loop, space):
    ks = space[loop.kind][loop.view]
    if ks is None:
        raise AnalysisError('PromAbsDict.absolute_names not recognised')
    return ks


# =========================================================================== C19.keyspace
@rule('C19.keyspace', floor=3)
def keyspace(repo, out):
    """Every kind of key that iterating a recorded table yields for an existing variable reaches set_val."""
    lc = LC(repo)
    fn = lc.fn
    space = case_keyspace(repo)
    for loop in lc.loops:
        if 'case' not in loop.modes:
            raise AnalysisError(f'{fn.ident}: the {loop.kind} loop never iterates the Case table')
        kinds = loop_kinds(lc, loop, space)
        if not kinds:
            raise AnalysisError(f'no key kinds derived for case.{loop.kind}')
        setn = set(lc.set_val_nodes(loop))
        warn = set(lc.warn_nodes(loop))
        todo = [(k, False, kinds[k]) for k in sorted(kinds)]
        if 'dict' in loop.modes:
            dk = lc.dict_key_kinds(loop.stmt.iter, loop.hdr, loop.kind)
            if dk is None:
                out.unsure(fn, loop.stmt, f'key space of the dict-form {loop.kind} table not recognised')
            else:
                todo += [(k, True, None) for k in sorted(dk)]
        for kind, dmode, origin in todo:
            seen, unknown = simulate(lc, loop, kind, dmode)
            if dmode:
                how = f"the dict-form table built from case['{loop.kind}'] is keyed that way"
            else:
                how = (f'PromAbsDict stores such keys at case.py line {getattr(origin, "lineno", "?")}: '
                       f'{astx.src(origin)[:70]}')
            if unknown:
                out.unsure(fn, unknown[0].ast, f'unrecognised test on the loop key for {_KIND_TEXT[kind]}')
            elif seen & setn:
                out.ok(fn, loop.stmt, f'{_KIND_TEXT[kind]} in {"dict-form " if dmode else "case."}{loop.kind} reach set_val')
            else:
                end = 'issue_warning("... not found in the model")' if seen & warn else 'no set_val'
                out.bad(fn, loop.stmt, f'{"dict-form " if dmode else "case."}{loop.kind} iterated as `{astx.src(loop.stmt.iter)}` yields '
                        f'{_KIND_TEXT[kind]} ({how}), but for such a key the name gate of the loop only leads to '
                        f'{end}: a recorded variable that exists in the model is not restored',
                        key=f'{loop.kind}-keyspace-{"dict-" if dmode else ""}{kind}')


# =========================================================================== C19.endpoint
def _iter_exprs(lc, e, at, depth=0, seen=None):
    """Element-producing expressions of an iterable (through local temporaries and tuple/list literals).

    seen: if given, only definitions at CFG nodes in this set are considered (path-sensitive per key kind).
    """
    if depth > 4:
        return None
    if isinstance(e, ast.Name):
        ds = lc.rd.defs(at, e.id)
        if seen is not None:
            ds = {d for d in ds if d in seen}
        if not ds:
            return None
        out = []
        for d in ds:
            if d.kind == 'stmt' and isinstance(d.ast, ast.Assign) and len(d.ast.targets) == 1 and \
                    astx.path(d.ast.targets[0]) == e.id:
                r = _iter_exprs(lc, d.ast.value, d, depth + 1, seen)
                if r is None:
                    return None
                out += r
            else:
                return None
        return out
    if isinstance(e, (ast.Tuple, ast.List)):
        return [('elt', x, at) for x in e.elts]
    return [('iter', e, at)]


def _endpoint_of_name(lc, loop, site, kind, seen=None):
    """Frame through which the site stores, for a key of `kind`: 'key' | 'out' | 'in' | 'same' | None."""
    nv = site.name_var()
    if nv == loop.var:
        return 'key', None
    # nv bound by a nested For
    st = astx.stmt_of(site.call)
    inner = None
    for a in astx.ancestors(st):
        if a is loop.stmt:
            break
        if isinstance(a, ast.For) and isinstance(a.target, ast.Name) and a.target.id == nv:
            inner = a
            break
    if inner is None:
        return None, f'name {nv} is not bound by a loop over names derived from the key'
    ih = lc.g.nodes_of(inner)[0]
    items = _iter_exprs(lc, inner.iter, ih, seen=seen)
    if not items:
        return None, f'iterable {astx.src(inner.iter)} not recognised'
    frames = set()
    for how, e, at in items:
        if how == 'elt' and isinstance(e, ast.Name) and e.id == loop.var:
            frames.add('key')
            continue
        if how == 'iter' and _rec_abs_filter(lc, e, loop.var) is not False:
            io = _rec_abs_filter(lc, e, loop.var)
            if io in (None, loop.io):
                # absolute names recorded under this key, of the loop's io kind, that exist in the model
                frames.add('out' if loop.kind == 'outputs' else 'in')
                continue
            return None, f'{astx.src(e)} filters on the other io kind'
        if not isinstance(e, ast.Call):
            return None, f'element source {astx.src(e)} not recognised'
        ca = astx.callee_attr(e)
        a0 = e.args[0] if e.args else None
        on_key = isinstance(a0, ast.Name) and a0.id == loop.var
        if how == 'elt' and ca in ('source', 'get_source') and on_key and \
                (lc.is_resolver(astx.receiver(e)) or lc.is_model(astx.receiver(e))):
            frames.add('out')
            continue
        if how == 'iter' and ca == 'absnames' and lc.is_resolver(astx.receiver(e)) and on_key:
            io = astx.arg(e, 1, 'iotype')
            if io is None or (isinstance(io, ast.Constant) and io.value is None):
                # get_prom_iotype: promoted output first, else promoted input; an absolute name is itself
                frames.add({'prom_out': 'out', 'abs_out': 'out', 'autoivc': 'in', 'prom': 'in', 'abs': 'same'}[kind])
            elif astx.const_str(io) == 'output':
                # a promoted input name is no promoted output: absnames(name, 'output') raises KeyError
                frames.add('err' if kind in ('autoivc', 'prom', 'abs') else 'out')
            elif astx.const_str(io) == 'input':
                frames.add('same' if kind == 'abs' else 'in')
            else:
                return None, f'iotype {astx.src(io)} not recognised'
            continue
        return None, f'element source {astx.src(e)} not recognised'
    if len(frames) != 1:
        return None, f'mixed end points {sorted(frames)}'
    return frames.pop(), inner


@rule('C19.endpoint', floor=2)
def endpoint(repo, out):
    """A recorded value is stored through an end point that has the units/shape frame it was recorded in."""
    lc = LC(repo)
    fn = lc.fn
    space = case_keyspace(repo)
    for loop in lc.loops:
        kinds = loop_kinds(lc, loop, space)
        sites = sites_of(lc, loop)
        todo = [(k, False) for k in sorted(kinds)]
        if 'dict' in loop.modes:
            todo += [(k, True) for k in sorted(lc.dict_key_kinds(loop.stmt.iter, loop.hdr, loop.kind) or ())]
        for kind, dmode in todo:
            seen, unknown = simulate(lc, loop, kind, dmode)
            reach = [s for s in sites if s.node in seen]
            if not reach:
                continue       # nothing stored for this kind: C19.keyspace reports it
            verdict = None
            for s in reach:
                st = astx.stmt_of(s.call)
                if s.problem or not s.fetches:
                    verdict = ('unsure', st, 'value of set_val not recognised (see C19.taint)')
                    break
                frame, info = _endpoint_of_name(lc, loop, s, kind, seen)
                if frame is None:
                    verdict = ('unsure', st, info)
                    break
                idx = {f.idx for f in s.fetches if f.guard is not (not dmode)} or {f.idx for f in s.fetches}
                if loop.kind == 'inputs':
                    # the recorded input value is in the units / shape (after src_indices) of ONE absolute input
                    if idx == {s.name_var()} or frame == 'same':
                        continue
                    if frame == 'in':
                        verdict = ('bad', st, f'the value read from case.inputs[{"/".join(sorted(idx))}] (one '
                                   f'input\'s units) is stored through every absolute input of the promoted name '
                                   f'({astx.src(info.iter)}): inputs promoted together may have different units '
                                   'and src_indices', f'inputs-{kind}-fanned-out')
                        break
                    verdict = ('unsure', st, f'input value indexed by {sorted(idx)} stored under {s.name_var()}')
                    break
                # outputs: the value is in the units and full shape of the source output
                if frame in ('key', 'out'):
                    continue
                if frame == 'in':
                    verdict = ('bad', info, f'for {_KIND_TEXT[kind]} `{astx.src(info.iter)}` resolves to absolute '
                               f'INPUT names, so the recorded source value (source units, full source shape) is '
                               f'stored with set_val through inputs: it is re-interpreted in each input\'s units '
                               'and src_indices (wrong value when an input declares other units than its '
                               'auto_ivc source, shape error with src_indices)',
                               f'outputs-{"dict-" if dmode else ""}{kind}-through-input-endpoint')
                    break
                if frame == 'err':
                    verdict = ('bad', info, f'for {_KIND_TEXT[kind]} `{astx.src(info.iter)}` asks the resolver for '
                               'promoted OUTPUT names, which such a key is not: KeyError, the recorded value of '
                               'the auto_ivc output is never restored', f'outputs-{kind}-unresolvable')
                    break
                verdict = ('unsure', st, f'end point frame {frame} not expected in the outputs loop')
                break
            if verdict is None:
                out.ok(fn, loop.stmt, f'{_KIND_TEXT[kind]}{" (dict form)" if dmode else ""}: {len(reach)} set_val '
                       'site(s) store through an end point in the recorded frame')
            elif verdict[0] == 'bad':
                out.bad(fn, verdict[1], verdict[2], key=verdict[3])
            else:
                out.unsure(fn, verdict[1], verdict[2])


# =========================================================================== C19.values
def _is_self_values_store(st):
    """`self._values[<Name>] = <expr>` -> (key name, value expr) else None."""
    if isinstance(st, ast.Assign) and len(st.targets) == 1 and isinstance(st.targets[0], ast.Subscript) and \
            astx.path(st.targets[0].value) == 'self._values' and isinstance(st.targets[0].slice, ast.Name):
        return st.targets[0].slice.id, st.value
    return None


@rule('C19.values', floor=4)
def values(repo, out):
    """PromAbsDict keeps for every absolute name the value recorded under that very name; __getitem__ returns it."""
    pi = repo.func(CASE, 'PromAbsDict.__init__')
    g = cfgm.build(pi)
    rd = cfgm.ReachingDefs(g)
    top = [st for st in pi.node.body if isinstance(st, ast.If) and isinstance(st.test, ast.Call) and
           astx.call_name(st.test) == 'isinstance' and len(st.test.args) == 2 and
           astx.path(st.test.args[0]) == 'values' and astx.path(st.test.args[1]) == 'dict']
    if len(top) != 1:
        raise AnalysisError(f'{pi.ident}: dict/structured-array dispatch not found')
    top = top[0]
    # ---------------- dict form
    loops = [st for st in top.body if isinstance(st, ast.For)]
    if len(loops) != 1 or not (isinstance(loops[0].target, ast.Tuple) and len(loops[0].target.elts) == 2 and
                               all(isinstance(e, ast.Name) for e in loops[0].target.elts) and
                               isinstance(loops[0].iter, ast.Call) and astx.callee_attr(loops[0].iter) == 'items'
                               and astx.path(astx.receiver(loops[0].iter)) == 'values'):
        raise AnalysisError(f'{pi.ident}: `for key, val in values.items()` not found in the dict branch')
    loop = loops[0]
    kv, vv = loop.target.elts[0].id, loop.target.elts[1].id
    hdr = g.nodes_of(loop)[0]
    body = set(g.body_nodes(loop))
    # (1) the recorded key and value are not replaced before they are filed
    rebound = None
    for n in g.nodes:
        if n in body and n.kind == 'stmt':
            for t in astx.assigned_targets(n.ast):
                if astx.path(t) in (kv, vv):
                    rebound = (n, astx.path(t))
    if rebound is not None:
        n, nm = rebound
        v = n.ast.value if isinstance(n.ast, ast.Assign) else None
        if nm == kv and v is not None and any(
                (isinstance(e, ast.Subscript) and astx.path(e.value) == 'abs2prom') or
                (isinstance(e, ast.Call) and astx.callee_attr(e) == 'get' and astx.path(astx.receiver(e)) == 'abs2prom')
                for e in astx.walk(v)):
            out.bad(pi, n.ast, f'the recorded absolute key is replaced by its promoted name ({astx.src(n.ast)}) '
                    'before the value is filed: several absolute inputs share one promoted name (different '
                    'units / src_indices), so they all end up with the value of the last one recorded and '
                    'case.inputs[abs_name] no longer returns the value recorded under abs_name',
                    key='values-rekeyed-to-promoted')
        else:
            out.unsure(pi, n.ast, f'loop variable {nm} of the recorded table is rebound inside the loop')
    else:
        out.ok(pi, loop, f'dict form: {kv}/{vv} of the recorded table are never rebound before they are filed')
    # (2) under `key in abs2prom` the value is kept under the absolute key itself
    absif = None
    for st in astx.walk_stmts(loop.body):
        if isinstance(st, ast.If) and isinstance(st.test, ast.Compare) and len(st.test.ops) == 1 and \
                isinstance(st.test.ops[0], ast.In) and astx.path(st.test.left) == kv and \
                astx.path(st.test.comparators[0]) == 'abs2prom':
            absif = st
            break
    if absif is None:
        out.unsure(pi, loop, f'dict form: no `{kv} in abs2prom` branch')
    else:
        stores = [x for x in (_is_self_values_store(st) for st in astx.walk_stmts(absif.body)) if x]
        good = [x for x in stores if x[0] == kv and isinstance(x[1], ast.Name) and x[1].id == vv]
        if good:
            out.ok(pi, absif, f'dict form: a value recorded under an absolute name is kept as self._values[{kv}] = {vv}')
        elif stores:
            out.bad(pi, absif, f'dict form: the value recorded under an absolute name is filed as '
                    f'self._values[{stores[0][0]}] = {astx.src(stores[0][1])}, not under that absolute name',
                    key='values-abs-not-kept')
        else:
            out.bad(pi, absif, 'dict form: the value recorded under an absolute name is only filed under the '
                    'promoted name (no self._values[<absolute name>] store): absolute inputs sharing a promoted '
                    'name lose their own recorded value', key='values-abs-not-kept')
    # (3) keys of the dict form are the keys of _values
    kdefs = [st for st in top.body if isinstance(st, ast.Assign) and astx.path(st.targets[0]) == 'self._keys']
    if len(kdefs) == 1 and isinstance(kdefs[0].value, ast.Call) and astx.callee_attr(kdefs[0].value) == 'keys' and \
            astx.path(astx.receiver(kdefs[0].value)) == 'self._values':
        out.ok(pi, kdefs[0], 'dict form: absolute_names()/__getitem__ look names up in the keys of _values')
    else:
        out.unsure(pi, top, 'dict form: definition of self._keys not recognised')
    # ---------------- structured-array form: _values/_keys are the record and its field names, untouched
    adefs = {astx.path(st.targets[0]): st for st in top.orelse if isinstance(st, ast.Assign) and len(st.targets) == 1}
    va, ka = adefs.get('self._values'), adefs.get('self._keys')
    if va is not None and ka is not None and astx.path(va.value) == 'values[0]' and \
            astx.path(ka.value) == 'values.dtype.fields':
        later = [st for st in astx.walk_stmts(top.orelse) if st not in (va, ka) and
                 any((astx.path(t) or '').startswith(('self._values', 'self._keys')) for t in astx.assigned_targets(st))]
        if later:
            out.unsure(pi, later[0], 'structured-array form: _values/_keys modified after construction')
        else:
            out.ok(pi, va, 'structured-array form: _values is the recorded row, _keys its (absolute) field names')
    else:
        out.unsure(pi, top, 'structured-array form: definition of _values/_keys not recognised')
    # ---------------- __getitem__: an absolute name is answered from _values before anything else
    gi = repo.func(CASE, 'PromAbsDict.__getitem__')
    first = astx.strip_doc(gi.node.body)
    kp = gi.node.args.args[1].arg if len(gi.node.args.args) == 2 else None
    f0 = first[0] if first else None
    if isinstance(f0, ast.If) and isinstance(f0.test, ast.Compare) and len(f0.test.ops) == 1 and \
            isinstance(f0.test.ops[0], ast.In) and astx.path(f0.test.left) == kp and \
            astx.path(f0.test.comparators[0]) == 'self._keys':
        r0 = f0.body[0] if f0.body else None
        if isinstance(r0, ast.Return) and isinstance(r0.value, ast.Subscript) and \
                astx.path(r0.value.value) == 'self._values' and astx.path(r0.value.slice) == kp:
            out.ok(gi, f0, '__getitem__(abs_name) returns self._values[abs_name] before trying promoted names')
        else:
            out.bad(gi, f0, f'__getitem__ answers a name found in self._keys with {astx.src(r0)} instead of '
                    'self._values[name]', key='getitem-abs')
    else:
        out.unsure(gi, f0, '__getitem__ does not start with the absolute-name lookup `key in self._keys`')


# =========================================================================== self-test
_IN_BLOCK = '''        if inputs:
            for abs_name in inputs:
                if set_later(abs_name):
                    continue

                if resolver.is_abs(abs_name, 'input'):
                    if case_is_dict:
                        val = inputs[abs_name]['val']
                    else:
                        val = case.inputs[abs_name]

                    if model.comm.size > 1 and resolver.flags(abs_name, 'input') & DISTRIBUTED:
                        sizes = model._var_sizes['input'][:, abs2idx[abs_name]]
                        model.set_val(abs_name, scatter_dist_to_local(val, model.comm, sizes))
                    else:
                        model.set_val(abs_name, val)
                else:
                    issue_warning(f"{model.msginfo}: Input variable, '{abs_name}', recorded "
                                  "in the case is not found in the model.")
'''
_OUT_BLOCK = '''        if outputs:
            for name in outputs:
                if set_later(name):
                    continue

                if resolver.is_prom(name):
                    if case_is_dict:
                        val = outputs[name]['val']
                    else:
                        val = outputs[name]

                    for abs_name in resolver.absnames(name):
                        if set_later(abs_name):
                            continue

                        if model.comm.size > 1 and resolver.flags(abs_name) & DISTRIBUTED:
                            sizes = model._var_sizes['output'][:, abs2idx[abs_name]]
                            model.set_val(abs_name, scatter_dist_to_local(val, model.comm, sizes))
                        else:
                            model.set_val(abs_name, val)
                else:
                    issue_warning(f"{model.msginfo}: Output variable, '{name}', recorded "
                                  "in the case is not found in the model.")
'''
# _IN_HDR / _FAN are the shapes before the repair of the two findings of this module (kept as mutants);
# _IN_HDR_FIXED / _FAN_FIXED are today's text.
_IN_HDR = '        if inputs:\n            for abs_name in inputs:'
_IN_HDR_FIXED = '        if inputs:\n            for abs_name in (inputs if case_is_dict else inputs.absolute_names()):'
_FAN = '                    for abs_name in resolver.absnames(name):\n'
_FAN_FIXED = """                    if resolver.is_prom(name, 'output'):
                        abs_names = resolver.absnames(name, 'output')
                    else:
                        # promoted input name that stands for an _auto_ivc output
                        abs_names = (resolver.source(name),)

                    for abs_name in abs_names:
"""
_IN_BLOCK = _IN_BLOCK.replace(_IN_HDR, _IN_HDR_FIXED)
_OUT_BLOCK = _OUT_BLOCK.replace(_FAN, _FAN_FIXED)
_OUT_FLIPPED_TMPL = '''        if outputs:
            for name in outputs:
                if set_later(name):
                    continue

                if not resolver.is_prom(name):
                    issue_warning(f"{model.msginfo}: Output variable, '{name}', recorded "
                                  "in the case is not found in the model.")
                else:
                    if not case_is_dict:
                        val = outputs[name]
                    else:
                        val = outputs[name]['val']

@FAN@                        if set_later(abs_name):
                            continue

                        if model.comm.size > 1 and resolver.flags(abs_name) & DISTRIBUTED:
                            sizes = model._var_sizes['output'][:, abs2idx[abs_name]]
                            local = scatter_dist_to_local(val, model.comm, sizes)
                            model.set_val(abs_name, local)
                        else:
                            model.set_val(name=abs_name, val=val)
'''
_FANOUT_IN = ("                    for aname in resolver.absnames(abs_name, 'input'):\n"
              "                        model.set_val(aname, val)\n")
_IN_STORE = ("                    if model.comm.size > 1 and resolver.flags(abs_name, 'input') & DISTRIBUTED:\n"
             "                        sizes = model._var_sizes['input'][:, abs2idx[abs_name]]\n"
             "                        model.set_val(abs_name, scatter_dist_to_local(val, model.comm, sizes))\n"
             "                    else:\n"
             "                        model.set_val(abs_name, val)\n")


# ---- refactored (behaviour-preserving) shapes of the two loops and of the override bookkeeping
_IN_EARLY = _IN_HDR_FIXED + '''
                if set_later(abs_name):
                    continue

                if not resolver.is_abs(abs_name, 'input'):
                    issue_warning(f"{model.msginfo}: Input variable, '{abs_name}', recorded "
                                  "in the case is not found in the model.")
                    continue

                recorded = inputs[abs_name]['val'] if case_is_dict else case.inputs[abs_name]

                if model.comm.size > 1 and resolver.flags(abs_name, 'input') & DISTRIBUTED:
                    sizes = model._var_sizes['input'][:, abs2idx[abs_name]]
                    local_val = scatter_dist_to_local(recorded, model.comm, sizes)
                    model.set_val(abs_name, local_val)
                else:
                    model.set_val(abs_name, recorded)
'''
_OUT_EARLY = '''        if outputs:
            for name in outputs:
                if set_later(name):
                    continue

                if not resolver.is_prom(name):
                    issue_warning(f"{model.msginfo}: Output variable, '{name}', recorded "
                                  "in the case is not found in the model.")
                    continue

                val = outputs[name]
                if case_is_dict:
                    val = val['val']

                if not resolver.is_prom(name, 'output'):
                    abs_names = (resolver.source(name),)
                else:
                    abs_names = resolver.absnames(name, 'output')

                for abs_name in abs_names:
                    if not set_later(abs_name):
                        if model.comm.size > 1 and resolver.flags(abs_name) & DISTRIBUTED:
                            sizes = model._var_sizes['output'][:, abs2idx[abs_name]]
                            model.set_val(abs_name, scatter_dist_to_local(val, model.comm, sizes))
                        else:
                            model.set_val(abs_name, val)
'''
_OVR_LOOP = '''        system_overrides = {}
        for subsys in model.system_iter(include_self=False, recurse=True):
            if overrides_method('load_case', subsys, System):
                system_overrides[subsys.pathname] = subsys
'''
_OVR_COMP = '''        system_overrides = {
            subsys.pathname: subsys
            for subsys in model.system_iter(include_self=False, recurse=True)
            if overrides_method('load_case', subsys, System)
        }
'''
_LATER_LOOP = '''            for pathname in system_overrides:
                if var_name.startswith(pathname + '.'):
                    return True
            return False
'''
_LATER_ANY = "            return any(var_name.startswith(pathname + '.') for pathname in system_overrides)\n"
_FINAL_TEMP = '''        for sys_name in sorted(system_overrides):
            subsys = system_overrides[sys_name]
            subsys.load_case(case)
'''


_NORM = '''        if case_is_dict:
            # case data comes from list_inputs/list_outputs, keyed on absolute pathname
            # inputs are set by absolute name, outputs need to be keyed on promoted name
            if 'inputs' in case:
                inputs = case['inputs']
            else:
                inputs = None
            if 'outputs' in case:
                outputs = {meta['prom_name']: meta for meta in case['outputs'].values()}
            else:
                outputs = None
        else:
            inputs = case.inputs
            outputs = case.outputs
'''
_NORM_ALT = '''        if not case_is_dict:
            inputs = case.inputs
            outputs = case.outputs
        else:
            inputs = case['inputs'] if 'inputs' in case else None
            if 'outputs' not in case:
                outputs = None
            else:
                outputs = {}
                for out_meta in case['outputs'].values():
                    outputs[out_meta['prom_name']] = out_meta
'''
_IN_TEMP_ITER = '''        if inputs:
            if case_is_dict:
                input_names = inputs
            else:
                input_names = inputs.absolute_names()

            for abs_in in input_names:
                if set_later(abs_in):
                    continue

                if not resolver.is_abs(abs_in, 'input'):
                    issue_warning(f"{model.msginfo}: Input variable, '{abs_in}', recorded "
                                  "in the case is not found in the model.")
                    continue

                val = inputs[abs_in]['val'] if case_is_dict else case.inputs[abs_in]

                if model.comm.size > 1:
                    if resolver.flags(abs_in, 'input') & DISTRIBUTED:
                        sizes = model._var_sizes['input'][:, abs2idx[abs_in]]
                        val = scatter_dist_to_local(val, model.comm, sizes)

                model.set_val(abs_in, val)
'''
_OUT_TEMP_VAL = _OUT_BLOCK.replace(
    "                    if case_is_dict:\n                        val = outputs[name]['val']\n                    else:\n                        val = outputs[name]\n",
    "                    recorded = outputs[name]\n                    val = recorded['val'] if case_is_dict else recorded\n").replace(
    "                        if model.comm.size > 1 and resolver.flags(abs_name) & DISTRIBUTED:\n"
    "                            sizes = model._var_sizes['output'][:, abs2idx[abs_name]]\n"
    "                            model.set_val(abs_name, scatter_dist_to_local(val, model.comm, sizes))\n"
    "                        else:\n                            model.set_val(abs_name, val)\n",
    "                        if not (model.comm.size > 1 and resolver.flags(abs_name) & DISTRIBUTED):\n"
    "                            model.set_val(abs_name, val)\n                        else:\n"
    "                            sizes = model._var_sizes['output'][:, abs2idx[abs_name]]\n"
    "                            model.set_val(abs_name, scatter_dist_to_local(val, model.comm, sizes))\n")
assert _OUT_TEMP_VAL != _OUT_BLOCK and 'recorded = outputs[name]' in _OUT_TEMP_VAL and 'if not (model.comm.size' in _OUT_TEMP_VAL


_OUT_HELPER = '''        if outputs:
            def set_output(abs_out, val):
                # set one absolute output, scattering the recorded value if it is distributed
                if model.comm.size > 1 and resolver.flags(abs_out) & DISTRIBUTED:
                    sizes = model._var_sizes['output'][:, abs2idx[abs_out]]
                    model.set_val(abs_out, scatter_dist_to_local(val, model.comm, sizes))
                else:
                    model.set_val(abs_out, val)

            for name in outputs:
                if set_later(name):
                    continue

                if not resolver.is_prom(name):
                    issue_warning(f"{model.msginfo}: Output variable, '{name}', recorded "
                                  "in the case is not found in the model.")
                    continue

                recorded = outputs[name]
                val = recorded['val'] if case_is_dict else recorded

                if resolver.is_prom(name, 'output'):
                    abs_names = resolver.absnames(name, 'output')
                else:
                    abs_names = (resolver.source(name),)

                for abs_name in abs_names:
                    if not set_later(abs_name):
                        set_output(abs_name, val)
'''


def _shape_items():
    """Self-test items that quote whole blocks, for the current and for the repaired shape."""
    items = []
    for tag, inb, outb, hdr, fan in (('', _IN_BLOCK, _OUT_BLOCK, _IN_HDR_FIXED, _FAN_FIXED),):
        items += [
            Mutant('order-outputs-first' + tag, PRB, inb + '\n' + outb, outb + '\n' + inb, 'C19.order'),
            Mutant('nodrop-inputs-guard-flipped' + tag, PRB, hdr, hdr.replace('if inputs:', 'if not inputs:'), 'C19.nodrop'),
            Mutant('nodrop-return-when-no-inputs' + tag, PRB, hdr, '        if not inputs:\n            return\n' + hdr,
                   ['C19.nodrop', 'C19.deferred']),
            Mutant('endpoint-inputs-fanned-out' + tag, PRB, inb,
                   inb.replace("if resolver.is_abs(abs_name, 'input'):",
                               "if resolver.is_abs(abs_name, 'input') or resolver.is_prom(abs_name, 'input'):")
                   .replace(hdr, _IN_HDR).replace(_IN_STORE, _FANOUT_IN), 'C19.endpoint'),
            Twin('twin-rename-input-key' + tag, PRB, inb, inb.replace('abs_name', 'iname')),
            Twin('twin-flip-gate-temp-kwargs' + tag, PRB, outb, _OUT_FLIPPED_TMPL.replace('@FAN@', fan)),
            Twin('twin-is-not-none' + tag, PRB, hdr, hdr.replace('if inputs:', 'if inputs is not None:')),
        ]
    return items


_IN_SET = '''                    else:
                        model.set_val(abs_name, val)
                else:
                    issue_warning(f"{model.msginfo}: Input variable'''
_OUT_SET = '''                        else:
                            model.set_val(abs_name, val)
                else:
                    issue_warning(f"{model.msginfo}: Output variable'''
_FINAL = '''        for sys_name in sorted(system_overrides.keys()):
            system_overrides[sys_name].load_case(case)
'''

selftest(
    'C19',
    # ---- nodrop
    Mutant('nodrop-dist-on-one-proc', PRB, _IN_SET,
           _IN_SET.replace('else:\n                        model.set_val',
                           "elif not resolver.flags(abs_name, 'input') & DISTRIBUTED:\n                        model.set_val", 1),
           'C19.nodrop'),
    Mutant('nodrop-skip-autoivc', PRB, "                if resolver.is_prom(name):\n",
           "                if name.startswith('_auto_ivc.'):\n                    continue\n\n"
           "                if resolver.is_prom(name):\n", 'C19.nodrop'),
    Mutant('nodrop-break-on-unknown-output', PRB,
           '''                    issue_warning(f"{model.msginfo}: Output variable, '{name}', recorded "
                                  "in the case is not found in the model.")
''', '''                    issue_warning(f"{model.msginfo}: Output variable, '{name}', recorded "
                                  "in the case is not found in the model.")
                    break
''', 'C19.nodrop'),
    Mutant('nodrop-fanout-first-only', PRB, _OUT_SET,
           _OUT_SET.replace('model.set_val(abs_name, val)\n', 'model.set_val(abs_name, val)\n                        break\n', 1),
           'C19.nodrop'),
    Mutant('nodrop-set-only-in-case-mode', PRB, _OUT_SET,
           _OUT_SET.replace('else:\n                            model.set_val', 'elif not case_is_dict:\n                            model.set_val', 1),
           'C19.nodrop'),
    Mutant('nodrop-dict-outputs-elif', PRB,
           "            if 'inputs' in case:\n                inputs = case['inputs']\n"
           "            else:\n                inputs = None\n            if 'outputs' in case:\n"
           "                outputs = {meta['prom_name']: meta for meta in case['outputs'].values()}\n            else:\n                outputs = None\n",
           "            inputs = outputs = None\n            if 'inputs' in case:\n"
           "                inputs = case['inputs']\n            elif 'outputs' in case:\n"
           "                outputs = {meta['prom_name']: meta for meta in case['outputs'].values()}\n", 'C19.nodrop'),
    Twin('twin-dict-chained-default', PRB,
         "            if 'inputs' in case:\n                inputs = case['inputs']\n"
         "            else:\n                inputs = None\n            if 'outputs' in case:\n"
         "                outputs = {meta['prom_name']: meta for meta in case['outputs'].values()}\n            else:\n                outputs = None\n",
         "            inputs = outputs = None\n            if 'inputs' in case:\n"
         "                inputs = case['inputs']\n            if 'outputs' in case:\n"
         "                outputs = {meta['prom_name']: meta for meta in case['outputs'].values()}\n"),
    Mutant('endpoint-autoivc-through-inputs', PRB, 'abs_names = (resolver.source(name),)', "abs_names = resolver.absnames(name, 'input')",
           'C19.endpoint'),
    Mutant('deferred-dispatch-under-if-outputs', PRB, _FINAL,
           '            for sys_name in sorted(system_overrides.keys()):\n                system_overrides[sys_name].load_case(case)\n',
           'C19.deferred'),
    # ---- deferred
    Mutant('deferred-prefix-without-dot', PRB, "if var_name.startswith(pathname + '.'):",
           'if var_name.startswith(pathname):', 'C19.deferred'),
    Mutant('deferred-prefix-swapped', PRB, "if var_name.startswith(pathname + '.'):",
           "if pathname.startswith(var_name + '.'):", 'C19.deferred'),
    Mutant('deferred-key-by-name', PRB, 'system_overrides[subsys.pathname] = subsys',
           'system_overrides[subsys.name] = subsys', 'C19.deferred'),
    Mutant('deferred-never-called', PRB, _FINAL, '', 'C19.deferred'),
    Mutant('deferred-wrong-case', PRB, 'system_overrides[sys_name].load_case(case)',
           'system_overrides[sys_name].load_case(outputs)', 'C19.deferred'),
    Mutant('deferred-return-after-outputs', PRB, '        # call the overridden load_case method on applicable subsystems',
           '        if not outputs:\n            return\n\n        # call the overridden load_case method on applicable subsystems',
           'C19.deferred'),
    Mutant('deferred-only-with-outputs', PRB, _FINAL,
           '        if outputs:\n            for sys_name in sorted(system_overrides.keys()):\n'
           '                system_overrides[sys_name].load_case(case)\n', 'C19.deferred'),
    Mutant('deferred-true-by-default', PRB, '                    return True\n            return False',
           '                    return True\n            return True', 'C19.deferred'),
    # ---- taint
    Mutant('taint-units-literal', PRB, _IN_SET, _IN_SET.replace('set_val(abs_name, val)', "set_val(abs_name, val, units='m')"),
           'C19.taint'),
    Mutant('taint-indices-literal', PRB, _OUT_SET, _OUT_SET.replace('set_val(abs_name, val)', 'set_val(abs_name, val, indices=0)'),
           'C19.taint'),
    Mutant('taint-wrong-table', PRB, 'val = case.inputs[abs_name]', 'val = case.outputs[abs_name]', 'C19.taint'),
    Mutant('taint-form-swapped', PRB,
           "                    if case_is_dict:\n                        val = outputs[name]['val']\n                    else:\n                        val = outputs[name]\n",
           "                    if not case_is_dict:\n                        val = outputs[name]['val']\n                    else:\n                        val = outputs[name]\n",
           'C19.taint'),
    Mutant('taint-dict-entry-stored', PRB, "val = inputs[abs_name]['val']", 'val = inputs[abs_name]', 'C19.taint'),
    Mutant('taint-scatter-wrong-io', PRB, "sizes = model._var_sizes['input'][:, abs2idx[abs_name]]",
           "sizes = model._var_sizes['output'][:, abs2idx[abs_name]]", 'C19.taint'),
    Mutant('taint-scatter-wrong-var', PRB, "sizes = model._var_sizes['output'][:, abs2idx[abs_name]]",
           "sizes = model._var_sizes['output'][:, abs2idx[name]]", 'C19.taint'),
    Mutant('taint-args-swapped', PRB, _IN_SET, _IN_SET.replace('set_val(abs_name, val)', 'set_val(val, abs_name)'),
           'C19.taint'),
    # ---- keyspace
    Mutant('keyspace-outputs-gate-is-abs', PRB, 'if resolver.is_prom(name):', 'if resolver.is_abs(name):', 'C19.keyspace'),
    Mutant('keyspace-outputs-gate-output-only', PRB, 'if resolver.is_prom(name):', "if resolver.is_prom(name, 'output'):",
           'C19.keyspace'),
    Mutant('keyspace-inputs-gate-negated', PRB, "if resolver.is_abs(abs_name, 'input'):",
           "if not resolver.is_abs(abs_name, 'input'):", 'C19.keyspace'),
    Mutant('keyspace-inputs-gate-wrong-io', PRB, "if resolver.is_abs(abs_name, 'input'):",
           "if resolver.is_abs(abs_name, 'output'):", 'C19.keyspace'),
    Mutant('keyspace-outputs-keyed-abs', CASE,
           '                    else:\n                        super().__setitem__(abs2prom[key], val)\n                elif DERIV_KEY_SEP in key:',
           '                    else:\n                        super().__setitem__(key, val)\n                elif DERIV_KEY_SEP in key:',
           'C19.keyspace', also=[(PRB, '            for name in outputs:\n', '            for name in outputs:\n')]),
    # ---- endpoint
    Mutant('endpoint-source-dropped', PRB, '(resolver.source(name),)', 'resolver.absnames(name)', 'C19.endpoint'),
    Mutant('endpoint-absnames-input', PRB, "abs_names = resolver.absnames(name, 'output')",
           "abs_names = resolver.absnames(name, 'input')", 'C19.endpoint'),
    # ---- finding (b), repaired in /repo: dict-form inputs re-keyed by promoted name (pre-fix shape)
    Mutant('finding-dict-inputs-by-prom', PRB, "                inputs = case['inputs']\n",
           "                inputs = {meta['prom_name']: meta for meta in case['inputs'].values()}\n", 'C19.keyspace'),
    # ---- finding (a), registered as known: the candidate repair (recorded absolute names first) is accepted
    Twin('twin-candidate-repair-relative-names', PRB,
         "                if resolver.is_prom(name):\n                    if case_is_dict:\n                        val = outputs[name]['val']\n",
         "                if case_is_dict:\n                    rec_abs = ()\n                else:\n"
         "                    rec_abs = [n for n in outputs._prom2abs.get(name, ()) if resolver.is_abs(n, 'output')]\n\n"
         "                if rec_abs or resolver.is_prom(name):\n                    if case_is_dict:\n                        val = outputs[name]['val']\n",
         also=[(PRB, "                    if resolver.is_prom(name, 'output'):\n                        abs_names = resolver.absnames(name, 'output')\n",
                "                    if rec_abs:\n                        abs_names = rec_abs\n"
                "                    elif resolver.is_prom(name, 'output'):\n                        abs_names = resolver.absnames(name, 'output')\n")]),
    # ---- the two findings of this module, as seen from the repaired shape
    Mutant('finding-outputs-through-inputs', PRB, _FAN_FIXED, _FAN, 'C19.endpoint'),
    Mutant('finding-inputs-keyspace', PRB, _IN_HDR_FIXED, _IN_HDR, 'C19.keyspace'),
    *_shape_items(),
    # ---- values
    Mutant('values-seed-rekey-to-promoted', CASE,
           "            for key, val in values.items():\n                if key in abs2prom:\n",
           "            for key, val in values.items():\n                if abs2prom.get(key) in prom2abs:\n"
           "                    # use promoted name so all connected absolute names are populated\n"
           "                    key = abs2prom[key]\n\n                if key in abs2prom:\n", 'C19.values'),
    Mutant('values-abs-store-dropped', CASE,
           "                    # key is absolute name\n                    self._values[key] = val\n", "                    # key is absolute name\n",
           'C19.values'),
    Mutant('values-abs-filed-under-prom', CASE,
           "                    # key is absolute name\n                    self._values[key] = val\n",
           "                    # key is absolute name\n                    key = abs2prom[key]\n                    self._values[key] = val\n",
           'C19.values'),
    Mutant('values-getitem-wrong-slot', CASE,
           "            # absolute name\n            return self._values[key]\n",
           "            # absolute name\n            return super().__getitem__(self._abs2prom[key])\n", 'C19.values'),
    Twin('twin-values-temp-prom', CASE,
         "                    self._values[key] = val\n                    super().__setitem__(abs2prom[key], val)\n",
         "                    prom = abs2prom[key]\n                    self._values[key] = val\n                    super().__setitem__(prom, val)\n"),
    Twin('twin-values-reordered', CASE,
         "                    self._values[key] = val\n                    super().__setitem__(abs2prom[key], val)\n",
         "                    super().__setitem__(abs2prom[key], val)\n                    self._values[key] = val\n"),
    # ---- refactored shapes: accepted (twins) and still guarded (mutants of the refactored text)
    Twin('twin-inputs-early-continue-ifexp-temp', PRB, _IN_BLOCK, _IN_EARLY),
    Twin('twin-outputs-early-continue-unwrap-positive-defer', PRB, _OUT_BLOCK, _OUT_EARLY),
    Twin('twin-overrides-dictcomp', PRB, _OVR_LOOP, _OVR_COMP),
    Twin('twin-set-later-any', PRB, _LATER_LOOP, _LATER_ANY),
    Twin('twin-final-temp-receiver', PRB, _FINAL, _FINAL_TEMP),
    Twin('twin-dict-default-then-override', PRB,
         "            if 'inputs' in case:\n                inputs = case['inputs']\n            else:\n                inputs = None\n",
         "            inputs = None\n            if 'inputs' in case:\n                inputs = case['inputs']\n"),
    Mutant('refactored-any-without-dot', PRB, _LATER_LOOP, _LATER_ANY.replace("pathname + '.'", 'pathname'), 'C19.deferred'),
    Mutant('refactored-any-swapped', PRB, _LATER_LOOP,
           "            return any(pathname.startswith(var_name + '.') for pathname in system_overrides)\n", 'C19.deferred'),
    Mutant('refactored-dictcomp-key-by-name', PRB, _OVR_LOOP, _OVR_COMP.replace('subsys.pathname: subsys', 'subsys.name: subsys'),
           'C19.deferred'),
    Mutant('refactored-final-temp-wrong-case', PRB, _FINAL, _FINAL_TEMP.replace('load_case(case)', 'load_case(inputs)'),
           'C19.deferred'),
    Mutant('refactored-positive-defer-inverted', PRB, _OUT_BLOCK, _OUT_EARLY.replace('if not set_later(abs_name):', 'if set_later(abs_name):'),
           'C19.nodrop'),
    Mutant('refactored-early-continue-no-warning-gate', PRB, _OUT_BLOCK,
           _OUT_EARLY.replace("                if not resolver.is_prom(name):\n", "                if not resolver.is_prom(name, 'output'):\n", 1),
           'C19.keyspace'),
    Mutant('refactored-ifexp-forms-swapped', PRB, _IN_BLOCK,
           _IN_EARLY.replace("inputs[abs_name]['val'] if case_is_dict else case.inputs[abs_name]",
                             "inputs[abs_name] if case_is_dict else case.inputs[abs_name]['val']"), 'C19.taint'),
    Mutant('refactored-ifexp-wrong-table', PRB, _IN_BLOCK,
           _IN_EARLY.replace("else case.inputs[abs_name]", "else case.outputs[abs_name]"), 'C19.taint'),
    Mutant('refactored-unwrap-in-case-mode', PRB, _OUT_BLOCK,
           _OUT_EARLY.replace("                if case_is_dict:\n                    val = val['val']", "                if not case_is_dict:\n                    val = val['val']"),
           'C19.taint'),
    Mutant('refactored-unwrap-dropped', PRB, _OUT_BLOCK,
           _OUT_EARLY.replace("                if case_is_dict:\n                    val = val['val']\n", ""), 'C19.taint'),
    Mutant('refactored-branches-swapped-wrongly', PRB, _OUT_BLOCK,
           _OUT_EARLY.replace("if not resolver.is_prom(name, 'output'):", "if resolver.is_prom(name, 'output'):"),
           'C19.endpoint'),
    # ---- second robustness round: accepted shapes and breaking variants inside them
    Twin('twin-norm-inverted-ifexp-fill-loop', PRB, _NORM, _NORM_ALT),
    Mutant('norm-alt-outputs-guard-not-inverted', PRB, _NORM, _NORM_ALT.replace("if 'outputs' not in case:", "if 'outputs' in case:"),
           'C19.nodrop'),
    Mutant('norm-alt-inputs-under-outputs-entry', PRB, _NORM,
           _NORM_ALT.replace("case['inputs'] if 'inputs' in case else None", "case['inputs'] if 'outputs' in case else None"),
           'C19.nodrop'),
    Mutant('norm-alt-ifexp-branches-swapped', PRB, _NORM,
           _NORM_ALT.replace("case['inputs'] if 'inputs' in case else None", "None if 'inputs' in case else case['inputs']"),
           'C19.nodrop'),
    Twin('twin-inputs-temp-iterable-merged-store', PRB, _IN_BLOCK, _IN_TEMP_ITER),
    Mutant('temp-iterable-modes-swapped', PRB, _IN_BLOCK,
           _IN_TEMP_ITER.replace("                input_names = inputs\n            else:\n                input_names = inputs.absolute_names()\n",
                                 "                input_names = inputs.absolute_names()\n            else:\n                input_names = inputs\n"),
           'C19.keyspace'),
    Mutant('merged-store-only-in-parallel', PRB, _IN_BLOCK,
           _IN_TEMP_ITER.replace("\n                model.set_val(abs_in, val)\n", "\n                    model.set_val(abs_in, val)\n"),
           'C19.nodrop'),
    Mutant('merged-store-scatter-wrong-io', PRB, _IN_BLOCK,
           _IN_TEMP_ITER.replace("model._var_sizes['input'][:, abs2idx[abs_in]]", "model._var_sizes['output'][:, abs2idx[abs_in]]"),
           'C19.taint'),
    Mutant('merged-store-ifexp-forms-swapped', PRB, _IN_BLOCK,
           _IN_TEMP_ITER.replace("inputs[abs_in]['val'] if case_is_dict else case.inputs[abs_in]",
                                 "inputs[abs_in] if case_is_dict else case.inputs[abs_in]['val']"), 'C19.taint'),
    Twin('twin-outputs-temp-value-negated-dist-guard', PRB, _OUT_BLOCK, _OUT_TEMP_VAL),
    Mutant('temp-value-forms-swapped', PRB, _OUT_BLOCK,
           _OUT_TEMP_VAL.replace("recorded['val'] if case_is_dict else recorded", "recorded if case_is_dict else recorded['val']"),
           'C19.taint'),
    Mutant('temp-value-wrong-table', PRB, _OUT_BLOCK,
           _OUT_TEMP_VAL.replace("recorded = outputs[name]", "recorded = inputs[name]"), 'C19.taint'),
    # ---- fourth robustness round: store extracted into a local helper
    Twin('twin-outputs-store-helper', PRB, _OUT_BLOCK, _OUT_HELPER),
    Mutant('helper-scatter-wrong-io', PRB, _OUT_BLOCK, _OUT_HELPER.replace("_var_sizes['output']", "_var_sizes['input']"), 'C19.taint'),
    Mutant('helper-stores-only-distributed', PRB, _OUT_BLOCK,
           _OUT_HELPER.replace("                else:\n                    model.set_val(abs_out, val)\n", "                else:\n                    pass\n"),
           'C19.nodrop'),
    Mutant('helper-call-args-swapped', PRB, _OUT_BLOCK, _OUT_HELPER.replace('set_output(abs_name, val)', 'set_output(val, abs_name)'),
           'C19.taint'),
    Mutant('helper-call-autoivc-through-inputs', PRB, _OUT_BLOCK,
           _OUT_HELPER.replace('abs_names = (resolver.source(name),)', "abs_names = resolver.absnames(name, 'input')"), 'C19.endpoint'),
    Mutant('helper-call-defer-inverted', PRB, _OUT_BLOCK, _OUT_HELPER.replace('if not set_later(abs_name):', 'if set_later(abs_name):'),
           'C19.nodrop'),
    # ---- twins
    Twin('twin-sorted-dict', PRB, 'for sys_name in sorted(system_overrides.keys()):', 'for sys_name in sorted(system_overrides):'),
    Twin('twin-items', PRB, _FINAL, '        for sys_name, sub in sorted(system_overrides.items()):\n            sub.load_case(case)\n'),
    Twin('twin-fstring-prefix', PRB, "if var_name.startswith(pathname + '.'):", "if var_name.startswith(f'{pathname}.'):"),
    Twin('twin-keys-view', PRB, '            for name in outputs:', '            for name in outputs.keys():'),
)
