"""C21 -- optimizer success implies a feasible reported design (ScipyOptimizeDriver).

What scipy is told about each constraint element is a finite decision structure: which objects are
emitted per element (old style: dictionaries with args [name, dbl, j]; new style: NonlinearConstraint /
LinearConstraint with lb/ub), which form the callback returns for those args, and which sign its
jacobian has.  The rules extract these from the AST, assign *roles* (lower / upper / equals bound of
element j, current constraint value) to expressions through reaching definitions and the autoscaler's
three-slot protocol, and decide the clauses by exhaustive evaluation over the abstract states
U (upper finite) x L (lower finite) x E (equality).
"""
import ast

from .. import astx, cfg as cfgm
from ..core import AnalysisError
from ..engine import rule, describe, selftest, Mutant, Twin

SCIPY = 'openmdao/drivers/scipy_optimizer.py'
AUTO = 'openmdao/drivers/autoscalers/autoscaler.py'
DRIVER = 'openmdao/core/driver.py'
DRV = 'ScipyOptimizeDriver'

describe('C21',
         'Decides for ScipyOptimizeDriver, from the source only: (loopdef) no per-element bound read '
         '`v[j]` sees a loop-carried `v = v[...]` rebinding; (emit) every constraint object built for an '
         'element / a constraint is appended to the list handed to scipy in the same iteration and the '
         'element loops run over range(size); (cover) by truth table over U x L x E: an equality element is '
         "emitted as type 'eq' returning value - equals, a finite upper bound has an emitted call in the "
         'form upper - value and a finite lower bound one in the form value - lower, all on element idx of '
         'constraint name; (sign) the jacobian callback of every emitted constraint has the sign of its '
         'value callback in every state; (newbounds) new-style lb/ub are the lower/upper (or equals) bound '
         'of element j, clamped with maximum(-INF)/minimum(+INF); (linear) bounds given to LinearConstraint '
         'account for the affine offset of the constraint; (cache) _objfunc sets the design, runs the '
         'model and then refreshes _con_cache with driver-scaled values, frozen writer table; (slots) the '
         '(lower, upper, equals) slot protocol of Autoscaler.get_bounds_scaling is consistent from '
         '_compute_scaled_bounds to the return; (index) _con_idx bookkeeping; (status) success is reported '
         'only from scipy\'s own flag after swallowed callback exceptions were re-raised.  Does not decide '
         'the arithmetic of _scale_bound, what scipy does with the constraints, or in which order scipy '
         'calls objective and constraint callbacks.',
         ['scipy calls the objective before the constraint callbacks at every new point, except for the '
          "optimizers listed in _con_val_func (not decidable from the source; observed to be false for "
          "'trust-constr' with scipy 1.18: /tmp/c21/demo_c21_stale_cache.py)", "add_constraint rejects equals together with lower/upper, so E implies not U "
          'and not L', 'scalers are positive (C20 note)', 'exactly one objective (row 0 of the gradient cache)'])


# =============================================================================== infrastructure
class Fn:
    """A function with its CFG and reaching definitions."""

    def __init__(self, fn):
        self.fn = fn
        self.g = cfgm.build(fn)
        self.rd = cfgm.ReachingDefs(self.g)
        a = fn.node.args
        self.params = [x.arg for x in a.posonlyargs + a.args]
        self.name_var = None   # local holding the constraint name
        self.idx_var = None    # local holding the element index
        self.dbl_var = None    # local holding the `dbl` flag (callbacks)
        self.meta_vars = set()
        self.slots = None
        self.problems = []     # per-element decisions taken from another element (filled by atom())
        self.param_roles = {}  # helper methods: parameter -> roles of the argument at the (single) call site
        self.param_consts = {}  # helper methods: parameter -> literal passed
        self.cache_params = set()  # helper methods: parameters that receive self._con_cache
        self.param_exprs = {}   # builder helpers: parameter -> (caller Fn, argument expr, caller node)
        self.scope_map = {}     # builder helpers: caller scope 'elem:j' -> scope in terms of the helper's parameter

    def at(self, node):
        st = node if isinstance(node, ast.stmt) else astx.stmt_of(node)
        ns = self.g.nodes_of(st)
        if not ns:
            raise AnalysisError(f'{self.fn.ident}: statement not in the CFG: {astx.src(st)}')
        return ns[0]

    def describe_defs(self, at, name):
        """[(kind, payload, defnode)] for every definition of local *name* reaching *at*."""
        out = []
        for d in self.rd.defs(at, name):
            if d is self.g.entry:
                out.append(('param', name, d))
            elif d.kind == 'iter':
                tg = d.ast.target
                if isinstance(tg, ast.Name):
                    out.append(('loopvar', None, d))
                elif isinstance(tg, ast.Tuple):
                    ids = [astx.path(e) for e in tg.elts]
                    out.append(('looptuple', ids.index(name) if name in ids else None, d))
                else:
                    out.append(('other', None, d))
            elif d.kind == 'stmt' and isinstance(d.ast, ast.Assign):
                found = None
                for t in d.ast.targets:
                    if astx.path(t) == name:
                        found = ('expr', d.ast.value, d)
                    elif isinstance(t, (ast.Tuple, ast.List)):
                        ids = [astx.path(e) for e in t.elts]
                        if name in ids:
                            found = ('slot', (ids.index(name), len(ids), d.ast.value), d)
                out.append(found or ('other', None, d))
            else:
                out.append(('other', None, d))
        return out

    def value_of(self, at, name):
        """(expr, defnode) of the unique plain assignment reaching *at*, else (None, None)."""
        ds = self.describe_defs(at, name)
        if len(ds) == 1 and ds[0][0] == 'expr':
            return ds[0][1], ds[0][2]
        return None, None


def guards(stmt, stop):
    """[(test, polarity)] of the `if`s enclosing *stmt* below the statement *stop*."""
    out = []
    cur = stmt
    while True:
        par = getattr(cur, '_parent', None)
        if par is None or par is stop:
            break
        if isinstance(par, ast.If):
            if cur in par.body:
                out.append((par.test, True, par))
            elif cur in par.orelse:
                out.append((par.test, False, par))
        cur = par
    return out[::-1]


# --------------------------------------------------------------------------- three-valued logic
def ev3(e, atom):
    """Kleene evaluation of a condition; atom(expr) -> True / False / None."""
    if isinstance(e, ast.BoolOp):
        vals = [ev3(v, atom) for v in e.values]
        if isinstance(e.op, ast.And):
            if any(v is False for v in vals):
                return False
            return True if all(v is True for v in vals) else None
        if any(v is True for v in vals):
            return True
        return False if all(v is False for v in vals) else None
    if isinstance(e, ast.UnaryOp) and isinstance(e.op, ast.Not):
        v = ev3(e.operand, atom)
        return None if v is None else (not v)
    if isinstance(e, ast.Constant):
        return bool(e.value)
    return atom(e)


def sentinel(e):
    """+1 for INF_BOUND, -1 for -INF_BOUND, else None."""
    if isinstance(e, ast.Name) and e.id == 'INF_BOUND':
        return 1
    if isinstance(e, ast.UnaryOp) and isinstance(e.op, ast.USub):
        s = sentinel(e.operand)
        return None if s is None else -s
    return None


_OPS = {ast.Lt: '<', ast.LtE: '<=', ast.Gt: '>', ast.GtE: '>=', ast.Eq: '==', ast.NotEq: '!='}
_SWAP = {'<': '>', '<=': '>=', '>': '<', '>=': '<=', '==': '==', '!=': '!='}


def cmp_sentinel(kind, op, sign, st):
    """Truth value of `<bound of kind> op <sign*INF_BOUND>` in abstract state st (or None)."""
    if kind == 'upper':
        if sign > 0:
            return {'<': st['U'], '!=': st['U'], '>=': not st['U'], '==': not st['U'],
                    '<=': True, '>': False}[op]
        return op in ('>', '>=', '!=')
    if kind == 'lower':
        if sign < 0:
            return {'>': st['L'], '!=': st['L'], '<=': not st['L'], '==': not st['L'],
                    '>=': True, '<': False}[op]
        return op in ('<', '<=', '!=')
    return None


# --------------------------------------------------------------------------- roles
UNKNOWN = ('?', '?')
RAW = '!raw'   # suffix of a role kind read from the metadata (model units, scalar or array)


def base(kind):
    return kind.split('!')[0]


def is_isinstance_ndarray(test, name):
    return isinstance(test, ast.Call) and astx.call_name(test) == 'isinstance' and len(test.args) == 2 and \
        isinstance(test.args[0], ast.Name) and test.args[0].id == name and \
        astx.path(test.args[1]) in ('np.ndarray', 'numpy.ndarray', 'ndarray')


def is_meta(F, e, at):
    """Is *e* the metadata dict of the current constraint (loop variable or self._cons[name])?"""
    if isinstance(e, ast.Subscript) and astx.path(e.value) == 'self._cons' and \
            isinstance(e.slice, ast.Name) and e.slice.id == F.name_var:
        return True
    if isinstance(e, ast.Name):
        ds = F.describe_defs(at, e.id)
        if len(ds) != 1:
            return False
        k, p, d = ds[0]
        if k == 'looptuple' and p == 1 and _is_cons_items(d.ast.iter):
            return True
        if k == 'expr':
            return is_meta(F, p, d)
    return False


def _is_cons_items(it):
    return isinstance(it, ast.Call) and astx.callee_attr(it) == 'items' and \
        astx.path(astx.receiver(it)) == 'self._cons'


def roles(F, e, at, st=None, depth=0):
    """Set of (kind, scope) the expression may denote.

    kind: lower / upper / equals / none ; scope: container (per-name vector), whole (all elements of
    this constraint), elem:<index name>.  With an abstract state, definitions and branches whose guard
    is false in that state are pruned.
    """
    if depth > 10:
        return {UNKNOWN}
    if isinstance(e, ast.Constant) and e.value is None:
        return {('none', 'whole')}
    if isinstance(e, ast.IfExp):
        if isinstance(e.body, ast.Subscript) and isinstance(e.body.value, ast.Name) and \
                isinstance(e.orelse, ast.Name) and e.orelse.id == e.body.value.id and \
                is_isinstance_ndarray(e.test, e.orelse.id) and isinstance(e.body.slice, (ast.Name, ast.Constant)):
            whole = roles(F, e.orelse, at, st, depth + 1)
            sc = 'elem:' + e.body.slice.id if isinstance(e.body.slice, ast.Name) else f'elem#{e.body.slice.value!r}'
            return {(k, sc) if s == 'whole' else UNKNOWN for k, s in whole}
        v = ev3(e.test, lambda a: atom(F, a, at, st)) if st is not None else None
        out = set()
        if v is not False:
            out |= roles(F, e.body, at, st, depth + 1)
        if v is not True:
            out |= roles(F, e.orelse, at, st, depth + 1)
        return out
    if isinstance(e, ast.Name):
        ds = F.describe_defs(at, e.id)
        if not ds:
            return {UNKNOWN}
        if len(ds) == 1 and ds[0][0] == 'param' and e.id in F.param_roles:
            return set(F.param_roles[e.id])
        if len(ds) == 1 and ds[0][0] == 'param' and e.id in F.param_exprs:
            cF, ce, cat = F.param_exprs[e.id]
            return {(k, F.scope_map.get(sc, sc)) for k, sc in roles(cF, ce, cat, st, depth + 1)}
        # `v = <whole>` followed by `if isinstance(v, np.ndarray): v = v[i]`
        selfsub = [x for x in ds if x[0] == 'expr' and isinstance(x[1], ast.Subscript) and
                   isinstance(x[1].value, ast.Name) and x[1].value.id == e.id]
        if selfsub:
            rest = [x for x in ds if x not in selfsub]
            ok = rest and all(
                isinstance(x[1].slice, ast.Name) and isinstance(x[2].ast._parent, ast.If) and
                x[2].ast in x[2].ast._parent.body and not x[2].ast._parent.orelse and
                is_isinstance_ndarray(x[2].ast._parent.test, e.id) for x in selfsub)
            idxs = {x[1].slice.id for x in selfsub if isinstance(x[1].slice, ast.Name)}
            if not ok or len(idxs) != 1:
                return {UNKNOWN}
            out = set()
            for k, p, d in rest:
                if k != 'expr':
                    return {UNKNOWN}
                for kk, s in roles(F, p, d, st, depth + 1):
                    out.add((kk, 'elem:' + next(iter(idxs))) if s == 'whole' else UNKNOWN)
            return out
        out = set()
        for k, p, d in ds:
            if st is not None and d.kind == 'stmt':
                c = cond3(F, d.ast, st)
                if c is False:
                    continue
            if k == 'expr':
                out |= roles(F, p, d, st, depth + 1)
            elif k == 'slot' and _tuple_elts(F, p[2], p[1], d, st) is not None:
                for el in _tuple_elts(F, p[2], p[1], d, st):
                    out |= roles(F, el[p[0]], d, st, depth + 1)
            elif k == 'slot':
                i, n, call = p
                if isinstance(call, ast.Name):       # the tuple went through a local first
                    v2, d2 = F.value_of(d, call.id)
                    call = v2 if v2 is not None else call
                if n == 3 and isinstance(call, ast.Call) and astx.callee_attr(call) == 'get_bounds_scaling' \
                        and astx.path(astx.receiver(call)) == 'self._autoscaler' and call.args and \
                        astx.const_str(call.args[0]) == 'constraint' and F.slots:
                    out.add((F.slots[i], 'container'))
                else:
                    out.add(UNKNOWN)
            else:
                out.add(UNKNOWN)
        return out or {UNKNOWN}
    if isinstance(e, ast.Subscript):
        key = astx.const_str(e.slice)
        if key in ('lower', 'upper', 'equals') and is_meta(F, e.value, at):
            return {(key + RAW, 'whole')}    # model units: fine for finiteness tests, not for arithmetic
        tup = e.value
        if isinstance(tup, ast.Name):
            v, d = F.value_of(at, tup.id)
            tup = v if v is not None else tup
        if _is_bounds_call(tup) and isinstance(e.slice, ast.Constant) and isinstance(e.slice.value, int) and F.slots:
            i = e.slice.value
            return {(F.slots[i], 'container')} if -3 <= i < 3 else {UNKNOWN}
        base = roles(F, e.value, at, st, depth + 1)
        out = set()
        for k, s in base:
            if s == 'container' and isinstance(e.slice, ast.Name) and e.slice.id == F.name_var:
                out.add((k, 'whole'))
            elif s == 'whole' and k != 'none' and isinstance(e.slice, ast.Name):
                out.add((k, 'elem:' + e.slice.id))
            elif s == 'whole' and k != 'none' and isinstance(e.slice, ast.Constant):
                out.add((k, f'elem#{e.slice.value!r}'))
            else:
                out.add(UNKNOWN)
        return out
    return {UNKNOWN}


def _is_bounds_call(call):
    return isinstance(call, ast.Call) and astx.callee_attr(call) == 'get_bounds_scaling' and \
        astx.path(astx.receiver(call)) == 'self._autoscaler' and bool(call.args) and \
        astx.const_str(call.args[0]) == 'constraint'


def _tuple_elts(F, v, n, at, st):
    """Candidate element lists of a tuple-valued expression of length n: `(a, b)` or `(a, b) if c else (d, e)`."""
    if isinstance(v, (ast.Tuple, ast.List)) and len(v.elts) == n:
        return [v.elts]
    if isinstance(v, ast.IfExp):
        c = ev3(v.test, lambda a: atom(F, a, at, st)) if st is not None else None
        a = _tuple_elts(F, v.body, n, at, st) if c is not False else []
        b = _tuple_elts(F, v.orelse, n, at, st) if c is not True else []
        if a is None or b is None:
            return None
        return a + b
    return None


def one_role(F, e, at, st=None):
    r = roles(F, e, at, st)
    return next(iter(r)) if len(r) == 1 else UNKNOWN


def cond3(F, stmt, st, stop=None):
    """Three-valued path condition of a statement (conjunction of its enclosing `if` guards)."""
    res = True
    for test, pol, ifn in guards(stmt, stop if stop is not None else F.fn.node):
        v = ev3(test, lambda a, n=ifn: atom(F, a, F.at(n), st))
        if v is None:
            res = None if res is not False else False
            continue
        if v != pol:
            return False
    return res


def nullness(F, e, at, st):
    """True: e is None in state st; False: it is not; None: unknown."""
    if isinstance(e, ast.Subscript) and astx.const_str(e.slice) == 'equals' and is_meta(F, e.value, at):
        return not st['E']
    r = roles(F, e, at, st)
    if UNKNOWN in r:
        return None
    kinds = {base(k) for k, _ in r}
    if kinds == {'none'}:
        return True
    if 'none' not in kinds:
        return False
    return None


def atom(F, e, at, st):
    """Truth value of an atomic condition in abstract state st, or None."""
    if st is None:
        return None
    if isinstance(e, ast.Name):
        ds = F.describe_defs(at, e.id)
        if len(ds) == 1 and ds[0][0] == 'param' and e.id == F.dbl_var:
            return st.get('dbl')
        if len(ds) == 1 and ds[0][0] == 'param' and e.id in F.param_consts:
            return bool(F.param_consts[e.id])
        if len(ds) == 1 and ds[0][0] == 'expr':
            return ev3(ds[0][1], lambda a: atom(F, a, ds[0][2], st))
        return None
    if isinstance(e, ast.Compare) and len(e.ops) == 1:
        left, right, op = e.left, e.comparators[0], e.ops[0]
        if isinstance(op, (ast.Is, ast.IsNot)):
            if isinstance(left, ast.Constant) and left.value is None:
                left, right = right, left
            if isinstance(right, ast.Constant) and right.value is None:
                v = nullness(F, left, at, st)
                if v is None:
                    return None
                return v if isinstance(op, ast.Is) else (not v)
            return None
        if type(op) not in _OPS:
            return None
        o = _OPS[type(op)]
        sl, sr = sentinel(left), sentinel(right)
        if sl is not None and sr is None:
            left, right, o, sr = right, left, _SWAP[o], sl
        if sr is None:
            return None
        k, s = one_role(F, left, at, st)
        if s == 'elem:' + str(F.idx_var):
            return cmp_sentinel(base(k), o, sr, st)
        if base(k) in ('lower', 'upper') and s.startswith('elem') and F.idx_var is not None:
            F.problems.append((e, f'`{astx.src(e)}` tests the {base(k)} bound of {s.replace("elem:", "element ").replace("elem#", "element ")}'
                               f', not of element {F.idx_var}'))
        return None
    if isinstance(e, ast.Call):
        red = reduction(e)
        if red is not None and 'others' in st:
            how, inner = red
            mine = elem3(F, inner, at, st)
            rest = [elem3(F, inner, at, dict(st, U=u, L=l)) for u, l in st['others']]
            vals = [mine] + rest
            if how == 'all':
                if any(v is False for v in vals):
                    return False
                return True if all(v is True for v in vals) else None
            if any(v is True for v in vals):
                return True
            return False if all(v is False for v in vals) else None
        return None
    if isinstance(e, ast.Subscript) and isinstance(e.value, ast.Name) and F.idx_var is not None:
        v, d = F.value_of(at, e.value.id)
        if v is not None and elem3(F, v, d, st) is not None:
            if isinstance(e.slice, ast.Name) and e.slice.id == F.idx_var:
                return elem3(F, v, d, st)
            F.problems.append((e, f'`{astx.src(e)}` reads the per-element decision of element '
                               f'`{astx.src(e.slice)}`, not of element {F.idx_var}'))
    return None


def reduction(call):
    """('all' | 'any', array expr) for X.all(), X.any(), np.all(X), np.any(X), all(X), any(X)."""
    nm = astx.callee_attr(call)
    if nm not in ('all', 'any') or call.keywords:
        return None
    if isinstance(call.func, ast.Attribute) and astx.path(call.func.value) in ('np', 'numpy') and len(call.args) == 1:
        return nm, call.args[0]
    if isinstance(call.func, ast.Name) and len(call.args) == 1:
        return nm, call.args[0]
    if isinstance(call.func, ast.Attribute) and not call.args:
        return nm, call.func.value
    return None


def elem3(F, e, at, st, depth=0):
    """Per-element three-valued value of a boolean *array* expression over whole bound vectors."""
    if depth > 6:
        return None
    if isinstance(e, ast.BinOp) and isinstance(e.op, (ast.BitAnd, ast.BitOr)):
        a, b = elem3(F, e.left, at, st, depth + 1), elem3(F, e.right, at, st, depth + 1)
        if isinstance(e.op, ast.BitAnd):
            return False if (a is False or b is False) else (True if (a and b) else None)
        return True if (a is True or b is True) else (False if (a is False and b is False) else None)
    if isinstance(e, ast.UnaryOp) and isinstance(e.op, ast.Invert):
        v = elem3(F, e.operand, at, st, depth + 1)
        return None if v is None else (not v)
    if isinstance(e, ast.Call) and astx.callee_attr(e) in ('logical_and', 'logical_or', 'logical_not'):
        vs = [elem3(F, a, at, st, depth + 1) for a in e.args]
        nm = astx.callee_attr(e)
        if nm == 'logical_not' and len(vs) == 1:
            return None if vs[0] is None else (not vs[0])
        if len(vs) == 2 and nm == 'logical_and':
            return False if False in vs else (True if all(v is True for v in vs) else None)
        if len(vs) == 2:
            return True if True in vs else (False if all(v is False for v in vs) else None)
        return None
    if isinstance(e, ast.Name):
        v, d = F.value_of(at, e.id)
        return None if v is None else elem3(F, v, d, st, depth + 1)
    if isinstance(e, ast.Compare) and len(e.ops) == 1 and type(e.ops[0]) in _OPS:
        left, right, o = e.left, e.comparators[0], _OPS[type(e.ops[0])]
        sl, sr = sentinel(left), sentinel(right)
        if sl is not None and sr is None:
            left, right, o, sr = right, left, _SWAP[o], sl
        if sr is None:
            return None
        k, s = one_role(F, left, at, st)
        if s == 'whole' and base(k) in ('lower', 'upper'):
            return cmp_sentinel(base(k), o, sr, st)
    return None


STATES = [dict(U=True, L=False, E=False), dict(U=False, L=True, E=False), dict(U=True, L=True, E=False),
          dict(U=False, L=False, E=False), dict(U=False, L=False, E=True)]


_TYPES = [(True, True), (True, False), (False, True), (False, False)]


def ext_states(st):
    """The state of element j combined with every set of (U, L) types among the *other* elements."""
    if st['E']:
        return [dict(st, others=()), dict(st, others=((False, False),))]
    out = []
    for m in range(16):
        out.append(dict(st, others=tuple(t for i, t in enumerate(_TYPES) if m >> i & 1)))
    return out


def fmt_state(st):
    def f(k, v):
        if k == 'others':
            return 'other elements (U,L) in ' + (str([(int(a), int(b)) for a, b in v]) if v else '[]')
        return f'{k}={int(v) if isinstance(v, bool) else v}'
    return '{' + ', '.join(f(k, v) for k, v in st.items()) + '}'


# --------------------------------------------------------------------------- producer slot protocol
def producer_slots(repo, out=None):
    """Order of (lower, upper, equals) in the tuple returned by Autoscaler.get_bounds_scaling.

    Derived through setup()'s tuple assignment and _compute_scaled_bounds' return and data arrays;
    with *out* given, the chain is reported (rule C21.slots).
    """
    gb = repo.func(AUTO, 'Autoscaler.get_bounds_scaling')
    rets = [s for s in astx.walk_stmts(gb.node.body) if isinstance(s, ast.Return)]
    if len(rets) != 1 or not isinstance(rets[0].value, ast.Tuple) or len(rets[0].value.elts) != 3:
        raise AnalysisError('get_bounds_scaling: expected one `return (a, b, c)`')
    ret_attrs = []
    for el in rets[0].value.elts:
        if not (isinstance(el, ast.Subscript) and isinstance(el.value, ast.Attribute) and
                astx.path(el.value.value) == 'self' and isinstance(el.slice, ast.Name)):
            raise AnalysisError(f'get_bounds_scaling: unrecognised slot {astx.src(el)}')
        ret_attrs.append(el.value.attr)
    su = repo.func(AUTO, 'Autoscaler.setup')
    set_attrs = None
    for s in astx.walk_stmts(su.node.body):
        if isinstance(s, ast.Assign) and isinstance(s.value, ast.Call) and \
                astx.call_name(s.value) == 'self._compute_scaled_bounds' and \
                isinstance(s.targets[0], ast.Tuple) and len(s.targets[0].elts) == 3:
            set_attrs = []
            for el in s.targets[0].elts:
                if not (isinstance(el, ast.Subscript) and isinstance(el.value, ast.Attribute)):
                    raise AnalysisError(f'setup: unrecognised slot target {astx.src(el)}')
                set_attrs.append(el.value.attr)
            set_stmt = s
    if set_attrs is None:
        raise AnalysisError('Autoscaler.setup: tuple assignment from _compute_scaled_bounds not found')
    cs = repo.func(AUTO, 'Autoscaler._compute_scaled_bounds')
    C = Fn(cs)
    crets = [s for s in astx.walk_stmts(cs.node.body) if isinstance(s, ast.Return)]
    if len(crets) != 1 or not isinstance(crets[0].value, ast.Tuple) or len(crets[0].value.elts) != 3:
        raise AnalysisError('_compute_scaled_bounds: expected one `return a, b, c`')
    # data array -> (key, is_lower, default sentinel, statement)
    data = {}
    problems = []
    for s in astx.walk_stmts(cs.node.body):
        if isinstance(s, ast.Assign) and len(s.targets) == 1 and isinstance(s.targets[0], ast.Subscript) \
                and isinstance(s.targets[0].value, ast.Name) and isinstance(s.value, ast.Call) and \
                astx.call_name(s.value) == 'self._scale_bound':
            arr = s.targets[0].value.id
            src = astx.arg(s.value, 0, 'val')
            at = C.at(s)
            if isinstance(src, ast.Name):
                v, d = C.value_of(at, src.id)
                if v is not None:
                    src, at = v, d
            key = dflt = None
            if isinstance(src, ast.Call) and astx.callee_attr(src) == 'get' and src.args and \
                    isinstance(astx.receiver(src), ast.Name):
                key = astx.const_str(src.args[0])
                if len(src.args) > 1:
                    dflt = sentinel(src.args[1])
            elif isinstance(src, ast.Subscript):
                key = astx.const_str(src.slice)
            isl = astx.arg(s.value, 4, 'is_lower')
            isl = isl.value if isinstance(isl, ast.Constant) and isinstance(isl.value, bool) else None
            if key is None or isl is None:
                raise AnalysisError(f'_compute_scaled_bounds: unrecognised fill {astx.src(s)}')
            if arr in data:
                problems.append((s, f'{arr} is filled twice'))
            data[arr] = (key, isl, dflt, s)
    keys_by_pos = []
    for el in crets[0].value.elts:
        if not isinstance(el, ast.Name):
            raise AnalysisError('_compute_scaled_bounds: return slot is not a local')
        v, d = C.value_of(C.at(crets[0]), el.id)
        if isinstance(v, ast.IfExp):
            v = v.body
        if not (isinstance(v, ast.Call) and astx.callee_attr(v) == 'OptimizerVector' and len(v.args) >= 2
                and isinstance(v.args[1], ast.Name) and v.args[1].id in data):
            raise AnalysisError(f'_compute_scaled_bounds: cannot trace return slot {el.id}')
        keys_by_pos.append(data[v.args[1].id])
    slots = []
    for a in ret_attrs:
        if a not in set_attrs:
            raise AnalysisError(f'get_bounds_scaling returns self.{a} which setup() never fills')
        slots.append(keys_by_pos[set_attrs.index(a)][0])
    if out is not None:
        for s, why in problems:
            out.bad(cs, s, why, key='slot-fill')
        if sorted(slots) != ['equals', 'lower', 'upper']:
            out.bad(gb, rets[0], f'the three slots carry {slots}: one of lower/upper/equals is delivered '
                    'twice and one never reaches the optimizer interface', key='slot-keys')
        for i, (key, isl, dflt, s) in enumerate(keys_by_pos):
            want_lower = key == 'lower'
            want_dflt = {'lower': -1, 'upper': 1}.get(key)
            if isl != want_lower:
                out.bad(cs, s, f"the {key!r} bound is scaled with is_lower={isl}: the wrong infinity sentinel "
                        'is used, so an unbounded side is scaled into a finite bound (or a finite one dropped)',
                        key=f'slot-sentinel-{key}')
            elif dflt is not None and want_dflt is not None and dflt != want_dflt:
                out.bad(cs, s, f"the default of the {key!r} bound has the wrong sign of INF_BOUND",
                        key=f'slot-default-{key}')
            else:
                out.ok(cs, s, f"slot {i}: meta[{key!r}] -> {set_attrs[i]} -> position "
                       f"{ret_attrs.index(set_attrs[i]) if set_attrs[i] in ret_attrs else '?'} of get_bounds_scaling")
        out.ok(su, set_stmt, f'setup fills {set_attrs}, get_bounds_scaling returns {ret_attrs}')
    if sorted(slots) != ['equals', 'lower', 'upper']:
        if out is None:
            raise AnalysisError(f'slot protocol inconsistent: {slots}')
    return slots


# --------------------------------------------------------------------------- anchors in run()
class Run:
    """Structure of ScipyOptimizeDriver.run: constraint loop, element loops, emitted objects."""

    def __init__(self, repo):
        self.repo = repo
        self.fn = repo.func(SCIPY, f'{DRV}.run')
        self.F = F = Fn(self.fn)
        try:
            F.slots = producer_slots(repo)
        except AnalysisError:
            raise
        loops = [s for s in astx.walk_stmts(self.fn.node.body)
                 if isinstance(s, ast.For) and _is_cons_items(s.iter)]
        if len(loops) != 1:
            raise AnalysisError(f'{self.fn.ident}: expected one `for name, meta in self._cons.items()`, '
                                f'found {len(loops)}')
        self.cons_loop = cl = loops[0]
        if not (isinstance(cl.target, ast.Tuple) and len(cl.target.elts) == 2 and
                all(isinstance(e, ast.Name) for e in cl.target.elts)):
            raise AnalysisError('constraint loop target is not `name, meta`')
        F.name_var = cl.target.elts[0].id
        self.meta_var = cl.target.elts[1].id
        self.elem_loops = [s for s in astx.walk_stmts(cl.body) if isinstance(s, ast.For) and
                           isinstance(s.iter, ast.Call) and astx.call_name(s.iter) == 'range' and
                           isinstance(s.target, ast.Name)]
        # the list handed to scipy
        names = set()
        for c in astx.calls(self.fn.node):
            k = astx.kwarg(c, 'constraints')
            if k is not None:
                if not isinstance(k, ast.Name):
                    raise AnalysisError('constraints= argument is not a local list')
                names.add(k.id)
        if len(names) != 1:
            raise AnalysisError(f'expected one list passed as constraints=, found {sorted(names)}')
        self.list_name = names.pop()

    def appends(self, var):
        """CFG nodes `<list>.append(var)`; second item: appends of var to some other list."""
        good, other = [], []
        for n in self.F.g.calling('append'):
            for c in n.calls():
                if astx.callee_attr(c) == 'append' and len(c.args) == 1 and \
                        isinstance(c.args[0], ast.Name) and c.args[0].id == var:
                    (good if astx.path(astx.receiver(c)) == self.list_name else other).append(n)
        return good, other

    @staticmethod
    def _dict_literal(v):
        """{key: value expr} of `{...}` / `dict(k=v)` with literal string keys, else None."""
        if isinstance(v, ast.Dict):
            if all(k is not None and astx.const_str(k) is not None for k in v.keys):
                return {astx.const_str(k): x for k, x in zip(v.keys, v.values)}
            return None
        if isinstance(v, ast.Call) and astx.call_name(v) == 'dict' and not v.args and \
                all(k.arg is not None for k in v.keywords):
            return {k.arg: k.value for k in v.keywords}
        return None

    def builder(self, call):
        """(helper Func, constraint constructor call inside it, return node) when `call` is `self.m(...)` and m
        returns a scipy constraint object it builds; else None."""
        if not (isinstance(call, ast.Call) and isinstance(call.func, ast.Attribute) and
                astx.path(call.func.value) == 'self'):
            return None
        hf = self.repo.try_func(SCIPY, f'{DRV}.{call.func.attr}')
        if hf is None:
            return None
        rets = [x for x in astx.walk_stmts(hf.node.body) if isinstance(x, ast.Return)]
        if len(rets) != 1:
            return None
        memo = self.__dict__.setdefault('_builders', {})
        if hf.qualname not in memo:
            H = Fn(hf)
            v = rets[0].value
            if isinstance(v, ast.Name):
                v, _ = H.value_of(H.at(rets[0]), v.id)
            ok = isinstance(v, ast.Call) and astx.callee_attr(v) in ('NonlinearConstraint', 'LinearConstraint')
            memo[hf.qualname] = (H, v, rets[0]) if ok else None
        if memo[hf.qualname] is None:
            return None
        H, v, r = memo[hf.qualname]
        return hf, v, r, H

    def bind_builder(self, call, loop):
        """Helper Fn with its parameters bound to the arguments of this call site."""
        hf, cons_call, r, H = self.builder(call)
        F = self.F
        a = hf.node.args
        hparams = [x.arg for x in a.posonlyargs + a.args][1:]
        if any(isinstance(x, ast.Starred) for x in call.args) or any(k.arg is None for k in call.keywords):
            raise AnalysisError(f'{hf.ident}: call with * / ** arguments')
        pairs = list(zip(hparams, call.args)) + [(k.arg, k.value) for k in call.keywords if k.arg in hparams]
        H.slots = F.slots
        H.name_var = H.idx_var = None
        H.param_exprs, H.scope_map = {}, {}
        at = F.at(astx.stmt_of(call))
        lv = loop.target.id if loop is not self.cons_loop else None
        for pn, ae in pairs:
            if isinstance(ae, ast.Name) and ae.id == F.name_var:
                H.name_var = pn
            elif isinstance(ae, ast.Name) and lv is not None and ae.id == lv:
                H.idx_var = pn
            else:
                H.param_exprs[pn] = (F, ae, at)
        if lv is not None and H.idx_var is not None:
            H.scope_map['elem:' + lv] = 'elem:' + H.idx_var
        rebound = [t.id for n in H.g.nodes if n.kind in ('stmt', 'iter', 'with') and n.ast is not None
                   for t in astx.assigned_targets(n.ast)
                   if isinstance(t, ast.Name) and t.id in (H.name_var, H.idx_var)]
        if rebound:
            raise AnalysisError(f'{hf.ident} rebinds {rebound}')
        return H, cons_call, r

    def creations(self):
        """[(kind, var, stmt)] constraint objects created inside the constraint loop."""
        out = []
        fun_stores = set()
        for s in astx.walk_stmts(self.cons_loop.body):
            if isinstance(s, ast.Assign) and len(s.targets) == 1 and isinstance(s.targets[0], ast.Subscript) \
                    and isinstance(s.targets[0].value, ast.Name) and astx.const_str(s.targets[0].slice) == 'fun':
                fun_stores.add(s.targets[0].value.id)
        for s in astx.walk_stmts(self.cons_loop.body):
            if isinstance(s, ast.Expr) and isinstance(s.value, ast.Call) and astx.callee_attr(s.value) == 'append' \
                    and len(s.value.args) == 1 and isinstance(s.value.args[0], ast.Call):
                inner = s.value.args[0]
                kind = astx.callee_attr(inner) if astx.callee_attr(inner) in ('NonlinearConstraint', 'LinearConstraint') \
                    else (astx.callee_attr(self.builder(inner)[1]) if self.builder(inner) is not None else None)
                if kind:
                    out.append((kind, None, s))     # built and appended in one statement
                continue
            if not (isinstance(s, ast.Assign) and len(s.targets) == 1 and isinstance(s.targets[0], ast.Name)):
                continue
            v = s.value
            if isinstance(v, ast.Call) and astx.callee_attr(v) in ('NonlinearConstraint', 'LinearConstraint'):
                out.append((astx.callee_attr(v), s.targets[0].id, s))
                continue
            if self.builder(v) is not None:
                out.append((astx.callee_attr(self.builder(v)[1]), s.targets[0].id, s))
                continue
            lit = self._dict_literal(v)
            if lit is not None and (s.targets[0].id in fun_stores or 'fun' in lit):
                out.append(('dict', s.targets[0].id, s))
        return out

    def loop_of(self, stmt):
        """Innermost element loop containing stmt, else the constraint loop."""
        for a in astx.ancestors(stmt):
            if a in self.elem_loops:
                return a
            if a is self.cons_loop:
                return a
        return None

    def dict_fields(self, var, creation):
        """{'fun': [(stmt, value)], ...} stores into dict *var* in the loop of its creation."""
        loop = self.loop_of(creation)
        out = {}
        for k, x in (self._dict_literal(creation.value) or {}).items():
            out.setdefault(k, []).append((creation, x))
        for s in astx.walk_stmts(loop.body):
            if isinstance(s, ast.Assign) and len(s.targets) == 1 and isinstance(s.targets[0], ast.Subscript) \
                    and isinstance(s.targets[0].value, ast.Name) and s.targets[0].value.id == var:
                k = astx.const_str(s.targets[0].slice)
                if k is None:
                    raise AnalysisError(f'non-literal key stored into {var}')
                out.setdefault(k, []).append((s, s.value))
        return out


def run_of(repo):
    """Run structure memoised on the Repo object (one CFG + reaching-defs pass per repository state)."""
    memo = repo.__dict__
    if '_c21_run' not in memo:
        try:
            memo['_c21_run'] = Run(repo)
        except AnalysisError as e:
            memo['_c21_run'] = e
    if isinstance(memo['_c21_run'], AnalysisError):
        raise memo['_c21_run']
    return memo['_c21_run']


def wrapped_method(F, e, at):
    """Name of the driver method in WeakMethodWrapper(self, 'm') / self.m, through signature_extender.

    Returns (method name, args expr or None)."""
    args = None
    if isinstance(e, ast.Name):          # wrapper built in a temporary
        v, d = F.value_of(at, e.id)
        if v is not None:
            e, at = v, d
    if isinstance(e, ast.Call) and astx.callee_attr(e) == 'signature_extender' and len(e.args) == 2:
        args = e.args[1]
        e = e.args[0]
    if isinstance(e, ast.Name):
        v, d = F.value_of(at, e.id)
        if v is not None:
            e = v
    if isinstance(e, ast.Call) and astx.callee_attr(e) == 'WeakMethodWrapper' and len(e.args) == 2 and \
            astx.path(e.args[0]) == 'self' and astx.const_str(e.args[1]):
        return astx.const_str(e.args[1]), args
    if isinstance(e, ast.Attribute) and astx.path(e.value) == 'self':
        return e.attr, args
    return None, args


def parse_args_list(F, e, at, loop, loopvar=None):
    """[name, dbl, j] -> (dbl, name ok, index ok, list expr, shared); else raises.

    shared: the list object is created outside the element loop (or mutated by item stores), so all
    callbacks built in the loop hold the *same* list and see the arguments of the last iteration."""
    loopvar = loop.target.id if loop is not None else loopvar
    shared = False
    if isinstance(e, ast.Name):
        nm = e.id
        v, d = F.value_of(at, e.id)
        if v is None:
            raise AnalysisError(f'cannot resolve args list {e.id}')
        e, at = v, d
        if loop is not None and loop not in astx.ancestors(d.ast):
            shared = True
        # (inside a builder helper the list is created per call; only in-place mutation can share it)
        for st_ in astx.walk_stmts(loop.body if loop is not None else F.fn.node.body):
            for t in astx.assigned_targets(st_) if isinstance(st_, (ast.Assign, ast.AugAssign)) else []:
                if isinstance(t, ast.Subscript) and isinstance(t.value, ast.Name) and t.value.id == nm:
                    shared = True
            if isinstance(st_, ast.Expr) and isinstance(st_.value, ast.Call) and \
                    astx.callee_attr(st_.value) in ('append', 'extend', 'insert', 'pop', 'clear', '__setitem__') and \
                    isinstance(astx.receiver(st_.value), ast.Name) and astx.receiver(st_.value).id == nm:
                shared = True
    if not (isinstance(e, (ast.List, ast.Tuple)) and len(e.elts) == 3):
        raise AnalysisError(f'args is not a 3-element list: {astx.src(e)}')
    a, b, c = e.elts
    if not (isinstance(b, ast.Constant) and isinstance(b.value, bool)):
        raise AnalysisError(f'dbl argument is not a boolean literal: {astx.src(e)}')
    ok_name = isinstance(a, ast.Name) and a.id == F.name_var
    ok_idx = isinstance(c, ast.Name) and c.id == loopvar
    return b.value, ok_name, ok_idx, e, shared


# --------------------------------------------------------------------------- callbacks
class Callback:
    """A constraint callback f(self, x, name, dbl, idx): abstract evaluation of its returns."""

    def __init__(self, repo, method, slots, binding=None, depth=0):
        self.repo = repo
        self.depth = depth
        self.fn = repo.func(SCIPY, f'{DRV}.{method}')
        self.F = F = Fn(self.fn)
        F.slots = slots
        if binding is None:
            if len(F.params) != 5:
                raise AnalysisError(f'{self.fn.ident}: expected (self, x, name, dbl, idx)')
            F.name_var, F.dbl_var, F.idx_var = F.params[2], F.params[3], F.params[4]
            protected = set(F.params[2:5])
        else:
            # a private helper the callback returns through: its parameters mean what the call site passes
            F.name_var, F.dbl_var, F.idx_var = binding.get('name'), binding.get('dbl'), binding.get('idx')
            F.param_roles = binding.get('roles', {})
            F.param_consts = binding.get('consts', {})
            F.cache_params = binding.get('cache', set())
            protected = {x for x in (F.name_var, F.dbl_var, F.idx_var) if x} | set(F.param_roles) | \
                set(F.param_consts) | set(F.cache_params)
        self.owner = {}     # return node of a helper -> the helper's Callback
        self._helpers = {}
        # the protocol arguments must stay what scipy passed
        self.rebound = []
        for n in F.g.nodes:
            if n.kind in ('stmt', 'iter', 'with') and n.ast is not None:
                for t in astx.assigned_targets(n.ast):
                    if isinstance(t, ast.Name) and t.id in protected:
                        self.rebound.append((t.id, n.ast))

    def fn_of(self, ret):
        return self.owner[ret].fn_of(ret) if ret in self.owner else self.fn

    def _helper(self, ret):
        """Callback of the private method whose result `return self.m(...)` hands back, or None."""
        call = ret.ast.value
        if not (isinstance(call, ast.Call) and isinstance(call.func, ast.Attribute) and
                astx.path(call.func.value) == 'self') or self.depth >= 2:
            return None
        meth = call.func.attr
        hf = self.repo.try_func(SCIPY, f'{DRV}.{meth}')
        if hf is None or any(isinstance(a, ast.Starred) for a in call.args) or any(k.arg is None for k in call.keywords):
            return None
        if id(ret) in self._helpers:
            return self._helpers[id(ret)]
        F = self.F
        a = hf.node.args
        hparams = [x.arg for x in a.posonlyargs + a.args][1:]
        pairs = list(zip(hparams, call.args)) + [(k.arg, k.value) for k in call.keywords if k.arg in hparams]
        b = dict(roles={}, consts={}, cache=set())

        def intact(nm):
            ds = F.describe_defs(ret, nm)
            return len(ds) == 1 and ds[0][0] == 'param'
        for pn, ae in pairs:
            if isinstance(ae, ast.Name) and intact(ae.id) and ae.id in (F.name_var, F.dbl_var, F.idx_var):
                b['name' if ae.id == F.name_var else 'dbl' if ae.id == F.dbl_var else 'idx'] = pn
                continue
            if isinstance(ae, ast.Constant) and isinstance(ae.value, bool):
                b['consts'][pn] = ae.value
                continue
            c = ae
            if isinstance(c, ast.Name):
                if intact(c.id) and c.id in F.cache_params:
                    b['cache'].add(pn)
                    continue
                v, d = F.value_of(ret, c.id)
                c = v if v is not None else c
            if astx.path(c) == 'self._con_cache':
                b['cache'].add(pn)
                continue
            r = roles(F, ae, ret, None)
            if UNKNOWN not in r:
                b['roles'][pn] = r
        h = Callback(self.repo, meth, F.slots, binding=b, depth=self.depth + 1)
        self._helpers[id(ret)] = h
        return h

    def params_intact(self, out):
        """Report rebinding of (name, dbl, idx); True when the arguments are used as passed."""
        for nm, st in self.rebound:
            v = getattr(st, 'value', None)
            if isinstance(st, ast.Assign) and isinstance(v, ast.Constant):
                out.bad(self.fn, st, f'the callback overwrites its argument `{nm}` with the constant {v.value!r}: every '
                        'call scipy makes for a different element/side evaluates the same one', key=f'arg-overwritten-{nm}')
            else:
                out.unsure(self.fn, st, f'the callback rebinds its argument `{nm}`')
        return not self.rebound

    def returns(self, st):
        """Return-statement CFG nodes reachable in abstract state st (unknown tests fork)."""
        F, g = self.F, self.F.g
        seen, stack, rets = set(), [g.entry], []
        fell = False
        while stack:
            n = stack.pop()
            if n in seen:
                continue
            seen.add(n)
            if n is g.exit:
                fell = True
                continue
            if n.kind == 'stmt' and isinstance(n.ast, ast.Return):
                h = self._helper(n)
                if h is not None:
                    # `return self._helper(...)`: the helper's returns are this callback's returns
                    self.rebound += [x for x in h.rebound if x not in self.rebound]
                    hr, hfell = h.returns(st)
                    fell = fell or hfell
                    for r in hr:
                        self.owner[r] = h
                    rets.extend(hr)
                else:
                    rets.append(n)
                continue
            if n.kind == 'stmt' and isinstance(n.ast, ast.Expr) and isinstance(n.ast.value, ast.Call) and \
                    astx.call_name(n.ast.value) == 'self._reraise':
                continue
            v = None
            if n.kind == 'test' and isinstance(n.ast, ast.If):
                v = ev3(n.ast.test, lambda a: atom(F, a, n, st))
            for m, lab in g.succ[n]:
                if lab == 'exc':
                    continue
                if n.kind == 'test' and isinstance(n.ast, ast.If) and v is not None:
                    if (lab == 'true') != v:
                        continue
                stack.append(m)
        return rets, fell

    def is_value(self, e, at):
        """e is `<con cache>[name][idx]`."""
        F = self.F
        if not (isinstance(e, ast.Subscript) and isinstance(e.value, ast.Subscript)):
            return None
        c = e.value.value
        if isinstance(c, ast.Name):
            ds = F.describe_defs(at, c.id)
            if len(ds) == 1 and ds[0][0] == 'param' and c.id in F.cache_params:
                c = ast.parse('self._con_cache', mode='eval').body
            else:
                v, d = F.value_of(at, c.id)
                c = v
        if astx.path(c) != 'self._con_cache':
            return None
        nm, ix = e.value.slice, e.slice
        return (isinstance(nm, ast.Name) and nm.id == F.name_var, isinstance(ix, ast.Name) and ix.id == F.idx_var)

    def value_form(self, ret, st):
        """(kind, sign of the constraint value, problem or None) of `return expr`; None if unrecognised."""
        if ret in self.owner:
            return self.owner[ret].value_form(ret, st)
        F = self.F
        e = self.ret_expr(ret, st) if ret.ast.value is not None else None
        if e is None:
            return None
        v = self.is_value(e, ret)
        if v is not None:
            return ('raw', 1, None if all(v) else 'the cached value is not indexed by (name, idx)')
        if isinstance(e, ast.BinOp) and isinstance(e.op, ast.Sub):
            for val, bnd, sign in ((e.left, e.right, 1), (e.right, e.left, -1)):
                v = self.is_value(val, ret)
                if v is None:
                    continue
                k, s = one_role(F, bnd, ret, st)
                if base(k) in ('lower', 'upper', 'equals'):
                    prob = None
                    if not all(v):
                        prob = 'the cached value is not indexed by (name, idx)'
                    elif k.endswith(RAW):
                        prob = (f"the {base(k)} bound is read from the metadata (model units) and combined with the "
                                "driver-scaled cached value: with a scaler/adder/ref on the constraint the "
                                "optimizer enforces a different bound than the one declared")
                        k = base(k)
                    elif s != 'elem:' + F.idx_var:
                        prob = f'the {k} bound is taken at {s}, not at element {F.idx_var}'
                    return (k, sign, prob)
                return None
        return None

    def ret_expr(self, ret, st):
        """The expression a `return` hands back in state st: `a if c else b` is resolved by evaluating c."""
        F = self.F
        e = ret.ast.value
        for _ in range(4):
            if isinstance(e, ast.Name):
                v, d = F.value_of(ret, e.id)
                if isinstance(v, ast.IfExp):
                    e = v
                    continue
            if not isinstance(e, ast.IfExp):
                break
            c = ev3(e.test, lambda a: atom(F, a, ret, st))
            if c is None:
                return None
            e = e.body if c else e.orelse
        return e

    def grad_sign(self, ret, st=None):
        """+1 / -1 for `return grad[row, :]` / `return -grad[row, :]`, with row checked; else None."""
        if ret in self.owner:
            return self.owner[ret].grad_sign(ret, st)
        F = self.F
        e = self.ret_expr(ret, st)
        if e is None:
            return None
        sign = 1
        if isinstance(e, ast.UnaryOp) and isinstance(e.op, ast.USub):
            sign, e = -1, e.operand
        if not (isinstance(e, ast.Subscript) and isinstance(e.value, ast.Name)):
            return None
        srcs = set()
        for k, p, d in F.describe_defs(ret, e.value.id):
            srcs.add(astx.path(p) if k == 'expr' else None)
        if not srcs or not srcs <= {'self._grad_cache', 'self._lincongrad_cache'}:
            return None
        sl = e.slice
        row = sl.elts[0] if isinstance(sl, ast.Tuple) and sl.elts else sl
        if isinstance(row, ast.Name):
            v, d = F.value_of(ret, row.id)
            row = v
        want_a = f"self._con_idx[*]"
        okrow = isinstance(row, ast.BinOp) and isinstance(row.op, ast.Add) and any(
            astx.path(a) == want_a and isinstance(a.slice, ast.Name) and a.slice.id == F.name_var and
            isinstance(b, ast.Name) and b.id == F.idx_var
            for a, b in ((row.left, row.right), (row.right, row.left)) if isinstance(a, ast.Subscript))
        return sign, okrow


def callback(repo, method, slots):
    """Callback analysis, memoised on the Repo object (never across repos: mutants share nothing)."""
    memo = repo.__dict__.setdefault('_c21_callbacks', {})
    if method not in memo:
        memo[method] = Callback(repo, method, slots)
    return memo[method]


def emitted(R, out=None):
    """All constraint emissions of run(): list of dicts
    (style, var, creation stmt, loop, fun, jac, dbl, presence(st), type_in(st))."""
    F = R.F
    ems = []
    for kind, var, st_ in R.creations():
        loop = R.loop_of(st_)
        if kind == 'dict':
            if loop is R.cons_loop:
                raise AnalysisError('old-style constraint dict is built outside an element loop')
            F.idx_var = loop.target.id
            flds = R.dict_fields(var, st_)
            for need in ('fun', 'args', 'type'):
                if need not in flds:
                    raise AnalysisError(f"dict {var} has no '{need}' entry")
            if len(flds['fun']) != 1 or len(flds['args']) != 1:
                raise AnalysisError(f'dict {var}: fun/args stored more than once')
            fs, fv = flds['fun'][0]
            fun, _ = wrapped_method(F, fv, F.at(fs))
            jac = None
            if 'jac' in flds:
                jac, _ = wrapped_method(F, flds['jac'][0][1], F.at(flds['jac'][0][0]))
            as_, av = flds['args'][0]
            dbl, okn, oki, argl, shared = parse_args_list(F, av, F.at(as_), loop)
            ems.append(dict(style='old', var=var, stmt=st_, loop=loop, fun=fun, jac=jac, dbl=dbl,
                            args_ok=(okn, oki), args_shared=shared, args=argl, types=flds['type'], has_jac='jac' in flds))
        elif kind == 'NonlinearConstraint':
            call, eF, at, eloop, where = _cons_call(R, st_, loop)
            if loop is R.cons_loop:
                raise AnalysisError('NonlinearConstraint is built outside an element loop')
            F.idx_var = loop.target.id
            idx = eF.idx_var
            fun, a1 = wrapped_method(eF, astx.arg(call, 0, 'fun'), at)
            jac, a2 = wrapped_method(eF, astx.kwarg(call, 'jac'), at) if astx.kwarg(call, 'jac') is not None \
                else (None, None)
            if a1 is None:
                raise AnalysisError('NonlinearConstraint fun is not signature_extender(..., args)')
            dbl, okn, oki, argl, shared = parse_args_list(eF, a1, at, eloop, idx)
            if a2 is not None:
                dbl2, okn2, oki2, _, shared2 = parse_args_list(eF, a2, at, eloop, idx)
                shared = shared or shared2
                if (dbl2, okn2, oki2) != (dbl, okn, oki):
                    raise AnalysisError('fun and jac of NonlinearConstraint get different args')
            ems.append(dict(style='new', var=var, stmt=st_, loop=loop, fun=fun, jac=jac, dbl=dbl,
                            args_ok=(okn, oki), args_shared=shared, args=argl, call=call, has_jac=jac is not None,
                            F=eF, at=at, idx=idx, where=where))
        else:
            call, eF, at, eloop, where = _cons_call(R, st_, loop)
            ems.append(dict(style='linear', var=var, stmt=st_, loop=loop, call=call, F=eF, at=at, idx=None,
                            where=where))
    return ems


def _cons_call(R, st_, loop):
    """(constructor call, Fn to evaluate it in, node, loop or None, Func for reports) of a creation statement."""
    v = st_.value
    if isinstance(v, ast.Call) and astx.callee_attr(v) == 'append' and len(v.args) == 1:
        v = v.args[0]
    if astx.callee_attr(v) in ('NonlinearConstraint', 'LinearConstraint'):
        R.F.idx_var = loop.target.id if loop is not R.cons_loop else None
        return v, R.F, R.F.at(st_), loop, R.fn
    H, call, r = R.bind_builder(v, loop)
    return call, H, H.at(r), None, H.fn


def presence(R, em, st):
    """Three-valued: is this emission appended for element j in state st?"""
    R.F.idx_var = em['loop'].target.id if em['loop'] is not R.cons_loop else None
    good, _ = R.appends(em['var'])
    if not good:
        return False
    R.F.problems = []
    vals = [cond3(R.F, n.ast, st, stop=em['loop']) for n in good if R.loop_of(n.ast) is em['loop']]
    c0 = cond3(R.F, em['stmt'], st, stop=em['loop'])
    if c0 is False or not vals:
        return False
    if any(v is True for v in vals) and c0 is True:
        return True
    if all(v is False for v in vals):
        return False
    return None


def str_value(F, e, at, st, depth=0):
    """The string an expression evaluates to in state st (through locals and `a if c else b`), else None."""
    if depth > 6 or e is None:
        return None
    if astx.const_str(e) is not None:
        return astx.const_str(e)
    if isinstance(e, ast.Name):
        got = set()
        for k, p, d in F.describe_defs(at, e.id):
            if k != 'expr':
                return None
            if d.kind == 'stmt' and cond3(F, d.ast, st) is False:
                continue
            got.add(str_value(F, p, d, st, depth + 1))
        return got.pop() if len(got) == 1 else None
    if isinstance(e, ast.IfExp):
        v = ev3(e.test, lambda a: atom(F, a, at, st))
        if v is None:
            return None
        return str_value(F, e.body if v else e.orelse, at, st, depth + 1)
    return None


def type_in(R, em, st):
    """'eq' / 'ineq' / None(unknown) of an old-style dict in state st."""
    R.F.idx_var = em['loop'].target.id
    got = set()
    for s, v in em['types']:
        c = cond3(R.F, s, st, stop=em['loop'])
        if c is False:
            continue
        sv = str_value(R.F, v, R.F.at(s), st)
        if c is None or sv is None:
            return None
        got.add(sv)
    return got.pop() if len(got) == 1 else None


# =============================================================================== rules
@rule('C21.loopdef', floor=2)
def loopdef(repo, out):
    """A per-element read `v[j]` in a `for j` loop never sees a loop-carried `v = v[...]` rebinding (F6)."""
    R = run_of(repo)
    F, g = R.F, R.F.g
    for loop in R.elem_loops:
        j = loop.target.id
        body = set(g.body_nodes(loop))
        seen = {}
        for s in astx.walk_stmts(loop.body):
            for e in astx.walk(s) if not isinstance(s, (ast.If, ast.For, ast.While, ast.With, ast.Try)) else \
                    astx.walk(getattr(s, 'test', None) or getattr(s, 'iter', None) or ast.Pass()):
                if isinstance(e, ast.Subscript) and isinstance(e.value, ast.Name) and \
                        isinstance(e.slice, ast.Name) and e.slice.id == j and isinstance(e.ctx, ast.Load):
                    seen.setdefault(e.value.id, []).append((e, s))
        for v, uses in seen.items():
            bad = None
            for e, s in uses:
                at = F.at(s)
                for d in F.rd.defs(at, v):
                    if d in body and d.kind == 'stmt' and isinstance(d.ast, (ast.Assign, ast.AugAssign)):
                        rhs = d.ast.value
                        if any(isinstance(x, ast.Subscript) and isinstance(x.value, ast.Name) and
                               x.value.id == v for x in astx.walk(rhs)):
                            bad = (e, s, d)
            if bad:
                e, s, d = bad
                out.bad(R.fn, d.ast, f'`{astx.src(d.ast)}` rebinds the array {v} to one of its elements inside '
                        f'`for {j}`: from the second iteration on `{astx.src(e)}` no longer reads element {j} '
                        f'of the bounds (elements >= 1 are treated with element 0\'s bound)',
                        key=f'loop-carried-{v}')
            else:
                out.ok(R.fn, uses[0][1], f'{v}[{j}]: every reaching definition of {v} is loop-invariant or '
                       f'recomputed from other arrays')


@rule('C21.emit', floor=6)
def emit(repo, out):
    """Every constraint object built for an element is appended to scipy's list in that iteration; loops cover range(size)."""
    R = run_of(repo)
    F, g = R.F, R.F.g
    for kind, var, st_ in R.creations():
        loop = R.loop_of(st_)
        hdr = g.nodes_of(loop)[0]
        c = F.at(st_)
        if var is None:
            recv = astx.path(astx.receiver(st_.value))
            if recv == R.list_name:
                out.ok(R.fn, st_, f'{kind} is built and appended to `{R.list_name}` in one statement of '
                       f'`for {astx.src(loop.target)}`')
            else:
                out.bad(R.fn, st_, f'the {kind} is appended to `{recv}`, not to `{R.list_name}`, which is what scipy gets',
                        key=f'not-appended-{kind}-direct')
            continue
        good, other = R.appends(var)
        # appends that see this creation
        mine = [n for n in good if c in F.rd.defs(n, var)]
        w = g.path(g.normal_succ(c), [hdr, g.exit], avoid=mine, labels=cfgm.noexc)
        what = f'{kind} `{var}`' if kind != 'dict' else f'constraint dictionary `{var}`'
        if w is not None:
            where = f'`for {astx.src(loop.target)}`' + (' element loop' if loop is not R.cons_loop else '')
            extra = ''
            if not mine and other:
                extra = f' (it is appended to another list than `{R.list_name}`, which is what scipy gets)'
            elif good and not mine:
                extra = ' (the append no longer sees this object)'
            elif mine and all(R.loop_of(n.ast) is not loop for n in mine):
                extra = (f' (the only `{R.list_name}.append({var})` is outside the loop, so only the object of '
                         'the last iteration reaches scipy and all other elements are unconstrained)')
            out.bad(R.fn, st_, f'the {what} built in the {where} can reach the next iteration without being '
                    f'appended to `{R.list_name}`{extra}: ' + g.fmt_path(w), key=f'not-appended-{kind}-{var}')
        else:
            out.ok(R.fn, st_, f'{what}: every path to the next iteration of `for {astx.src(loop.target)}` '
                   f'passes {R.list_name}.append({var})')
    # the list itself
    for loop in R.elem_loops:
        a = loop.iter.args
        body_kinds = {k for k, v, s in R.creations() if R.loop_of(s) is loop}
        if not body_kinds:
            continue
        hdr = g.nodes_of(loop)[0]
        if len(a) == 1 and isinstance(a[0], ast.Name):
            ds = F.describe_defs(hdr, a[0].id)
            inside = all(R.cons_loop in astx.ancestors(d.ast) for k, p, d in ds if d.kind == 'stmt')
            if ds and inside and all(k in ('expr', 'other') for k, p, d in ds):
                out.ok(R.fn, loop, f'element loop runs over range({a[0].id}) with {a[0].id} set for this constraint')
            else:
                out.unsure(R.fn, loop, f'{a[0].id} is not (only) defined inside the constraint loop')
        elif len(a) == 1 and isinstance(a[0], ast.BinOp) and isinstance(a[0].op, (ast.Sub, ast.FloorDiv, ast.Div)):
            out.bad(R.fn, loop, f'element loop runs over `{astx.src(loop.iter)}`: trailing elements of the '
                    'constraint get no constraint object', key='range-short')
        elif len(a) >= 2 and isinstance(a[0], ast.Constant) and a[0].value != 0:
            out.bad(R.fn, loop, f'element loop starts at {a[0].value}: leading elements of the constraint '
                    'get no constraint object', key='range-short')
        elif len(a) == 3 and isinstance(a[2], ast.Constant) and a[2].value not in (1,):
            out.bad(R.fn, loop, 'element loop has a stride: skipped elements get no constraint object',
                    key='range-short')
        else:
            out.unsure(R.fn, loop, f'unrecognised element range `{astx.src(loop.iter)}`')


def _form_ok(kind, sign):
    """Is (kind, sign of value) a form that scipy's `>= 0` / `== 0` convention reads as satisfied?"""
    return (kind == 'lower' and sign == 1) or (kind == 'upper' and sign == -1) or kind == 'equals'


@rule('C21.cover', floor=7)
def cover(repo, out):
    """Old style, truth table over U x L x E: finite upper -> emitted upper - value; finite lower -> value - lower; equality -> 'eq' with value - equals."""
    R = run_of(repo)
    ems = [e for e in emitted(R) if e['style'] == 'old']
    if not ems:
        raise AnalysisError('no old-style constraint dictionaries found')
    for em in ems:
        okn, oki = em['args_ok']
        if em['args_shared']:
            out.bad(R.fn, em['args'], f"{em['var']}: the argument list is created outside the element loop / mutated in place, so every callback built in the loop holds the same list object and evaluates the element of the *last* iteration: all other elements are unconstrained", key=f"args-shared-{em['var']}")
        elif not okn or not oki:
            out.bad(R.fn, em['args'], f"args {astx.src(em['args'])} do not pass (constraint name, dbl, element "
                    f"index of this iteration): the callback evaluates another element", key=f"args-{em['var']}")
        else:
            out.ok(R.fn, em['args'], f"{em['var']}: args = [name, {em['dbl']}, {em['loop'].target.id}]")
    n_checked = 0
    reported = set()
    for base_st in STATES:
        verdict = None      # first ('bad' | 'unsure', payload) over all sets of other elements
        forms_shown = None
        for st in ext_states(base_st):
            n_checked += 1
            r = _cover_state(repo, R, ems, st, reported, out)
            if r[0] == 'ok':
                if forms_shown is None:
                    forms_shown = r[1]
                continue
            if verdict is None or (verdict[0] == 'unsure' and r[0] == 'bad'):
                verdict = r
            if r[0] == 'bad':
                break
        if verdict is None:
            out.ok(R.fn, ems[0]['loop'], f'state {fmt_state(base_st)}, any other elements: emitted '
                   f'{[(e["var"], "dbl=%s" % e["dbl"], t, k) for k, s, t, e in forms_shown or []]}')
        elif verdict[0] == 'bad':
            w = verdict[1]
            out.bad(w[0], w[1], w[2], key=w[3])
        elif verdict[1] is not None:
            out.unsure(*verdict[1])
    out.count('states', n_checked)


def _cover_state(repo, R, ems, st, reported, out):
    """Decide one abstract state: ('ok', forms) | ('bad', (where, node, why, key)) | ('unsure', (where, node, why) | None)."""
    present = []
    unknown = False
    problems = []
    for em in ems:
        p = presence(R, em, st)
        problems += R.F.problems
        if p is None:
            unknown = True
        elif p:
            present.append(em)
    if problems:
        node, why = problems[0]
        return 'bad', (R.fn, astx.stmt_of(node), f'the decision which dictionaries are emitted for element '
                       f'{ems[0]["loop"].target.id} is not taken from that element\'s own bounds: {why}; with a mixed '
                       'bound pattern an element gets the dictionaries of another one and its finite upper (or lower) '
                       'bound is never shown to the optimizer', 'dbl-other-element')
    if unknown:
        return 'unsure', (R.fn, ems[0]['loop'], f'cannot decide which dictionaries are emitted in state {fmt_state(st)}')
    forms = []
    bad = None
    for em in present:
        if em['fun'] is None:
            return 'unsure', (R.fn, em['stmt'], "the 'fun' entry is not a WeakMethodWrapper(self, name)")
        cb = callback(repo, em['fun'], R.F.slots)
        if cb.rebound:
            if em['fun'] not in reported:
                reported.add(em['fun'])
                cb.params_intact(out)
            return 'unsure', None
        s2 = dict(U=st['U'], L=st['L'], E=st['E'], dbl=em['dbl'])
        memo = cb.__dict__.setdefault('_forms', {})
        mk = (s2['U'], s2['L'], s2['E'], s2['dbl'])
        if mk not in memo:
            rets, fell = cb.returns(s2)
            memo[mk] = (rets, fell, [cb.value_form(r, s2) for r in rets])
        rets, fell, vfs = memo[mk]
        fset = set()
        for r, vf in zip(rets, vfs):
            if vf is None:
                return 'unsure', (cb.fn_of(r), r.ast, f'unrecognised constraint form in state {fmt_state(s2)}')
            if vf[2]:
                bad = (cb.fn_of(r), r.ast, f'{vf[2]} (state {fmt_state(s2)})', 'wrong-element')
            fset.add(vf[:2])
        if fell or len(fset) != 1:
            if bad is None:
                bad = (cb.fn, cb.fn.node, f'{em["fun"]} returns {sorted(fset)} / falls through in state '
                       f'{fmt_state(s2)}: the form is not a function of (dbl, bounds)', 'ambiguous-form')
            continue
        kind, sign = next(iter(fset))
        ty = type_in(R, em, st)
        if ty is None:
            return 'unsure', (R.fn, em['stmt'], f"cannot decide the 'type' of {em['var']} in state {fmt_state(st)}")
        forms.append((kind, sign, ty, em))
        if bad is None and not _form_ok(kind, sign) and kind != 'raw':
            nice = {('upper', 1): 'value - upper', ('lower', -1): 'lower - value'}[(kind, sign)]
            bad = (cb.fn_of(rets[0]), rets[0].ast, f'with dbl={em["dbl"]} in state {fmt_state(s2)} the callback returns '
                   f'`{nice}`, which scipy (feasible when >= 0) reads as the opposite inequality', 'form-sign')
        if bad is None and kind == 'raw':
            bad = (cb.fn_of(rets[0]), rets[0].ast, 'old-style callback returns the raw value: no bound is applied', 'form-raw')
        if bad is None and st['E'] and (ty != 'eq' or kind != 'equals'):
            bad = (R.fn, em['stmt'], f"equality constraint is emitted as type {ty!r} with form {kind}: "
                   "the equals value is not enforced", 'eq-type')
        if bad is None and not st['E'] and (ty != 'ineq' or kind == 'equals'):
            bad = (R.fn, em['stmt'], f"inequality element is emitted as type {ty!r} with form {kind} in state "
                   f"{fmt_state(s2)}", 'ineq-type')
    if bad is None and not st['E']:
        hint = ''
        if st.get('others'):
            hint = (' (the emission depends on the bounds of the *other* elements of the array, e.g. a whole-array '
                    'np.all/np.any taken outside the element loop)')
        shown = [(e["var"], e["dbl"], k) for k, s, t, e in forms]
        if st['U'] and not any(k == 'upper' and s == -1 for k, s, t, e in forms):
            bad = (R.fn, ems[0]['loop'], f'in state {fmt_state(st)} (finite upper bound) no emitted call returns '
                   f'upper - value: emitted {shown}; the upper bound of that element is never shown to the '
                   f'optimizer{hint}', 'upper-uncovered')
        elif st['L'] and not any(k == 'lower' and s == 1 for k, s, t, e in forms):
            bad = (R.fn, ems[0]['loop'], f'in state {fmt_state(st)} (finite lower bound) no emitted call returns '
                   f'value - lower: emitted {shown}; the lower bound of that element is never shown to the '
                   f'optimizer{hint}', 'lower-uncovered')
    if bad is None and st['E'] and not forms:
        bad = (R.fn, ems[0]['loop'], 'no dictionary is emitted for an equality element', 'eq-type')
    if bad:
        return 'bad', bad
    return 'ok', forms


@rule('C21.sign', floor=3)
def sign(repo, out):
    """The jacobian callback of every emitted constraint has the sign of its value callback in every state."""
    R = run_of(repo)
    reported = set()
    for em in emitted(R):
        if em['style'] == 'linear':
            continue
        if not em['has_jac']:
            out.unsure(R.fn, em['stmt'], f"{em['var']} has no jacobian callback")
            continue
        if em['fun'] is None or em['jac'] is None:
            out.unsure(R.fn, em['stmt'], 'fun/jac is not WeakMethodWrapper(self, name)')
            continue
        cf = callback(repo, em['fun'], R.F.slots)
        cj = callback(repo, em['jac'], R.F.slots)
        if cf.rebound or cj.rebound:
            for cb in (cf, cj):
                if cb.rebound and cb.fn.qualname not in reported:
                    reported.add(cb.fn.qualname)
                    cb.params_intact(out)
            continue
        bad = None
        unsure = None
        for st in STATES:
            p = presence(R, em, st) if em['style'] == 'old' else True
            if p is False:
                continue
            s2 = dict(st, dbl=em['dbl'])
            fr, ffell = cf.returns(s2)
            jr, jfell = cj.returns(s2)
            fs, js = set(), set()
            for r in fr:
                vf = cf.value_form(r, s2)
                if vf is None:
                    unsure = (cf.fn_of(r), r.ast, 'unrecognised value form')
                else:
                    fs.add(vf[1])
            for r in jr:
                gs = cj.grad_sign(r, s2)
                if gs is None:
                    unsure = (cj.fn_of(r), r.ast, 'unrecognised gradient form (expected [-]grad[self._con_idx[name] + idx, :])')
                elif not gs[1]:
                    bad = bad or (cj.fn_of(r), r.ast, 'the gradient row is not self._con_idx[name] + idx: the jacobian of '
                                  'another element/constraint is returned', 'grad-row')
                    js.add(gs[0])
                else:
                    js.add(gs[0])
            if unsure or ffell or jfell:
                break
            if len(fs) != 1 or len(js) != 1:
                bad = bad or (cj.fn, cj.fn.node, f'value sign {sorted(fs)} / jacobian sign {sorted(js)} not unique '
                              f'in state {fmt_state(s2)}', 'sign-ambiguous')
                continue
            if fs != js and bad is None:
                f1, j1 = next(iter(fs)), next(iter(js))
                bad = (R.fn, em['stmt'],
                       f"{em['var']}: in state {fmt_state(s2)} {em['fun']} returns the constraint value with sign "
                       f"{f1:+d} but {em['jac']} returns its gradient with sign {j1:+d}: scipy is given d(-c)/dx "
                       f"for c (or vice versa), so it cannot converge to / reports a non-optimal point",
                       f"jac-sign-{em['style']}")
        if unsure:
            out.unsure(*unsure)
        elif bad:
            out.bad(bad[0], bad[1], bad[2], key=bad[3])
        else:
            out.ok(R.fn, em['stmt'], f"{em['var']}: sign({em['fun']}) == sign({em['jac']}) in all "
                   f"{len(STATES)} states (dbl={em['dbl']})")


def _clamp(e):
    """(inner, fn name, sentinel sign) for np.maximum(x, -INF_BOUND) / np.minimum(x, INF_BOUND) / max / min."""
    if isinstance(e, ast.Call) and astx.callee_attr(e) in ('maximum', 'minimum', 'max', 'min') and len(e.args) == 2:
        a, b = e.args
        if sentinel(a) is not None and sentinel(b) is None:
            a, b = b, a
        if sentinel(b) is not None:
            return a, astx.callee_attr(e)[:3], sentinel(b)
    return None


@rule('C21.newbounds', floor=4)
def newbounds(repo, out):
    """New style: lb/ub are the lower/upper (equality: equals) bound of element j (whole vector for LinearConstraint), correctly clamped."""
    R = run_of(repo)
    for em in emitted(R):
        if em['style'] == 'old':
            continue
        call = em['call']
        per_elem = em['style'] == 'new'
        F, at, where = em['F'], em['at'], em['where']     # the run() body or a builder helper bound to its call site
        F.idx_var = em['idx'] if per_elem else None
        if per_elem:
            okn, oki = em['args_ok']
            if em['args_shared']:
                out.bad(where, em['args'], "the argument list is created outside the element loop / mutated in place, so every callback built in the loop holds the same list object and evaluates the element of the *last* iteration: all other elements are unconstrained", key='args-shared-new')
            elif not okn or not oki or em['dbl'] is not False:
                out.bad(where, em['args'], f"args {astx.src(em['args'])} must be [name, False, {F.idx_var}]",
                        key='args-new')
        if per_elem and em['fun'] is not None:
            # scipy compares fun(x) with lb/ub itself: the value callback must hand back the bare value
            cb = callback(repo, em['fun'], R.F.slots)
            kinds = set()
            for st in STATES:
                s2 = dict(st, dbl=em['dbl'])
                rets_, fell_ = cb.returns(s2)
                for r in rets_:
                    vf = cb.value_form(r, s2)
                    kinds.add(None if vf is None else vf[0])
            if None in kinds:
                out.unsure(where, call, f"cannot recognise what {em['fun']} returns")
            elif kinds != {'raw'}:
                out.bad(where, call, f"{em['fun']} returns the value with a bound already subtracted "
                        f"({sorted(kinds - {'raw'})}) but scipy compares it with lb/ub again: the bound is applied twice",
                        key='new-fun-not-raw')
        for kw, want in (('lb', 'lower'), ('ub', 'upper')):
            e = astx.kwarg(call, kw)
            if e is None:
                pos = {'lb': 1, 'ub': 2}[kw]
                e = call.args[pos] if len(call.args) > pos else None
            if e is None:
                out.bad(where, call, f'{kw} is not passed: the {want} bound is dropped', key=f'{kw}-missing')
                continue
            e0 = e
            eat = at
            if isinstance(e, ast.Name):
                v, d = F.value_of(at, e.id)
                if v is not None and (_clamp(v) is not None):
                    e, eat = v, d
            if not per_elem and isinstance(e, ast.BinOp) and isinstance(e.op, ast.Sub) and \
                    _mentions_value(F, e.right, eat):
                e = e.left      # bound - offset of the affine constraint (see C21.linear)
            cl = _clamp(e)
            problem = None
            if cl is not None:
                inner, fn3, sgn = cl
                # lb: maximum(x, -INF) ; ub: minimum(x, +INF)
                wantc = ('max', -1) if kw == 'lb' else ('min', 1)
                if (fn3, sgn) != wantc:
                    problem = (f'{kw} is clamped with `{astx.src(e)}`; {kw} must be '
                               f'{"maximum(x, -INF_BOUND)" if kw == "lb" else "minimum(x, INF_BOUND)"}: as written '
                               f'the {want} bound is replaced by the sentinel (or pushed past it)', f'{kw}-clamp')
                e = inner
            verdicts = []
            for st in STATES:
                r = roles(F, e, eat, st)
                wk = 'equals' if st['E'] else want
                ws = ('elem:' + F.idx_var) if per_elem else 'whole'
                if UNKNOWN in r or len(r) != 1:
                    verdicts.append(('unsure', st, r))
                elif next(iter(r)) != (wk, ws):
                    got = next(iter(r))
                    if got[0].endswith(RAW):
                        got = (base(got[0]) + ' (metadata, model units instead of driver-scaled)', got[1])
                    verdicts.append(('bad', st, got))
                else:
                    verdicts.append(('ok', st, None))
            if problem:
                out.bad(where, e0, problem[0], key=problem[1] + '-' + em['style'])
            elif any(v[0] == 'bad' for v in verdicts):
                v = [v for v in verdicts if v[0] == 'bad'][0]
                wk = 'equals' if v[1]['E'] else want
                out.bad(where, e0, f"{kw} of {astx.callee_attr(call)} is the {v[2][0]} bound ({v[2][1]}) in state "
                        f"{fmt_state(v[1])}; it must be the {wk} bound "
                        f"({'element ' + str(F.idx_var) if per_elem else 'all elements'})", key=f'{kw}-role-{em["style"]}')
            elif any(v[0] == 'unsure' for v in verdicts):
                v = [v for v in verdicts if v[0] == 'unsure'][0]
                out.unsure(where, e0, f'cannot resolve {kw} in state {fmt_state(v[1])}: {sorted(v[2])}')
            else:
                out.ok(where, e0, f"{kw} of {astx.callee_attr(call)} = {want}/equals bound, "
                       f"{'element ' + str(F.idx_var) if per_elem else 'whole vector'}"
                       + (', clamped' if cl else ''))


def _mentions_value(F, e, at, depth=0):
    """Does e (through local definitions) depend on the evaluated constraint values?"""
    if depth > 5 or e is None:
        return False
    for n in astx.walk(e):
        if isinstance(n, ast.Attribute) and n.attr in ('_con_cache',):
            return True
        if isinstance(n, ast.Call) and astx.callee_attr(n) in ('get_constraint_values', '_get_voi_val'):
            return True
        if isinstance(n, ast.Name) and isinstance(n.ctx, ast.Load):
            for k, p, d in F.describe_defs(at, n.id):
                if k == 'expr' and p is not e and _mentions_value(F, p, d, depth + 1):
                    return True
    return False


@rule('C21.linear', floor=2)
def linear(repo, out):
    """Bounds handed to LinearConstraint (lb <= A x <= ub) account for the constant term of the affine constraint."""
    R = run_of(repo)
    found = False
    for em in emitted(R):
        if em['style'] != 'linear':
            continue
        found = True
        call = em['call']
        F, at = em['F'], em['at']
        F.idx_var = None
        for kw in ('lb', 'ub'):
            e = astx.arg(call, {'lb': 1, 'ub': 2}[kw], kw)
            if e is None:
                continue
            r = roles(F, e, at, None)
            bare = UNKNOWN not in r and all(base(k) in ('lower', 'upper', 'equals', 'none') for k, s in r)
            if bare:
                out.bad(R.fn, call, f'`{kw}={astx.src(e)}` is the bare '
                        f'{"/".join(sorted({base(k) for k, s in r} - {"none"}))} bound of '
                        'the constraint value g(x) = A x + b, but scipy enforces it on A x alone: for b != 0 '
                        '(any linear constraint with a constant term, adder or ref0) scipy solves a shifted '
                        'problem and reports success at a design that violates the bound',
                        key=f'linear-offset-{kw}={astx.src(e)}')
            elif _mentions_value(F, e, at):
                out.ok(R.fn, call, f'{kw} is corrected with the evaluated constraint value')
            else:
                out.unsure(R.fn, call, f'cannot tell whether `{kw}={astx.src(e)}` accounts for the constant term')
    if not found:
        raise AnalysisError('no LinearConstraint emission found')


def _gcv_ok(call):
    """None if `self.get_constraint_values(...)` yields driver-scaled raw values of all constraints."""
    if not (isinstance(call, ast.Call) and astx.call_name(call) == 'self.get_constraint_values'):
        return 'unsure', 'value is not self.get_constraint_values(...)'
    want = {'ctype': 'all', 'lintype': 'all', 'driver_scaling': True, 'viol': False}
    order = ['ctype', 'lintype', 'driver_scaling', 'viol']
    given = {}
    for i, a in enumerate(call.args):
        given[order[i] if i < 4 else f'arg{i}'] = a
    for k in call.keywords:
        given[k.arg] = k.value
    for k, v in given.items():
        if k not in want or not isinstance(v, ast.Constant):
            return 'unsure', f'argument {k} is not a literal'
        if v.value != want[k] or type(v.value) is not type(want[k]):
            return 'bad', (f'{k}={v.value!r}: the cache would not hold the driver-scaled values of all '
                           'constraints, while the bounds it is compared with are driver-scaled')
    return None


CACHE_WRITERS = {
    f'{DRV}.__init__': 'initialiser (None)',
    f'{DRV}.run': 'initial evaluation before the optimizer starts',
    f'{DRV}._objfunc': 'refresh after every model evaluation',
}


@rule('C21.cache', floor=7)
def cache(repo, out):
    """_objfunc: set design vars from x -> run model -> refresh _con_cache (driver-scaled) -> return; frozen writers; callbacks read the cache."""
    fn = repo.func(SCIPY, f'{DRV}._objfunc')
    F = Fn(fn)
    g = F.g
    xparam = F.params[1] if len(F.params) > 1 else None

    def writes_cache(n):
        return n.kind == 'stmt' and isinstance(n.ast, (ast.Assign, ast.AugAssign)) and \
            any(astx.path(t) == 'self._con_cache' for t in astx.assigned_targets(n.ast))
    W = g.where(writes_cache)
    solve = g.calling('_run_solve_nonlinear')
    setdv = g.calling('_set_design_vars')
    setx = [n for n in g.calling('set_data') if any(
        astx.callee_attr(c) == 'set_data' and c.args and isinstance(c.args[0], ast.Name) and
        c.args[0].id == xparam for c in n.calls())]
    rets = [n for n in g.where(lambda n: n.kind == 'stmt' and isinstance(n.ast, ast.Return))
            if not isinstance(n.ast.value, ast.Constant)]
    if not solve or not rets:
        raise AnalysisError(f'{fn.ident}: model run / value return not found')
    if not W:
        out.bad(fn, fn.node, '_objfunc never refreshes self._con_cache: the constraint callbacks keep returning '
                'the values of the initial design', key='cache-refresh')
    else:
        w = g.path([g.entry], rets, avoid=W, labels=cfgm.noexc)
        w2 = None
        for x in W:
            w2 = w2 or g.dominated_by(x, solve, labels=cfgm.noexc)
        late = set()
        for x in W:
            late |= g.reach(g.normal_succ(x), labels=cfgm.noexc) & set(solve + setdv + setx)
        if w is not None:
            out.bad(fn, rets[0].ast, 'the objective value can be returned without refreshing self._con_cache: '
                    + g.fmt_path(w), key='cache-refresh')
        elif w2 is not None:
            out.bad(fn, W[0].ast, 'self._con_cache is filled before the model was run at the new design: the '
                    'constraint callbacks see the values of the previous point: ' + g.fmt_path(w2),
                    key='cache-order')
        elif late:
            out.bad(fn, W[0].ast, f'`{astx.src(next(iter(late)).ast)}` runs after self._con_cache was filled: the '
                    'cached constraint values belong to an earlier model state', key='cache-order')
        else:
            out.ok(fn, W[0].ast, 'every value return passes model run -> cache refresh, nothing re-runs afterwards')
    # design is set from x before the run
    if not setdv or not setx:
        out.bad(fn, fn.node, f'the design vector `{xparam}` is not written into the model before the run '
                '(set_data(x) / _set_design_vars missing)', key='design-set')
    else:
        w = None
        for s in solve:
            w = w or g.dominated_by(s, setdv, labels=cfgm.noexc)
        w3 = None
        for s in setdv:
            w3 = w3 or g.dominated_by(s, setx, labels=cfgm.noexc)
        if w is not None or w3 is not None:
            out.bad(fn, solve[0].ast, 'the model is run before the new design reached it (order must be '
                    'dv_vec.set_data(x) -> _set_design_vars -> _run_solve_nonlinear): ' + g.fmt_path(w or w3),
                    key='design-set')
        else:
            out.ok(fn, solve[0].ast, 'set_data(x) -> _set_design_vars -> _run_solve_nonlinear on every path')
    # writers
    m = repo.module(SCIPY)
    for f in m.funcs.values():
        for s in astx.walk_stmts(f.node.body):
            if isinstance(s, (ast.Assign, ast.AugAssign, ast.AnnAssign)) and \
                    any(isinstance(t, ast.Attribute) and t.attr == '_con_cache' for t in astx.assigned_targets(s)):
                if f.qualname not in CACHE_WRITERS:
                    out.bad(f, s, 'writes _con_cache outside the frozen writer table (__init__, run, _objfunc): '
                            'the cache no longer is "constraint values of the last evaluated design"',
                            key='cache-writer')
                    continue
                v = s.value
                if isinstance(v, ast.Constant) and v.value is None:
                    out.ok(f, s, CACHE_WRITERS[f.qualname])
                    continue
                r = _gcv_ok(v)
                if r is None:
                    out.ok(f, s, CACHE_WRITERS[f.qualname] + '; driver-scaled values of all constraints')
                elif r[0] == 'bad':
                    out.bad(f, s, r[1], key='cache-units')
                else:
                    out.unsure(f, s, r[1])
    # readers
    for meth in ('_confunc', '_con_val_func'):
        cb = callback(repo, meth, producer_slots(repo))
        n = 0
        seen_r = set()
        for st in STATES:
            for dbl in (False, True):
                s2 = dict(st, dbl=dbl)
                for r in cb.returns(s2)[0]:
                    if r not in seen_r and cb.value_form(r, s2) is not None:
                        seen_r.add(r)
                        n += 1
        reruns = [c for c in astx.calls(cb.fn.node) if astx.call_name(c) == 'self._objfunc']
        for c in reruns:
            if not (len(c.args) == 1 and isinstance(c.args[0], ast.Name) and c.args[0].id == cb.F.params[1]):
                out.bad(cb.fn, c, f'{meth} re-evaluates the model at `{astx.src(c.args[0]) if c.args else ""}`, not '
                        f'at the point `{cb.F.params[1]}` scipy asks about', key='reeval-point')
        if n:
            out.ok(cb.fn, cb.fn.node, f'{meth}: {n} read(s) of the constraint value, all from self._con_cache[name][idx]')
        else:
            out.unsure(cb.fn, cb.fn.node, f'{meth}: no recognised read of self._con_cache[name][idx]')


@rule('C21.slots', floor=4)
def slots(repo, out):
    """(lower, upper, equals): meta key -> data array -> is_lower sentinel -> OptimizerVector -> setup slot -> get_bounds_scaling position."""
    producer_slots(repo, out)


@rule('C21.index', floor=5)
def index(repo, out):
    """_con_idx[name] is the first row of the constraint in its gradient cache: store, then advance by size; rows start after the objective."""
    R = run_of(repo)
    F, g = R.F, R.F.g
    body = set(g.body_nodes(R.cons_loop))
    hdr = g.nodes_of(R.cons_loop)[0]
    stores = [n for n in g.where(lambda n: n.kind == 'stmt' and isinstance(n.ast, ast.Assign) and
                                 any(astx.path(t) == 'self._con_idx[*]' for t in n.ast.targets)) if n in body]
    if len(stores) < 2:
        raise AnalysisError('expected a linear and a nonlinear store into self._con_idx')
    size_names = set()
    for lp in R.elem_loops:
        if len(lp.iter.args) == 1 and isinstance(lp.iter.args[0], ast.Name):
            size_names.add(lp.iter.args[0].id)
    counters = {}
    for s in stores:
        tgt = [t for t in s.ast.targets if astx.path(t) == 'self._con_idx[*]'][0]
        if not (isinstance(tgt.slice, ast.Name) and tgt.slice.id == F.name_var and isinstance(s.ast.value, ast.Name)):
            out.unsure(R.fn, s.ast, 'unrecognised _con_idx store')
            continue
        c = s.ast.value.id
        lin = None
        for test, pol, ifn in guards(s.ast, R.cons_loop):
            tv = test
            while isinstance(tv, ast.UnaryOp) and isinstance(tv.op, ast.Not):
                tv, pol = tv.operand, not pol
            if isinstance(tv, ast.Name):
                v, d = F.value_of(F.at(ifn), tv.id)
                tv = v if v is not None else tv
            if isinstance(tv, ast.Compare) and len(tv.ops) == 1 and isinstance(tv.ops[0], ast.In) and \
                    isinstance(tv.left, ast.Name) and tv.left.id == F.name_var:
                lin = pol
            elif isinstance(tv, ast.Subscript) and astx.const_str(tv.slice) == 'linear':
                lin = pol
        if lin is None:
            out.unsure(R.fn, s.ast, 'cannot tell whether this store is on the linear or the nonlinear branch')
            continue
        counters[c] = lin
        def step_of(n, c=c):
            """What `c += e` / `c = c + e` / `c = e + c` adds to c; False if the statement is no increment."""
            a = n.ast
            if isinstance(a, ast.AugAssign) and astx.path(a.target) == c:
                return a.value if isinstance(a.op, ast.Add) else None
            if isinstance(a, ast.Assign) and len(a.targets) == 1 and astx.path(a.targets[0]) == c and \
                    isinstance(a.value, ast.BinOp) and isinstance(a.value.op, ast.Add):
                l, r = a.value.left, a.value.right
                if isinstance(l, ast.Name) and l.id == c:
                    return r
                if isinstance(r, ast.Name) and r.id == c:
                    return l
            return False
        writes = [n for n in g.where(lambda n: n.kind == 'stmt' and isinstance(n.ast, (ast.Assign, ast.AugAssign)) and
                                     any(astx.path(t) == c for t in astx.assigned_targets(n.ast))) if n in body]
        incs = [n for n in writes if step_of(n) is not False]
        okinc = [n for n in incs if isinstance(step_of(n), ast.Name) and step_of(n).id in size_names]
        plain = [n for n in writes if n not in incs]
        if plain:
            out.unsure(R.fn, plain[0].ast, f'{c} is rebound by a plain assignment inside the constraint loop')
            continue
        # after the store, exactly one `c += size` before the next iteration; none between header and store
        w = g.path(g.normal_succ(s), [hdr], avoid=okinc, labels=cfgm.noexc)
        early = g.path([m for m, lab in g.succ[hdr] if lab == 'true'], [s], avoid=[], labels=cfgm.noexc)
        pre = [n for n in incs if early is not None and n in
               g.reach([m for m, lab in g.succ[hdr] if lab == 'true'], avoid=[s], labels=cfgm.noexc) and
               s in g.reach(g.normal_succ(n), avoid=[hdr], labels=cfgm.noexc)]
        twice = [n for n in okinc if set(okinc) & g.reach(g.normal_succ(n), avoid=[hdr], labels=cfgm.noexc)]
        branch = 'linear' if lin else 'nonlinear'
        if len(incs) != len(okinc):
            x = [n for n in incs if n not in okinc][0]
            out.bad(R.fn, x.ast, f'{c} must advance by the number of elements of the constraint '
                    f'({"/".join(sorted(size_names))}); `{astx.src(x.ast)}` makes the rows of later constraints '
                    'overlap or leave gaps in the gradient cache', key=f'idx-step-{branch}')
        elif pre:
            out.bad(R.fn, pre[0].ast, f'{c} is advanced before it is stored in _con_idx[{F.name_var}]: the '
                    f'{branch} constraint is given the gradient rows of the next one', key=f'idx-order-{branch}')
        elif w is not None:
            out.bad(R.fn, s.ast, f'{c} is not advanced after a {branch} constraint took its rows: the next '
                    f'{branch} constraint gets the same gradient rows: ' + g.fmt_path(w), key=f'idx-step-{branch}')
        elif twice:
            out.bad(R.fn, twice[0].ast, f'{c} is advanced twice per constraint', key=f'idx-step-{branch}')
        else:
            out.ok(R.fn, s.ast, f'{branch}: _con_idx[{F.name_var}] = {c}, then {c} += size once')
    # start values: rows of nonlinear constraints start after the objective(s) in _obj_and_nlcons
    for c, lin in counters.items():
        inits = [d for k, p, d in F.describe_defs(hdr, c) if d not in body]
        vals = {d.ast.value.value if d.kind == 'stmt' and isinstance(d.ast, ast.Assign) and
                isinstance(d.ast.value, ast.Constant) else None for d in inits}
        want = 0 if lin else 1
        if vals == {want}:
            out.ok(R.fn, inits[0].ast, f'{c} starts at {want}' + ('' if lin else ' (row 0 of the cache is the objective)'))
        elif None in vals or not vals:
            out.unsure(R.fn, R.cons_loop, f'start value of {c} is not a literal')
        else:
            out.bad(R.fn, inits[0].ast, f'{c} starts at {sorted(vals)} instead of {want}: '
                    + ('row 0 of the gradient cache is the objective, so every nonlinear constraint would use the '
                       'gradient of its predecessor (the first one that of the objective)' if not lin else
                       'the linear gradient cache has no leading row'), key=f'idx-start-{"lin" if lin else "nl"}')
    # nonlinear names are appended to _obj_and_nlcons exactly on the nonlinear branch
    apps = [n for n in g.calling('append') if n in body and any(
        astx.path(astx.receiver(c)) == 'self._obj_and_nlcons' for c in n.calls())]
    nl_store = [s for s in stores if isinstance(s.ast.value, ast.Name) and counters.get(s.ast.value.id) is False]
    if apps and nl_store:
        same = all(guards(a.ast, R.cons_loop)[-1:] and guards(nl_store[0].ast, R.cons_loop)[-1:] and
                   guards(a.ast, R.cons_loop)[-1][2] is guards(nl_store[0].ast, R.cons_loop)[-1][2] and
                   guards(a.ast, R.cons_loop)[-1][1] == guards(nl_store[0].ast, R.cons_loop)[-1][1] for a in apps)
        arg_ok = all(any(len(c.args) == 1 and isinstance(c.args[0], ast.Name) and c.args[0].id == F.name_var
                         for c in a.calls() if astx.callee_attr(c) == 'append') for a in apps)
        if same and arg_ok and len(apps) == 1:
            out.ok(R.fn, apps[0].ast, 'the constraint is appended to _obj_and_nlcons on the branch that assigns its nonlinear row')
        else:
            out.bad(R.fn, apps[0].ast, 'self._obj_and_nlcons.append(name) is not on the branch that assigns the '
                    'nonlinear row: gradient rows and _con_idx disagree', key='idx-nlcons')
    else:
        out.unsure(R.fn, R.cons_loop, '_obj_and_nlcons.append(name) not found in the constraint loop')


@rule('C21.status', floor=6)
def status(repo, out):
    """Success is reported only as `not result.success` of scipy's result, after swallowed callback exceptions were re-raised."""
    R = run_of(repo)
    fn, F = R.fn, R.F
    g = F.g
    fails = g.where(lambda n: n.kind == 'stmt' and isinstance(n.ast, ast.Assign) and
                    any(astx.path(t) == 'self.fail' for t in n.ast.targets))
    if not fails:
        raise AnalysisError('run() never assigns self.fail')
    opt_calls = [n for n in g.where(lambda n: n.kind == 'stmt' and isinstance(n.ast, ast.Assign) and
                                    isinstance(n.ast.value, ast.Call) and
                                    astx.callee_attr(n.ast.value) in ('minimize', 'basinhopping', 'dual_annealing',
                                                                      'differential_evolution', 'shgo'))]
    res_names = {astx.path(t) for n in opt_calls for t in n.ast.targets}
    if len(res_names) != 1:
        raise AnalysisError(f'optimizer result stored under {sorted(res_names)}')
    res = res_names.pop()
    reraise = [n for n in g.calling('_reraise')]
    for n in fails:
        v = n.ast.value
        gs = guards(n.ast, fn.node)
        if isinstance(v, ast.UnaryOp) and isinstance(v.op, ast.Not) and astx.path(v.operand) == f'{res}.success':
            out.ok(fn, n.ast, 'fail = not result.success')
        elif isinstance(v, ast.Constant) and v.value is True:
            out.ok(fn, n.ast, 'failure assumed when scipy gives no success flag')
        elif isinstance(v, ast.Constant) and v.value is False:
            out.bad(fn, n.ast, 'self.fail = False: success is claimed without consulting scipy\'s result '
                    + ('(on the branch where the result has no `success` attribute)' if gs else ''),
                    key='fail-const')
        elif astx.path(v) == f'{res}.success':
            out.bad(fn, n.ast, 'self.fail = result.success: the flag is inverted, a failed optimization is '
                    'reported as success', key='fail-inverted')
        else:
            out.unsure(fn, n.ast, 'unrecognised value of self.fail')
    # re-raise dominates the status
    exc_tests = [n for n in g.where(lambda n: n.kind == 'test' and isinstance(n.ast, ast.If) and
                                    astx.mentions(n.ast.test, '_exc_info'))]
    ok_rr = [n for n in reraise if any(isinstance(a, ast.If) and astx.mentions(a.test, '_exc_info') and
                                       isinstance(a.test, ast.Compare) and isinstance(a.test.ops[0], ast.IsNot)
                                       and not isinstance(a._parent, ast.ExceptHandler)
                                       for a in [n.ast._parent])]
    if not ok_rr:
        out.bad(fn, fails[0].ast, 'exceptions swallowed in the callbacks (self._exc_info) are never re-raised: the '
                'callbacks returned dummy values (0, empty gradient) and scipy\'s success flag refers to them',
                key='reraise')
    else:
        gate = [n for n in exc_tests if n.ast is ok_rr[0].ast._parent]
        w = None
        for f_ in fails:
            w = w or g.dominated_by(f_, gate, labels=cfgm.noexc)
        if w is not None:
            out.bad(fn, fails[0].ast, 'self.fail can be set without first checking self._exc_info: '
                    + g.fmt_path(w), key='reraise')
        else:
            out.ok(fn, ok_rr[0].ast, '`if self._exc_info is not None: self._reraise()` dominates every status assignment')
    # return value
    rets = [s for s in astx.walk_stmts(fn.node.body) if isinstance(s, ast.Return)]
    def returns_fail(r):
        if astx.path(r.value) == 'self.fail':
            return True
        if isinstance(r.value, ast.Name):       # a local bound together with / from self.fail
            ds = F.describe_defs(F.at(r), r.value.id)
            return bool(ds) and all(
                d.kind == 'stmt' and isinstance(d.ast, ast.Assign) and
                (any(astx.path(t) == 'self.fail' for t in d.ast.targets) or astx.path(d.ast.value) == 'self.fail')
                for k, p, d in ds)
        return False
    if rets and all(returns_fail(r) for r in rets):
        out.ok(fn, rets[0], f'run() returns self.fail ({len(rets)} return statement(s))')
    elif any(isinstance(r.value, ast.Constant) or (
            isinstance(r.value, ast.Name) and F.describe_defs(F.at(r), r.value.id) and all(
                k == 'expr' and isinstance(p, ast.Constant) for k, p, d in F.describe_defs(F.at(r), r.value.id)))
            for r in rets):
        out.bad(fn, rets[0], 'run() returns a constant instead of self.fail', key='return-fail')
    else:
        out.unsure(fn, fn.node, 'unrecognised return of run()')
    # Driver._run: success = not run()
    dr = repo.func(DRIVER, 'Driver._run')
    n = 0
    for s in astx.walk_stmts(dr.node.body):
        if isinstance(s, ast.Assign) and any(astx.path(t) == 'self.result.success' for t in s.targets):
            v = s.value
            if isinstance(v, ast.UnaryOp) and isinstance(v.op, ast.Not) and astx.call_name(v.operand) == 'self.run':
                out.ok(dr, s, 'DriverResult.success = not run()')
            elif astx.call_name(v) == 'self.run':
                out.bad(dr, s, 'DriverResult.success = run(): run() returns the *failure* flag', key='success-inverted')
            else:
                out.unsure(dr, s, 'unrecognised value of result.success')
            n += 1
    if n == 0:
        raise AnalysisError('Driver._run never sets self.result.success')


def mask_pol(F, e, at, depth=0):
    """'inf' / 'fin': e is the boolean mask of the infinite / finite entries of a bound array; else None."""
    if depth > 6:
        return None
    flip = {'inf': 'fin', 'fin': 'inf', None: None}
    if isinstance(e, ast.Name):
        v, d = F.value_of(at, e.id)
        return None if v is None else mask_pol(F, v, d, depth + 1)
    if isinstance(e, ast.UnaryOp) and isinstance(e.op, ast.Invert):
        return flip[mask_pol(F, e.operand, at, depth + 1)]
    if isinstance(e, ast.Call) and astx.callee_attr(e) == 'logical_not' and len(e.args) == 1:
        return flip[mask_pol(F, e.args[0], at, depth + 1)]
    if isinstance(e, ast.IfExp):
        a, b = mask_pol(F, e.body, at, depth + 1), mask_pol(F, e.orelse, at, depth + 1)
        return a if a == b else None
    if isinstance(e, ast.Compare) and len(e.ops) == 1 and type(e.ops[0]) in _OPS:
        left, right, o = e.left, e.comparators[0], _OPS[type(e.ops[0])]
        sl, sr = sentinel(left), sentinel(right)
        if sl is not None and sr is None:
            o, sr = _SWAP[o], sl
        if sr is None:
            return None
        if sr < 0:
            return {'<=': 'inf', '==': 'inf', '<': 'inf', '>': 'fin', '!=': 'fin'}.get(o)
        return {'>=': 'inf', '==': 'inf', '>': 'inf', '<': 'fin', '!=': 'fin'}.get(o)
    return None


_PATTERNS = ('all entries finite', 'finite and infinite entries mixed', 'all entries infinite')


def _mask_truth(pol, how, pattern):
    """Value of <mask>.all() / .any() for a bound array with the given pattern."""
    allfin, mixed, allinf = (pattern == x for x in _PATTERNS)
    if pol == 'inf':
        return allinf if how == 'all' else not allfin
    return allfin if how == 'all' else not allinf


@rule('C21.scalebound', floor=2)
def scalebound(repo, out):
    """Autoscaler._scale_bound shifts and scales the finite entries of a bound on every path where some entry is finite (all finite / mixed / all infinite)."""
    fn = repo.func(AUTO, 'Autoscaler._scale_bound')
    F = Fn(fn)
    g = F.g
    if len(F.params) < 4:
        raise AnalysisError('_scale_bound: expected (self, val, adder, scaler, ...)')
    pnames = {'adder': F.params[2], 'scaler': F.params[3]}
    rebound = [n for n in g.nodes if n.kind in ('stmt', 'iter', 'with') and n.ast is not None and
               any(isinstance(t, ast.Name) and t.id in pnames.values() for t in astx.assigned_targets(n.ast))]
    if rebound:
        raise AnalysisError('_scale_bound rebinds adder/scaler')
    ops = {'adder': [], 'scaler': []}
    for n in g.where(lambda n: n.kind == 'stmt' and isinstance(n.ast, ast.AugAssign)):
        a = n.ast
        kind = None
        if isinstance(a.op, ast.Add) and astx.mentions(a.value, pnames['adder']):
            kind = 'adder'
        elif isinstance(a.op, ast.Mult) and astx.mentions(a.value, pnames['scaler']):
            kind = 'scaler'
        if kind:
            ops[kind].append(n)
    for kind, nodes in ops.items():
        if not nodes:
            raise AnalysisError(f'_scale_bound: no in-place application of the {kind} found')
        # which entries are touched
        verdict = None
        for n in nodes:
            t = n.ast.target
            if isinstance(t, ast.Name):
                continue
            pol = mask_pol(F, t.slice, n) if isinstance(t, ast.Subscript) else None
            if pol == 'inf':
                verdict = ('bad', n, f'the {kind} is applied to the *infinite* entries (`{astx.src(t)}`): the finite '
                           'bounds stay in model units while the constraint values are driver-scaled', f'scale-mask-{kind}')
            elif pol is None:
                verdict = verdict or ('unsure', n, f'cannot tell which entries `{astx.src(t)}` selects')
        # on which paths
        if verdict is None:
            for pattern in _PATTERNS[:2]:
                def decide(test, node, strict):
                    def at(a):
                        if isinstance(a, ast.Compare) and len(a.ops) == 1 and isinstance(a.ops[0], (ast.Is, ast.IsNot)) \
                                and isinstance(a.comparators[0], ast.Constant) and a.comparators[0].value is None \
                                and isinstance(a.left, ast.Name) and a.left.id == pnames[kind]:
                            return isinstance(a.ops[0], ast.IsNot)
                        if isinstance(a, ast.Call):
                            red = reduction(a)
                            if red is not None:
                                pol = mask_pol(F, red[1], node)
                                if pol is not None:
                                    return _mask_truth(pol, red[0], pattern)
                        return None
                    v = ev3(test, at)
                    if v is None and strict:
                        # an undecided test that talks about a mask blocks the definite search
                        if any(isinstance(x, ast.Name) and mask_pol(F, x, node) is not None for x in astx.walk(test)):
                            return 'block'
                    return v

                def escape(strict):
                    seen, stack, par = {g.entry}, [g.entry], {}
                    while stack:
                        n = stack.pop()
                        if n in nodes:
                            continue
                        if (n.kind == 'stmt' and isinstance(n.ast, ast.Return)) or n is g.exit:
                            pth = [n]
                            while pth[-1] in par:
                                pth.append(par[pth[-1]])
                            return pth[::-1]
                        v = None
                        if n.kind == 'test' and isinstance(n.ast, (ast.If, ast.While)):
                            v = decide(n.ast.test, n, strict)
                            if v == 'block':
                                continue
                        for m, lab in g.succ[n]:
                            if lab == 'exc' or (v is not None and lab in ('true', 'false') and (lab == 'true') != v):
                                continue
                            if m not in seen:
                                seen.add(m)
                                par[m] = n
                                stack.append(m)
                    return None
                w = escape(True)
                if w is not None:
                    tests = [x for x in w if x.kind == 'test']
                    verdict = ('bad', tests[-1] if tests else nodes[0],
                               f'for a bound array with {pattern} and {kind} given, _scale_bound can return without '
                               f'applying the {kind} to the finite entries: {g.fmt_path(w)}; those bounds stay in model '
                               'units while the constraint values handed to the optimizer are driver-scaled, so the '
                               'optimizer enforces a different bound than the declared one', f'scale-skipped-{kind}')
                    break
                w = escape(False)
                if w is not None:
                    verdict = ('unsure', nodes[0], f'cannot decide whether the {kind} is applied for {pattern}: '
                               + g.fmt_path(w))
        if verdict is None:
            out.ok(fn, nodes[0].ast, f'{kind}: applied to the finite entries on every path for "all finite" and "mixed" '
                   'bound arrays (scalar bounds take the same path after np.full)')
        elif verdict[0] == 'bad':
            out.bad(fn, verdict[1].ast, verdict[2], key=verdict[3])
        else:
            out.unsure(fn, verdict[1].ast, verdict[2])


_INV = {'+': '-', '-': '+', '*': '/', '/': '*'}
_AOP = {ast.Add: '+', ast.Sub: '-', ast.Mult: '*', ast.Div: '/'}


def _meta_role(repo, F, e, at, depth=0):
    """'scaler' / 'adder' for an expression read from meta['total_scaler'] / ['total_adder'], through locals,
    tuple assignments and private Autoscaler helpers returning such values (or a tuple of them)."""
    if depth > 5 or e is None:
        return None
    if isinstance(e, ast.Name):
        ds = F.describe_defs(at, e.id)
        if len(ds) != 1:
            return None
        k, p, d = ds[0]
        if k == 'expr':
            return _meta_role(repo, F, p, d, depth + 1)
        if k == 'slot':
            i, n, val = p
            if isinstance(val, (ast.Tuple, ast.List)) and len(val.elts) == n:
                return _meta_role(repo, F, val.elts[i], d, depth + 1)
            r = _helper_return(repo, val)
            if r is not None:
                H, rv, rn = r
                if isinstance(rv, ast.Name):
                    v2, d2 = H.value_of(rn, rv.id)
                    rv, rn = (v2, d2) if v2 is not None else (rv, rn)
                if isinstance(rv, (ast.Tuple, ast.List)) and len(rv.elts) == n:
                    return _meta_role(repo, H, rv.elts[i], rn, depth + 1)
        return None
    if isinstance(e, ast.Subscript):
        k = astx.const_str(e.slice)
        if k in ('total_scaler',):
            return 'scaler'
        if k in ('total_adder',):
            return 'adder'
        return None
    if isinstance(e, ast.Call):
        r = _helper_return(repo, e)
        if r is not None:
            H, rv, rn = r
            return _meta_role(repo, H, rv, rn, depth + 1)
    return None


def _helper_return(repo, call):
    """(Fn, returned expr, return node) of a single-return private method `self.m(...)` of Autoscaler."""
    if not (isinstance(call, ast.Call) and isinstance(call.func, ast.Attribute) and astx.path(call.func.value) == 'self'):
        return None
    hf = repo.try_func(AUTO, f'Autoscaler.{call.func.attr}')
    if hf is None:
        return None
    rets = [x for x in astx.walk_stmts(hf.node.body) if isinstance(x, ast.Return)]
    if len(rets) != 1 or rets[0].value is None:
        return None
    memo = repo.__dict__.setdefault('_c21_auto_helpers', {})
    if hf.qualname not in memo:
        memo[hf.qualname] = Fn(hf)
    H = memo[hf.qualname]
    return H, rets[0].value, H.at(rets[0])


def _vec_ops(repo, qual):
    """Per (adder given, scaler given): the sequence of in-place operations one loop iteration of an
    Autoscaler._apply_vec_* method applies to vec[name]; plus the value _driver_scaling is left at."""
    fn = repo.func(AUTO, qual)
    F = Fn(fn)
    g = F.g
    vecp = F.params[1] if len(F.params) > 1 else None
    loops = [x for x in astx.walk_stmts(fn.node.body) if isinstance(x, ast.For) and isinstance(x.target, ast.Name)
             and isinstance(x.iter, ast.Name) and x.iter.id == vecp]
    if len(loops) != 1:
        raise AnalysisError(f'{fn.ident}: expected one `for name in {vecp}` loop')
    loop = loops[0]
    hdr = g.nodes_of(loop)[0]
    lv = loop.target.id

    def role_of(e, at):
        """'scaler' / 'adder' for a local read from meta['total_scaler'] / ['total_adder']."""
        return _meta_role(repo, F, e, at)

    table = {}
    for has_a in (False, True):
        for has_s in (False, True):
            given = {'adder': has_a, 'scaler': has_s}

            def at_(a, node):
                if isinstance(a, ast.Compare) and len(a.ops) == 1 and isinstance(a.ops[0], (ast.Is, ast.IsNot)) and \
                        isinstance(a.comparators[0], ast.Constant) and a.comparators[0].value is None:
                    r = role_of(a.left, node)
                    if r is not None:
                        return given[r] if isinstance(a.ops[0], ast.IsNot) else not given[r]
                return None
            seqs = set()
            stack = [(m, ()) for m, lab in g.succ[hdr] if lab == 'true']
            guard = 0
            while stack:
                n, seq = stack.pop()
                guard += 1
                if guard > 5000:
                    raise AnalysisError(f'{fn.ident}: path explosion')
                if n is hdr:
                    seqs.add(seq)
                    continue
                if n is g.exit or (n.kind == 'stmt' and isinstance(n.ast, ast.Return)):
                    seqs.add(seq + (('return', ''),))
                    continue
                if n.kind == 'stmt' and isinstance(n.ast, ast.AugAssign):
                    t = n.ast.target
                    if isinstance(t, ast.Subscript) and isinstance(t.value, ast.Name) and t.value.id == vecp and \
                            isinstance(t.slice, ast.Name) and t.slice.id == lv:
                        seq = seq + ((_AOP.get(type(n.ast.op), '?'), role_of(n.ast.value, n) or astx.src(n.ast.value)),)
                elif n.kind == 'stmt' and isinstance(n.ast, ast.Assign) and any(
                        isinstance(t, ast.Subscript) and isinstance(t.value, ast.Name) and t.value.id == vecp
                        for t in astx.assigned_targets(n.ast)):
                    seq = seq + (('=', astx.src(n.ast.value)),)
                v = None
                if n.kind == 'test' and isinstance(n.ast, ast.If):
                    v = ev3(n.ast.test, lambda a, n=n: at_(a, n))
                for m, lab in g.succ[n]:
                    if lab == 'exc' or (v is not None and lab in ('true', 'false') and (lab == 'true') != v):
                        continue
                    stack.append((m, seq))
            table[(has_a, has_s)] = seqs
    flags = {n.ast.value.value for n in g.where(
        lambda n: n.kind == 'stmt' and isinstance(n.ast, ast.Assign) and isinstance(n.ast.value, ast.Constant) and
        any(isinstance(t, ast.Attribute) and t.attr == '_driver_scaling' for t in n.ast.targets))}
    return fn, loop, table, flags


@rule('C21.mirror', floor=8)
def mirror(repo, out):
    """Autoscaler._apply_vec_unscaling undoes _apply_vec_scaling for every (adder given, scaler given): inverse operations, reverse order; public apply_* delegate to the right one."""
    sf, sloop, S, sflags = _vec_ops(repo, 'Autoscaler._apply_vec_scaling')
    uf, uloop, U, uflags = _vec_ops(repo, 'Autoscaler._apply_vec_unscaling')
    for key in sorted(S):
        has_a, has_s = key
        label = f"adder {'given' if has_a else 'None'}, scaler {'given' if has_s else 'None'}"
        if len(S[key]) != 1 or len(U[key]) != 1:
            out.unsure(uf, uloop, f'operation sequence is not unique for {label}: scaling {sorted(S[key])}, '
                       f'unscaling {sorted(U[key])}')
            continue
        s_seq, u_seq = next(iter(S[key])), next(iter(U[key]))
        want_s = tuple(x for x, g_ in ((('+', 'adder'), has_a), (('*', 'scaler'), has_s)) if g_)
        if any(op in ('?', '=', 'return') or r not in ('adder', 'scaler') for op, r in s_seq + u_seq):
            out.unsure(uf, uloop, f'unrecognised operation for {label}: scaling {s_seq}, unscaling {u_seq}')
            continue
        want_u = tuple((_INV[op], r) for op, r in reversed(s_seq))
        fmt = lambda q: ' ; '.join(f'x {op}= {r}' for op, r in q) or 'nothing'   # noqa: E731
        if s_seq != want_s:
            out.bad(sf, sloop, f'for {label} scaling applies [{fmt(s_seq)}] instead of x_opt = (x + adder) * scaler '
                    f'[{fmt(want_s)}]', key=f'scaling-{int(has_a)}{int(has_s)}')
        elif u_seq != want_u:
            out.bad(uf, uloop, f'for {label} _apply_vec_scaling applies [{fmt(s_seq)}] but _apply_vec_unscaling applies '
                    f'[{fmt(u_seq)}] instead of [{fmt(want_u)}]: design variables written to the model differ from the '
                    'design the optimizer chose (a reported-feasible optimizer point is evaluated/left at another '
                    'model point)', key=f'unscaling-{int(has_a)}{int(has_s)}')
        else:
            out.ok(uf, uloop, f'{label}: scaling [{fmt(s_seq)}], unscaling [{fmt(u_seq)}]')
    if sflags == {True} and uflags == {False}:
        out.ok(uf, uf.node, 'scaling leaves _driver_scaling = True, unscaling leaves it False')
    elif sflags and uflags and (True not in sflags or False not in uflags or sflags & uflags):
        out.bad(uf, uf.node, f'_driver_scaling is left at {sorted(sflags)} by scaling and {sorted(uflags)} by unscaling: '
                'the next call is skipped or applied twice', key='driver-scaling-flag')
    else:
        out.unsure(uf, uf.node, '_driver_scaling flag assignments not recognised')
    want = {'apply_design_var_unscaling': '_apply_vec_unscaling', 'apply_design_var_scaling': '_apply_vec_scaling',
            'apply_constraint_scaling': '_apply_vec_scaling'}
    for meth, target in want.items():
        f = repo.func(AUTO, f'Autoscaler.{meth}')
        called = {astx.callee_attr(c) for c in astx.calls(f.node) if astx.path(astx.receiver(c)) == 'self'}
        called &= {'_apply_vec_unscaling', '_apply_vec_scaling'}
        if called == {target}:
            out.ok(f, f.node, f'{meth} -> {target}')
        elif called:
            out.bad(f, f.node, f'{meth} calls {sorted(called)} instead of {target}', key=f'delegate-{meth}')
        else:
            out.unsure(f, f.node, f'{meth}: no call of self._apply_vec_*')


# =============================================================================== self-test
_S = SCIPY
_OLD_ELEM = ("                        upper_j = upper[j] if isinstance(upper, np.ndarray) else upper\n"
             "                        lower_j = lower[j] if isinstance(lower, np.ndarray) else lower\n"
             "\n"
             "                        dblcon = (upper_j < INF_BOUND) and (lower_j > -INF_BOUND)\n")
_FIX_LINEAR_OLD = ("                        con = LinearConstraint(A=lincongrad[self._con_idx[name]],\n"
                   "                                               lb=lb, ub=ub, keep_feasible=True)\n"
                   "                        constraints.append(con)\n")
_FIX_LINEAR_NEW = ("                        rows = slice(self._con_idx[name], self._con_idx[name] + size)\n"
                   "                        offset = self._con_cache[name] - lincongrad[rows] @ x_init\n"
                   "                        con = LinearConstraint(A=lincongrad[rows],\n"
                   "                                               lb=lb - offset, ub=ub - offset, keep_feasible=True)\n"
                   "                        constraints.append(con)\n")
_FIX_APPEND_OLD = ("                                    WeakMethodWrapper(self, '_congradfunc'), args)\n"
                   "                            )\n"
                   "                            constraints.append(con)\n")
_FIX_APPEND_NEW = ("                                    WeakMethodWrapper(self, '_con_val_gradfunc'), args)\n"
                   "                            )\n"
                   "                            constraints.append(con)\n")
_FIX_GRAD_OLD = "    def _confunc(self, x_new, name, dbl, idx):\n"
_FIX_GRAD_NEW = ("    def _con_val_gradfunc(self, x_new, name, dbl, idx):\n"
                 "        if self._exc_info is not None:\n"
                 "            self._reraise()\n"
                 "        if self._grad_cache is None:\n"
                 "            self._gradfunc(x_new)\n"
                 "        grad = self._grad_cache\n"
                 "        return grad[self._con_idx[name] + idx, :]\n"
                 "\n"
                 "    def _confunc(self, x_new, name, dbl, idx):\n")

_CONFUNC_OLD = ("        cons = self._con_cache\n"
                "        meta = self._cons[name]\n"
                "\n"
                "        lower_con, upper_con, equals_con = self._autoscaler.get_bounds_scaling('constraint')\n"
                "\n"
                "        # Equality constraints\n"
                "        if meta['equals'] is not None:\n"
                "            eq = equals_con[name]\n"
                "            return cons[name][idx] - eq[idx]\n"
                "\n"
                "        # Note, scipy defines constraints to be satisfied when positive,\n"
                "        # which is the opposite of OpenMDAO.\n"
                "        upper = upper_con[name][idx]\n"
                "        lower = lower_con[name][idx]\n"
                "\n"
                "        if dbl or (lower <= -INF_BOUND):\n"
                "            return upper - cons[name][idx]\n"
                "        else:\n"
                "            return cons[name][idx] - lower\n")


def _confunc_helper(upper_form='upper - con_cache[name][idx]', args='scaled_bounds[0], scaled_bounds[1]', eqslot=2):
    """_confunc rewritten with an extracted private helper, tuple indexing and renamed locals (benign C21_3)."""
    return ("        con_cache = self._con_cache\n"
            "        con_meta = self._cons[name]\n"
            "        scaled_bounds = self._autoscaler.get_bounds_scaling('constraint')\n"
            "        if con_meta['equals'] is not None:\n"
            f"            eq = scaled_bounds[{eqslot}][name]\n"
            "            return con_cache[name][idx] - eq[idx]\n"
            f"        return self._ineq_confunc(con_cache, name, dbl, idx, {args})\n"
            "\n"
            "    def _ineq_confunc(self, con_cache, name, dbl, idx, lower_con, upper_con):\n"
            "        upper = upper_con[name][idx]\n"
            "        lower = lower_con[name][idx]\n"
            "        if dbl or (lower <= -INF_BOUND):\n"
            f"            return {upper_form}\n"
            "        else:\n"
            "            return con_cache[name][idx] - lower\n")


_DICT_OLD = ("                        con_dict = {}\n"
             "                        if meta['equals'] is not None:\n"
             "                            con_dict['type'] = 'eq'\n"
             "                        else:\n"
             "                            con_dict['type'] = 'ineq'\n"
             "                        con_dict['fun'] = WeakMethodWrapper(self, '_confunc')\n")
_DDICT_OLD = ("                        dblcon = (upper_j < INF_BOUND) and (lower_j > -INF_BOUND)\n"
              "\n"
              "                        # Add extra constraint if double-sided\n"
              "                        if dblcon:\n"
              "                            dcon_dict = {}\n"
              "                            dcon_dict['type'] = 'ineq'\n"
              "                            dcon_dict['fun'] = WeakMethodWrapper(self, '_confunc')\n")
_DDICT_NEW = ("                        if (upper_j < INF_BOUND) and (lower_j > -INF_BOUND):\n"
              "                            dcon_dict = {'type': 'ineq',\n"
              "                                         'fun': WeakMethodWrapper(self, '_confunc')}\n")


def _dict_new(texpr):
    return (f"                        con_type = {texpr}\n"
            "                        con_dict = {'type': con_type,\n"
            "                                    'fun': WeakMethodWrapper(self, '_confunc')}\n")


_IDX_OLD = ("                if linear:\n"
            "                    self._con_idx[name] = lin_i\n"
            "                    lin_i += size\n"
            "                else:\n"
            "                    self._obj_and_nlcons.append(name)\n"
            "                    self._con_idx[name] = nl_i\n"
            "                    nl_i += size\n")


def _idx_new(step='nl_i + size'):
    return ("                if not linear:\n"
            "                    self._obj_and_nlcons.append(name)\n"
            "                    self._con_idx[name] = nl_i\n"
            f"                    nl_i = {step}\n"
            "                else:\n"
            "                    self._con_idx[name] = lin_i\n"
            "                    lin_i = size + lin_i\n")


_NL_BODY_OLD = ("                            args = [name, False, j]\n"
                "                            lb_j = np.maximum(lb[j], -INF_BOUND)\n"
                "                            ub_j = np.minimum(ub[j], INF_BOUND)\n"
                "                            con = NonlinearConstraint(\n"
                "                                fun=signature_extender(\n"
                "                                    WeakMethodWrapper(self, '_con_val_func'), args),\n"
                "                                lb=lb_j, ub=ub_j,\n"
                "                                jac=signature_extender(\n"
                "                                    WeakMethodWrapper(self, '_congradfunc'), args)\n"
                "                            )\n"
                "                            constraints.append(con)\n")
_LBUB_OLD = ("                    if equals is not None:\n"
             "                        lb = ub = equals\n"
             "                    else:\n"
             "                        lb = lower\n"
             "                        ub = upper\n")


def _builder_shape(call_args='name, j, lb[j], ub[j]', lb_clamp='np.maximum(lb_j, -INF_BOUND)',
                   lbub='(lower, upper) if equals is None else (equals, equals)', target='constraints'):
    """New-style element constraints built by an extracted helper, lb/ub picked by a tuple conditional (benign C21_b2_1)."""
    body = (f"                            {target}.append(\n"
            f"                                self._new_style_nl_constraint({call_args}))\n")
    helper = ("    def _new_style_nl_constraint(self, name, j, lb_j, ub_j):\n"
              "        from scipy.optimize import NonlinearConstraint\n"
              "        args = [name, False, j]\n"
              f"        lb_j = {lb_clamp}\n"
              "        ub_j = np.minimum(ub_j, INF_BOUND)\n"
              "        return NonlinearConstraint(\n"
              "            fun=signature_extender(WeakMethodWrapper(self, '_con_val_func'), args),\n"
              "            lb=lb_j, ub=ub_j,\n"
              "            jac=signature_extender(WeakMethodWrapper(self, '_congradfunc'), args)\n"
              "        )\n"
              "\n"
              "    def _objfunc(self, x_new):\n")
    return dict(new=body, also=[(_S, "    def _objfunc(self, x_new):\n", helper),
                                (_S, _LBUB_OLD, f"                    lb, ub = {lbub}\n")])


def _temps_shape(fun='_con_val_func', lin='lb, ub'):
    """fun/jac wrappers in temporaries, object built inside the append, LinearConstraint called positionally (benign C21_b3_2)."""
    body = ("                            args = [name, False, j]\n"
            "                            lb_j = np.maximum(lb[j], -INF_BOUND)\n"
            "                            ub_j = np.minimum(ub[j], INF_BOUND)\n"
            f"                            con_fun = signature_extender(WeakMethodWrapper(self, '{fun}'), args)\n"
            "                            con_jac = signature_extender(WeakMethodWrapper(self, '_congradfunc'), args)\n"
            "                            constraints.append(NonlinearConstraint(fun=con_fun, lb=lb_j, ub=ub_j,\n"
            "                                                                   jac=con_jac))\n")
    return dict(new=body, also=[
        (_S, "                        con = LinearConstraint(A=lincongrad[self._con_idx[name]],\n"
             "                                               lb=lb, ub=ub, keep_feasible=True)\n",
         "                        lin_row = self._con_idx[name]\n"
         f"                        con = LinearConstraint(lincongrad[lin_row], {lin}, keep_feasible=True)\n")])


_STATUS_OLD = ("        if hasattr(result, 'success'):\n"
               "            self.fail = not result.success\n"
               "            if self.fail:\n"
               "                if prob.comm.rank == 0:\n"
               "                    print('Optimization FAILED.')\n"
               "                    print(result.message)\n"
               "                    print('-' * 35)\n"
               "\n"
               "            elif self.options['disp']:\n"
               "                if prob.comm.rank == 0:\n"
               "                    print('Optimization Complete')\n"
               "                    print('-' * 35)\n"
               "        else:\n"
               "            self.fail = True  # It is not known, so the worst option is assumed\n"
               "            if prob.comm.rank == 0:\n"
               "                print('Optimization Complete (success not known)')\n"
               "                print(result.message)\n"
               "                print('-' * 35)\n")


def _status_early(unknown_ret='self.fail', flag='not result.success'):
    return ("        if not hasattr(result, 'success'):\n"
            "            self.fail = True\n"
            "            if prob.comm.rank == 0:\n"
            "                print('Optimization Complete (success not known)')\n"
            f"            return {unknown_ret}\n"
            "\n"
            f"        self.fail = {flag}\n"
            "        if self.fail and prob.comm.rank == 0:\n"
            "            print('Optimization FAILED.')\n")


_CONGRAD_TAIL_OLD = ("        if isinstance(lower, np.ndarray):\n"
                     "            lower = lower[idx]\n"
                     "\n"
                     "        if dbl or (lower <= -INF_BOUND):\n"
                     "            return -grad[grad_idx, :]\n"
                     "        else:\n"
                     "            return grad[grad_idx, :]\n")


def _congrad_tail(expr='-grad[grad_idx, :] if negate else grad[grad_idx, :]'):
    return ("        lower = lower[idx] if isinstance(lower, np.ndarray) else lower\n"
            "\n"
            "        negate = dbl or (lower <= -INF_BOUND)\n"
            f"        return {expr}\n")


_UNSCALE_LOOKUP = ("            scaler = self._var_meta[vec.voi_type][name]['total_scaler']\n"
                   "            adder = self._var_meta[vec.voi_type][name]['total_adder']\n")


def _lookup_helper(ret="meta['total_scaler'], meta['total_adder']"):
    """scaler/adder lookups extracted into a private helper returning a tuple (benign C20_b2_2 / C21_b2_4)."""
    helper = ("    def _total_scaling(self, voi_type, name):\n"
              "        meta = self._var_meta[voi_type][name]\n"
              f"        return {ret}\n"
              "\n"
              "    def apply_design_var_unscaling(self, vec: 'OptimizerVector'):\n")
    call = "            scaler, adder = self._total_scaling(vec.voi_type, name)\n"
    return dict(new=call, nth=0, also=[(AUTO, _UNSCALE_LOOKUP, call),
                                        (AUTO, "    def apply_design_var_unscaling(self, vec: 'OptimizerVector'):\n", helper)])


selftest(
    'C21',
    # ---- fourth robustness round: bounds tuple kept in a local, then unpacked
    Twin('twin-bounds-tuple-local-then-unpacked', _S,
         "        lower_con, upper_con, equals_con = self._autoscaler.get_bounds_scaling('constraint')\n",
         "        scaled_bounds = self._autoscaler.get_bounds_scaling('constraint')\n"
         "        lower_con, upper_con, equals_con = scaled_bounds\n", nth=1),
    Mutant('cover-bounds-tuple-local-unpack-swapped', _S,
           "        lower_con, upper_con, equals_con = self._autoscaler.get_bounds_scaling('constraint')\n",
           "        scaled_bounds = self._autoscaler.get_bounds_scaling('constraint')\n"
           "        upper_con, lower_con, equals_con = scaled_bounds\n", 'C21.cover', nth=1),
    # ---- third robustness round: wrappers in temporaries, positional LinearConstraint, returned alias of self.fail
    Twin('twin-wrapper-temporaries-positional-linear', _S, _NL_BODY_OLD, **_temps_shape()),
    Mutant('newbounds-temps-fun-is-confunc', _S, _NL_BODY_OLD, expect='C21.newbounds', **_temps_shape(fun='_confunc')),
    Mutant('newbounds-positional-linear-swapped', _S, _NL_BODY_OLD, expect='C21.newbounds', **_temps_shape(lin='ub, lb')),
    Mutant('linear-positional-bare-lower', _S, _NL_BODY_OLD, expect='C21.linear', **_temps_shape(lin='lower, ub')),
    Mutant('sign-temps-still-checked', _S, _NL_BODY_OLD, expect='C21.sign',
           **{**_temps_shape(), 'also': _temps_shape()['also'] + [
               (_S, "        if meta['equals'] is not None:\n            return grad[grad_idx, :]",
                "        if meta['equals'] is not None:\n            return -grad[grad_idx, :]")]}),
    Twin('twin-status-alias-returned', _S, "            self.fail = not result.success\n            if self.fail:\n",
         "            self.fail = failed = not result.success\n            if failed:\n",
         also=[(_S, "            self.fail = True  # It is not known", "            self.fail = failed = True  # It is not known"),
            (_S, "        return self.fail\n\n    def _objfunc", "        return failed\n\n    def _objfunc")]),
    Mutant('status-alias-constant-returned', _S, "            self.fail = not result.success\n            if self.fail:\n",
           "            self.fail = not result.success\n            failed = False\n            if self.fail:\n", 'C21.status',
           also=[(_S, "            self.fail = True  # It is not known", "            failed = False\n            self.fail = True  # It is not known"),
                 (_S, "        return self.fail\n\n    def _objfunc", "        return failed\n\n    def _objfunc")]),
    # ---- second robustness round: builder helpers, tuple conditionals, early returns, conditional returns
    Twin('twin-builder-helper-tuple-conditional', _S, _NL_BODY_OLD, **_builder_shape()),
    Mutant('newbounds-builder-clamp-min', _S, _NL_BODY_OLD, expect='C21.newbounds',
           **_builder_shape(lb_clamp='np.minimum(lb_j, -INF_BOUND)')),
    Mutant('newbounds-builder-args-swapped', _S, _NL_BODY_OLD, expect='C21.newbounds',
           **_builder_shape(call_args='name, j, ub[j], lb[j]')),
    Mutant('newbounds-builder-element-0', _S, _NL_BODY_OLD, expect='C21.newbounds',
           **_builder_shape(call_args='name, j, lb[0], ub[j]')),
    Mutant('newbounds-tuple-conditional-swapped', _S, _NL_BODY_OLD, expect='C21.newbounds',
           **_builder_shape(lbub='(upper, lower) if equals is None else (equals, equals)')),
    Mutant('newbounds-tuple-conditional-eq-dropped', _S, _NL_BODY_OLD, expect='C21.newbounds',
           **_builder_shape(lbub='(lower, upper) if equals is not None else (equals, equals)')),
    Mutant('emit-builder-appended-elsewhere', _S, _NL_BODY_OLD, expect='C21.emit', **_builder_shape(target='lincons')),
    Mutant('sign-builder-still-checked', _S, _NL_BODY_OLD, expect='C21.sign',
           **{**_builder_shape(), 'also': _builder_shape()['also'] + [
               (_S, "        if meta['equals'] is not None:\n            return grad[grad_idx, :]",
                "        if meta['equals'] is not None:\n            return -grad[grad_idx, :]")]}),
    Twin('twin-status-early-return', _S, _STATUS_OLD, _status_early()),
    Mutant('status-early-return-claims-success', _S, _STATUS_OLD, _status_early(unknown_ret='False'), 'C21.status'),
    Mutant('status-early-return-inverted', _S, _STATUS_OLD, _status_early(flag='result.success'), 'C21.status'),
    Twin('twin-congrad-conditional-return', _S, _CONGRAD_TAIL_OLD, _congrad_tail()),
    Mutant('sign-conditional-return-swapped', _S, _CONGRAD_TAIL_OLD,
           _congrad_tail('grad[grad_idx, :] if negate else -grad[grad_idx, :]'), 'C21.sign'),
    Twin('twin-scaler-adder-lookup-helper', AUTO, _UNSCALE_LOOKUP, **_lookup_helper()),
    Mutant('mirror-lookup-helper-swapped', AUTO, _UNSCALE_LOOKUP, expect='C21.mirror',
           **_lookup_helper("meta['total_adder'], meta['total_scaler']")),
    # ---- refactored shapes (benign C21_2 / C21_3): accepted when right, still reported when wrong
    Twin('twin-confunc-helper-tuple-index', _S, _CONFUNC_OLD, _confunc_helper()),
    Mutant('cover-helper-upper-sign', _S, _CONFUNC_OLD, _confunc_helper(upper_form='con_cache[name][idx] - upper'), 'C21.cover'),
    Mutant('cover-helper-args-swapped', _S, _CONFUNC_OLD, _confunc_helper(args='scaled_bounds[1], scaled_bounds[0]'), 'C21.cover'),
    Mutant('cover-helper-eq-slot', _S, _CONFUNC_OLD, _confunc_helper(eqslot=1), 'C21.cover'),
    Mutant('sign-helper-upper-sign', _S, _CONFUNC_OLD, _confunc_helper(upper_form='con_cache[name][idx] - upper'), 'C21.sign'),
    Twin('twin-dict-literals-hoisted-type', _S, _DICT_OLD, _dict_new("'ineq' if meta['equals'] is None else 'eq'"),
         also=[(_S, _DDICT_OLD, _DDICT_NEW)]),
    Mutant('cover-dict-literal-type-flipped', _S, _DICT_OLD, _dict_new("'eq' if meta['equals'] is None else 'ineq'"), 'C21.cover',
           also=[(_S, _DDICT_OLD, _DDICT_NEW)]),
    Mutant('cover-dict-literal-inline-guard-never', _S, _DICT_OLD, _dict_new("'ineq' if meta['equals'] is None else 'eq'"), 'C21.cover',
           also=[(_S, _DDICT_OLD, _DDICT_NEW.replace('(lower_j > -INF_BOUND)', '(lower_j > INF_BOUND)'))]),
    Mutant('emit-dict-literal-not-appended', _S, _DICT_OLD, _dict_new("'ineq' if meta['equals'] is None else 'eq'"), 'C21.emit',
           also=[(_S, _DDICT_OLD, _DDICT_NEW), (_S, "                            constraints.append(dcon_dict)\n", "                            pass\n")]),
    Twin('twin-index-inverted-plain-increment', _S, _IDX_OLD, _idx_new()),
    Mutant('index-plain-increment-by-one', _S, _IDX_OLD, _idx_new('nl_i + 1'), 'C21.index'),
    Mutant('index-inverted-branches-counters-swapped', _S, _IDX_OLD,
           _idx_new().replace('= nl_i\n', '= lin_i\n', 1), 'C21.index'),
    # ---- round-2 seeds and their clauses
    Mutant('seed2-shared-args-list', _S,                                  # /tmp/seed2/C21/seed_out/1
           "                        for j in range(size):\n                            # TODO add option for Hessian\n"
           "                            # Double-sided constraints are accepted by the algorithm\n"
           "                            args = [name, False, j]\n",
           "                        args = [name, False, 0]\n                        for j in range(size):\n"
           "                            args[2] = j\n", 'C21.newbounds'),
    Mutant('newbounds-args-mutated-in-loop', _S, "                            args = [name, False, j]\n",
           "                            args = [name, False, j]\n                            args[2] = size - 1\n", 'C21.newbounds'),
    Mutant('cover-shared-args-old-style', _S, "                        con_dict['args'] = [name, False, j]\n",
           "                        con_dict['args'] = shared_args\n", 'C21.cover',
           also=[(_S, "                    for j in range(size):\n                        con_dict = {}\n",
                  "                    shared_args = [name, False, 0]\n                    for j in range(size):\n"
                  "                        shared_args[2] = j\n                        con_dict = {}\n")]),
    Twin('twin-args-fresh-list-via-local', _S, "                        con_dict['args'] = [name, False, j]\n",
         "                        first_args = [name, False, j]\n                        con_dict['args'] = first_args\n"),
    Mutant('seed2-unscaling-continue-skips-adder', AUTO,                  # /tmp/seed2/C21/seed_out/2
           "            if scaler is not None:\n                vec[name] /= scaler\n            if adder is not None:\n"
           "                vec[name] -= adder\n",
           "            if scaler is None:\n                continue\n            vec[name] /= scaler\n"
           "            if adder is not None:\n                vec[name] -= adder\n", 'C21.mirror'),
    Mutant('mirror-unscaling-order', AUTO,
           "            if scaler is not None:\n                vec[name] /= scaler\n            if adder is not None:\n"
           "                vec[name] -= adder\n",
           "            if adder is not None:\n                vec[name] -= adder\n            if scaler is not None:\n"
           "                vec[name] /= scaler\n", 'C21.mirror'),
    Mutant('mirror-unscaling-adds', AUTO, "                vec[name] -= adder\n", "                vec[name] += adder\n", 'C21.mirror'),
    Mutant('mirror-scaling-elif', AUTO, "            if scaler is not None:\n                vec[name] *= scaler\n",
           "            elif scaler is not None:\n                vec[name] *= scaler\n", 'C21.mirror'),
    Mutant('mirror-flag-not-cleared', AUTO, "        vec._driver_scaling = False\n", "        vec._driver_scaling = True\n", 'C21.mirror'),
    Mutant('mirror-delegate-swapped', AUTO,
           "            An OptimizerVector with voi_type='design_var'.\n        \"\"\"\n        self._apply_vec_unscaling(vec)\n",
           "            An OptimizerVector with voi_type='design_var'.\n        \"\"\"\n        self._apply_vec_scaling(vec)\n",
           'C21.mirror'),
    Twin('twin-unscaling-continue-when-nothing', AUTO,
         "            if scaler is not None:\n                vec[name] /= scaler\n            if adder is not None:\n"
         "                vec[name] -= adder\n",
         "            if scaler is None and adder is None:\n                continue\n            if not (scaler is None):\n"
         "                vec[name] /= scaler\n            if adder is None:\n                continue\n"
         "            vec[name] -= adder\n"),
    Mutant('seed2-reraise-folded-into-except', _S,                       # /tmp/seed2/C21/seed_out/3
           "            if self._exc_info is None:\n                raise\n\n        if self._exc_info is not None:\n"
           "            self._reraise()\n",
           "            if self._exc_info is None:\n                raise\n            self._reraise()\n", 'C21.status'),
    # ---- loopdef
    Mutant('loopdef-f6-prefix-shape', _S, _OLD_ELEM,
           "                        if isinstance(upper, np.ndarray):\n"
           "                            upper = upper[j]\n"
           "\n"
           "                        if isinstance(lower, np.ndarray):\n"
           "                            lower = lower[j]\n"
           "\n"
           "                        dblcon = (upper < INF_BOUND) and (lower > -INF_BOUND)\n", 'C21.loopdef'),
    Mutant('loopdef-lower-rebound', _S,
           "                        lower_j = lower[j] if isinstance(lower, np.ndarray) else lower\n",
           "                        lower = lower_j = lower[j] if isinstance(lower, np.ndarray) else lower\n",
           'C21.loopdef'),
    Mutant('loopdef-newstyle-ub-rebound', _S, "                            ub_j = np.minimum(ub[j], INF_BOUND)\n",
           "                            ub = ub_j = np.minimum(ub[j] if np.ndim(ub) else ub, INF_BOUND)\n",
           'C21.loopdef'),
    # ---- emit
    Mutant('emit-dbl-not-appended', _S, "                            constraints.append(dcon_dict)\n",
           "                            pass\n", 'C21.emit'),
    Mutant('emit-append-other-list', _S, "                        constraints.append(con_dict)\n",
           "                        lincons.append(con_dict)\n", 'C21.emit'),
    Mutant('emit-range-short', _S, "                    for j in range(size):\n", "                    for j in range(size - 1):\n",
           'C21.emit'),
    Mutant('emit-range-from-1', _S, "                        for j in range(size):\n", "                        for j in range(1, size):\n",
           'C21.emit'),
    Mutant('emit-dict-hoisted', _S,
           "                    for j in range(size):\n                        con_dict = {}\n",
           "                    con_dict = {}\n                    for j in range(size):\n", 'C21.emit'),
    Mutant('emit-linear-not-appended', _S,
           "lb=lb, ub=ub, keep_feasible=True)\n                        constraints.append(con)\n",
           "lb=lb, ub=ub, keep_feasible=True)\n", 'C21.emit'),
    Mutant('emit-prefix-append-outside-loop', _S,          # the shape repaired in /repo (finding of this module)
           "                            )\n                            constraints.append(con)\n",
           "                            )\n                    constraints.append(con)\n", 'C21.emit',
           also=[(_S, "lb=lb, ub=ub, keep_feasible=True)\n                        constraints.append(con)\n",
                  "lb=lb, ub=ub, keep_feasible=True)\n")]),
    Mutant('emit-newstyle-append-dedented-once', _S,
           "                            )\n                            constraints.append(con)\n",
           "                            )\n                        constraints.append(con)\n", 'C21.emit'),
    # ---- cover
    Mutant('cover-seed-dblcon-np-all-hoisted', _S, _OLD_ELEM, "", 'C21.cover',      # /tmp/seed/C21/seed_out/1
           also=[(_S, "                    for j in range(size):\n                        con_dict = {}\n",
                  "                    dblcon = np.all(upper < INF_BOUND) and np.all(lower > -INF_BOUND)\n\n"
                  "                    for j in range(size):\n                        con_dict = {}\n")]),
    Mutant('cover-dblcon-method-all-hoisted', _S, _OLD_ELEM, "", 'C21.cover',
           also=[(_S, "                    for j in range(size):\n                        con_dict = {}\n",
                  "                    dblcon = ((upper < INF_BOUND) & (lower > -INF_BOUND)).all()\n\n"
                  "                    for j in range(size):\n                        con_dict = {}\n")]),
    Mutant('cover-dblcon-all-upper-in-loop', _S, "dblcon = (upper_j < INF_BOUND) and (lower_j > -INF_BOUND)",
           "dblcon = np.all(upper < INF_BOUND) and (lower_j > -INF_BOUND)", 'C21.cover'),
    Mutant('cover-dblcon-element-0', _S, "upper_j = upper[j] if isinstance(upper, np.ndarray) else upper",
           "upper_j = upper[0] if isinstance(upper, np.ndarray) else upper", 'C21.cover'),
    Mutant('cover-dblcon-hoisted-first-element', _S, _OLD_ELEM, "", 'C21.cover',
           also=[(_S, "                    for j in range(size):\n                        con_dict = {}\n",
                  "                    dblcon = (upper[0] < INF_BOUND) and (lower[0] > -INF_BOUND)\n\n"
                  "                    for j in range(size):\n                        con_dict = {}\n")]),
    Mutant('cover-dblcon-mask-wrong-index', _S, _OLD_ELEM, "                        dblcon = dbl_mask[0]\n", 'C21.cover',
           also=[(_S, "                    for j in range(size):\n                        con_dict = {}\n",
                  "                    dbl_mask = (upper < INF_BOUND) & (lower > -INF_BOUND)\n\n"
                  "                    for j in range(size):\n                        con_dict = {}\n")]),
    Mutant('cover-dbl-never', _S, "and (lower_j > -INF_BOUND)", "and (lower_j > INF_BOUND)", 'C21.cover'),
    Mutant('cover-confunc-and', _S, "        if dbl or (lower <= -INF_BOUND):\n            return upper - cons[name][idx]",
           "        if dbl and (lower <= -INF_BOUND):\n            return upper - cons[name][idx]", 'C21.cover'),
    Mutant('cover-confunc-upper-sign', _S, "            return upper - cons[name][idx]", "            return cons[name][idx] - upper",
           'C21.cover'),
    Mutant('cover-confunc-lower-sign', _S, "            return cons[name][idx] - lower", "            return lower - cons[name][idx]",
           'C21.cover'),
    Mutant('cover-confunc-elem0', _S, "        upper = upper_con[name][idx]\n", "        upper = upper_con[name][0]\n", 'C21.cover'),
    Mutant('cover-eq-type-flipped', _S,
           "                        if meta['equals'] is not None:\n                            con_dict['type'] = 'eq'",
           "                        if meta['equals'] is None:\n                            con_dict['type'] = 'eq'", 'C21.cover'),
    Mutant('cover-args-const-index', _S, "con_dict['args'] = [name, False, j]", "con_dict['args'] = [name, False, 0]",
           'C21.cover'),
    Mutant('cover-dbl-flag-false', _S, "dcon_dict['args'] = [name, True, j]", "dcon_dict['args'] = [name, False, j]",
           'C21.cover'),
    Mutant('cover-unpack-swapped', _S, "        lower_con, upper_con, equals_con = self._autoscaler.get_bounds_scaling('constraint')\n",
           "        upper_con, lower_con, equals_con = self._autoscaler.get_bounds_scaling('constraint')\n", 'C21.cover'),
    Mutant('cover-unpack-swapped-confunc', _S, "        lower_con, upper_con, equals_con = self._autoscaler.get_bounds_scaling('constraint')\n",
           "        upper_con, lower_con, equals_con = self._autoscaler.get_bounds_scaling('constraint')\n", 'C21.cover', nth=1),
    Mutant('cover-confunc-raw-lower', _S, "        lower = lower_con[name][idx]\n", "        lower = meta['lower']\n", 'C21.cover'),
    Mutant('cover-confunc-raw-equals', _S, "            eq = equals_con[name]\n", "            eq = meta['equals']\n", 'C21.cover'),
    Mutant('cover-eq-value-upper', _S, "            eq = equals_con[name]\n", "            eq = upper_con[name]\n", 'C21.cover'),
    Mutant('cover-value-not-cache', _S, "        cons = self._con_cache\n        meta = self._cons[name]\n",
           "        cons = self._con_cache\n        meta = self._cons[name]\n        idx = 0\n", 'C21.cover'),
    Mutant('cover-getbounds-return-swapped', AUTO,
           "        return (self._scaled_lower[voi_type],\n                self._scaled_upper[voi_type],",
           "        return (self._scaled_upper[voi_type],\n                self._scaled_lower[voi_type],", 'C21.cover'),
    Mutant('cover-setup-slots-swapped', AUTO,
           "            self._scaled_lower[voi_type], \\\n                self._scaled_upper[voi_type], \\",
           "            self._scaled_upper[voi_type], \\\n                self._scaled_lower[voi_type], \\", 'C21.cover'),
    # ---- sign
    Mutant('sign-congrad-dbl-only', _S, "        if dbl or (lower <= -INF_BOUND):\n            return -grad[grad_idx, :]",
           "        if dbl:\n            return -grad[grad_idx, :]", 'C21.sign'),
    Mutant('sign-congrad-swapped', _S, "            return -grad[grad_idx, :]\n        else:\n            return grad[grad_idx, :]",
           "            return grad[grad_idx, :]\n        else:\n            return -grad[grad_idx, :]", 'C21.sign'),
    Mutant('sign-grad-row', _S, "        grad_idx = self._con_idx[name] + idx\n", "        grad_idx = self._con_idx[name]\n", 'C21.sign'),
    Mutant('sign-eq-negated', _S, "        if meta['equals'] is not None:\n            return grad[grad_idx, :]",
           "        if meta['equals'] is not None:\n            return -grad[grad_idx, :]", 'C21.sign'),
    Mutant('sign-confunc-eq-flipped', _S, "            return cons[name][idx] - eq[idx]", "            return eq[idx] - cons[name][idx]",
           'C21.sign'),
    # ---- newbounds
    Mutant('newbounds-clamp-min', _S, "lb_j = np.maximum(lb[j], -INF_BOUND)", "lb_j = np.minimum(lb[j], -INF_BOUND)", 'C21.newbounds'),
    Mutant('newbounds-clamp-sentinel', _S, "ub_j = np.minimum(ub[j], INF_BOUND)", "ub_j = np.minimum(ub[j], -INF_BOUND)", 'C21.newbounds'),
    Mutant('newbounds-swapped', _S, "                        lb = lower\n                        ub = upper\n",
           "                        lb = upper\n                        ub = lower\n", 'C21.newbounds'),
    Mutant('newbounds-eq-flipped', _S, "                    if equals is not None:\n                        lb = ub = equals",
           "                    if equals is None:\n                        lb = ub = equals", 'C21.newbounds'),
    Mutant('newbounds-elem0', _S, "ub_j = np.minimum(ub[j], INF_BOUND)", "ub_j = np.minimum(ub[0], INF_BOUND)", 'C21.newbounds'),
    Mutant('newbounds-args-dbl', _S, "                            args = [name, False, j]\n", "                            args = [name, True, j]\n",
           'C21.newbounds'),
    Mutant('newbounds-raw-bounds', _S, "                        lb = lower\n                        ub = upper\n",
           "                        lb = lower\n                        ub = np.broadcast_to(meta['upper'], (size,)) if False else meta['upper']\n",
           'C21.newbounds'),
    Mutant('newbounds-ub-is-lb', _S, "                                lb=lb_j, ub=ub_j,\n", "                                lb=lb_j, ub=lb_j,\n", 'C21.newbounds'),
    # ---- linear
    Mutant('linear-bare-lower', _S, "lb=lb, ub=ub, keep_feasible=True", "lb=lower, ub=ub, keep_feasible=True", 'C21.linear'),
    Mutant('linear-only-lb-corrected', _S, "lb=lb, ub=ub, keep_feasible=True",
           "lb=lb - (self._con_cache[name] - lincongrad[self._con_idx[name]] @ x_init), ub=upper, keep_feasible=True",
           'C21.linear'),
    # ---- cache
    Mutant('cache-before-run', _S, "            self._con_cache = self.get_constraint_values()\n\n        except Exception:",
           "        except Exception:", 'C21.cache',
           also=[(_S, "            with RecordingDebugging(self._get_name(), self.iter_count, self):\n                self.iter_count += 1\n",
                  "            self._con_cache = self.get_constraint_values()\n"
                  "            with RecordingDebugging(self._get_name(), self.iter_count, self):\n                self.iter_count += 1\n")]),
    Mutant('cache-not-refreshed', _S, "            self._con_cache = self.get_constraint_values()\n\n        except Exception:",
           "            pass\n\n        except Exception:", 'C21.cache'),
    Mutant('cache-unscaled', _S, "            self._con_cache = self.get_constraint_values()\n\n        except Exception:",
           "            self._con_cache = self.get_constraint_values(driver_scaling=False)\n\n        except Exception:", 'C21.cache'),
    Mutant('cache-violations', _S, "            self._con_cache = self.get_constraint_values()\n\n        except Exception:",
           "            self._con_cache = self.get_constraint_values(viol=True)\n\n        except Exception:", 'C21.cache'),
    Mutant('cache-only-nonlinear', _S, "            self._con_cache = self.get_constraint_values()\n\n        except Exception:",
           "            self._con_cache = self.get_constraint_values(lintype='nonlinear')\n\n        except Exception:", 'C21.cache'),
    Mutant('cache-design-after-run', _S,
           "            self._set_design_vars(driver_scaling=True)\n\n            with RecordingDebugging(self._get_name(), self.iter_count, self):\n"
           "                self.iter_count += 1\n                with model._relevance.nonlinear_active('iter'):\n"
           "                    self._run_solve_nonlinear()\n",
           "            with RecordingDebugging(self._get_name(), self.iter_count, self):\n"
           "                self.iter_count += 1\n                with model._relevance.nonlinear_active('iter'):\n"
           "                    self._run_solve_nonlinear()\n\n            self._set_design_vars(driver_scaling=True)\n", 'C21.cache'),
    Mutant('cache-design-not-set', _S, "            dv_vec.set_data(x_new, driver_scaling=True)\n",
           "            dv_vec.set_data(self._desvar_array_cache, driver_scaling=True)\n", 'C21.cache'),
    Mutant('cache-new-writer', _S, "            self._grad_cache = grad\n", "            self._grad_cache = grad\n            self._con_cache = {}\n",
           'C21.cache'),
    Mutant('cache-reeval-elsewhere', _S, "            self._objfunc(x_new)\n\n        return self._con_cache[name][idx]",
           "            self._objfunc(self._desvar_array_cache)\n\n        return self._con_cache[name][idx]", 'C21.cache'),
    # ---- slots
    Mutant('slots-upper-is-lower-sentinel', AUTO, "meta.get('upper', INF_BOUND), adder, scaler, size, is_lower=False)",
           "meta.get('upper', INF_BOUND), adder, scaler, size, is_lower=True)", 'C21.slots'),
    Mutant('slots-upper-from-lower-key', AUTO, "meta.get('upper', INF_BOUND), adder", "meta.get('lower', INF_BOUND), adder", 'C21.slots'),
    Mutant('slots-vector-from-wrong-data', AUTO, "lower_vec = OptimizerVector(voi_type, lower_data, vecmeta)",
           "lower_vec = OptimizerVector(voi_type, upper_data, vecmeta)", 'C21.slots'),
    Mutant('slots-lower-default-sign', AUTO, "meta.get('lower', -INF_BOUND), adder", "meta.get('lower', INF_BOUND), adder", 'C21.slots'),
    # ---- scalebound
    Mutant('scalebound-seed-not-any', AUTO, "        if not inf_mask.all():\n", "        if not inf_mask.any():\n",
           'C21.scalebound'),                                                     # /tmp/seed/C21/seed_out/3
    Mutant('scalebound-finite-all', AUTO, "        if not inf_mask.all():\n            finite = ~inf_mask\n",
           "        finite = ~inf_mask\n        if finite.all():\n", 'C21.scalebound'),
    Mutant('scalebound-guard-inverted', AUTO, "        if not inf_mask.all():\n", "        if inf_mask.all():\n", 'C21.scalebound'),
    Mutant('scalebound-scaler-on-infinite', AUTO, "                val_arr[finite] *= scaler", "                val_arr[inf_mask] *= scaler",
           'C21.scalebound'),
    Mutant('scalebound-adder-early-return', AUTO, "        if not inf_mask.all():\n",
           "        if inf_mask.any():\n            return val_arr.ravel()\n        if not inf_mask.all():\n", 'C21.scalebound'),
    # ---- index
    Mutant('index-nl-start-0', _S, "        nl_i = 1  # start at 1", "        nl_i = 0  # start at 1", 'C21.index'),
    Mutant('index-advance-before-store', _S, "                    self._con_idx[name] = nl_i\n                    nl_i += size\n",
           "                    nl_i += size\n                    self._con_idx[name] = nl_i\n", 'C21.index'),
    Mutant('index-advance-by-one', _S, "                    lin_i += size\n", "                    lin_i += 1\n", 'C21.index'),
    Mutant('index-not-advanced', _S, "                    self._con_idx[name] = nl_i\n                    nl_i += size\n",
           "                    self._con_idx[name] = nl_i\n", 'C21.index'),
    Mutant('index-nlcons-on-linear-branch', _S,
           "                    self._con_idx[name] = lin_i\n                    lin_i += size\n                else:\n"
           "                    self._obj_and_nlcons.append(name)\n",
           "                    self._con_idx[name] = lin_i\n                    lin_i += size\n"
           "                    self._obj_and_nlcons.append(name)\n                else:\n", 'C21.index'),
    # ---- status
    Mutant('status-inverted', _S, "            self.fail = not result.success\n", "            self.fail = result.success\n", 'C21.status'),
    Mutant('status-unknown-is-success', _S, "            self.fail = True  # It is not known", "            self.fail = False  # It is not known",
           'C21.status'),
    Mutant('status-no-reraise', _S, "        if self._exc_info is not None:\n            self._reraise()\n\n        self._scipy_optimize_result = result\n",
           "        self._scipy_optimize_result = result\n", 'C21.status'),
    Mutant('status-reraise-after', _S, "        if self._exc_info is not None:\n            self._reraise()\n\n        self._scipy_optimize_result = result\n",
           "        self._scipy_optimize_result = result\n", 'C21.status',
           also=[(_S, "        return self.fail\n\n    def _objfunc", "        if self._exc_info is not None:\n            self._reraise()\n\n"
                  "        return self.fail\n\n    def _objfunc")]),
    Mutant('status-driver-inverted', DRIVER, "                self.result.success = not self.run()\n", "                self.result.success = self.run()\n",
           'C21.status'),
    # ---- twins
    Twin('twin-rename-elem-locals', _S, _OLD_ELEM,
         "                        hi = upper[j] if isinstance(upper, np.ndarray) else upper\n"
         "                        lo = lower[j] if isinstance(lower, np.ndarray) else lower\n"
         "\n"
         "                        dblcon = (hi < INF_BOUND) and (lo > -INF_BOUND)\n"),
    Twin('twin-flip-compare', _S, "dblcon = (upper_j < INF_BOUND) and (lower_j > -INF_BOUND)",
         "dblcon = (-INF_BOUND < lower_j) and (INF_BOUND > upper_j)"),
    Twin('twin-plain-index', _S, _OLD_ELEM,
         "                        upper_j = upper[j]\n"
         "                        lower_j = lower[j]\n"
         "\n"
         "                        dblcon = (upper_j < INF_BOUND) and (lower_j > -INF_BOUND)\n"),
    Twin('twin-confunc-flipped-branches', _S,
         "        if dbl or (lower <= -INF_BOUND):\n            return upper - cons[name][idx]\n        else:\n            return cons[name][idx] - lower\n",
         "        if not dbl and (lower > -INF_BOUND):\n            return cons[name][idx] - lower\n        else:\n            return upper - cons[name][idx]\n"),
    Twin('twin-confunc-inline-cache', _S,
         "        if dbl or (lower <= -INF_BOUND):\n            return upper - cons[name][idx]\n        else:\n            return cons[name][idx] - lower\n",
         "        if dbl or (lower <= -INF_BOUND):\n            return upper - self._con_cache[name][idx]\n        else:\n            return self._con_cache[name][idx] - lower\n"),
    Twin('twin-eq-type-flipped-if', _S,
         "                        if meta['equals'] is not None:\n                            con_dict['type'] = 'eq'\n"
         "                        else:\n                            con_dict['type'] = 'ineq'\n",
         "                        if meta['equals'] is None:\n                            con_dict['type'] = 'ineq'\n"
         "                        else:\n                            con_dict['type'] = 'eq'\n"),
    Twin('twin-newstyle-inline-clamp', _S,
         "                            lb_j = np.maximum(lb[j], -INF_BOUND)\n                            ub_j = np.minimum(ub[j], INF_BOUND)\n",
         "                            lb_j = np.maximum(-INF_BOUND, lb[j])\n                            hi = ub[j]\n"
         "                            ub_j = np.minimum(hi, INF_BOUND)\n"),
    Twin('twin-newstyle-meta-equals-test', _S, "                    if equals is not None:\n                        lb = ub = equals\n",
         "                    if meta['equals'] is not None:\n                        ub = equals\n                        lb = equals\n"),
    Twin('twin-congrad-flipped-branches', _S,
         "        if dbl or (lower <= -INF_BOUND):\n            return -grad[grad_idx, :]\n        else:\n            return grad[grad_idx, :]\n",
         "        if not (dbl or lower <= -INF_BOUND):\n            return grad[grad_idx, :]\n        return -grad[grad_idx, :]\n"),
    Twin('twin-index-reordered', _S,
         "                    self._obj_and_nlcons.append(name)\n                    self._con_idx[name] = nl_i\n",
         "                    self._con_idx[name] = nl_i\n                    self._obj_and_nlcons.append(name)\n"),
    Twin('twin-objfunc-rename-and-kw', _S, "            self._con_cache = self.get_constraint_values()\n\n        except Exception:",
         "            self._con_cache = self.get_constraint_values(driver_scaling=True)\n\n        except Exception:"),
    Twin('twin-status-temp', _S, "            self.fail = not result.success\n", "            self.fail = not result.success\n            failed = self.fail\n"),
    Twin('twin-dblcon-mask-hoisted', _S, _OLD_ELEM, "                        dblcon = dbl_mask[j]\n",
         also=[(_S, "                    for j in range(size):\n                        con_dict = {}\n",
                "                    dbl_mask = (upper < INF_BOUND) & (lower > -INF_BOUND)\n\n"
                "                    for j in range(size):\n                        con_dict = {}\n")]),
    Twin('twin-dblcon-any-overemits-harmlessly', _S, _OLD_ELEM, "",
         also=[(_S, "                    for j in range(size):\n                        con_dict = {}\n",
                "                    dblcon = np.any(upper < INF_BOUND) and np.any(lower > -INF_BOUND)\n\n"
                "                    for j in range(size):\n                        con_dict = {}\n")]),
    Twin('twin-scalebound-finite-any', AUTO, "        if not inf_mask.all():\n            finite = ~inf_mask\n",
         "        finite = ~inf_mask\n        if finite.any():\n"),
    Twin('twin-scalebound-invert-any', AUTO, "        if not inf_mask.all():\n", "        if (~inf_mask).any():\n"),
    Twin('twin-scalebound-np-all', AUTO, "        if not inf_mask.all():\n", "        if not np.all(inf_mask):\n"),
    Twin('twin-scalebound-unguarded', AUTO,
         "        if not inf_mask.all():\n            finite = ~inf_mask\n            if adder is not None:\n"
         "                val_arr[finite] += adder if np.isscalar(adder) else np.asarray(adder)[finite]\n"
         "            if scaler is not None:\n"
         "                val_arr[finite] *= scaler if np.isscalar(scaler) else np.asarray(scaler)[finite]\n",
         "        finite = ~inf_mask\n        if adder is not None:\n"
         "            val_arr[finite] += adder if np.isscalar(adder) else np.asarray(adder)[finite]\n"
         "        if scaler is not None:\n"
         "            val_arr[finite] *= scaler if np.isscalar(scaler) else np.asarray(scaler)[finite]\n"),
    Twin('twin-repaired-newstyle', _S, _FIX_LINEAR_OLD, _FIX_LINEAR_NEW,
         also=[(_S, _FIX_APPEND_OLD, _FIX_APPEND_NEW), (_S, _FIX_GRAD_OLD, _FIX_GRAD_NEW)]),
)
