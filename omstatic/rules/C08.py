"""C08 -- solver scaling (ref/ref0/res_ref) never changes physical results.

Structural clauses: the scale/unscale contexts are exact mirrors under try/finally; scale_to_norm /
scale_to_phys and _scale_forward/_scale_reverse are inverse operation sequences; every output/residual
vector handed to user code is in the physical state (ENCLOSE, interprocedural through the wrapper
methods); no recognised vector operation combines a scaled with an unscaled vector (STATE);
scale_to_* is called only from the tabled sites, in matched pairs.
"""
import ast

from .. import astx, pathx, cfg as cfgm
from ..core import AnalysisError
from ..engine import rule, describe, selftest, Mutant, Twin

SYSTEM = 'openmdao/core/system.py'
DVEC = 'openmdao/vectors/default_vector.py'
CORE_FILES = ['openmdao/core/explicitcomponent.py', 'openmdao/core/implicitcomponent.py',
              'openmdao/core/component.py', 'openmdao/core/group.py', 'openmdao/core/system.py']

describe('C08',
         'Decides: (ctx) System._unscaled_context/_scaled_context_all undo in `finally` exactly what they '
         'did before the yield, guard for guard and iterable for iterable; (vec) DefaultVector.'
         'scale_to_norm/scale_to_phys pick inverse primitives with identical arguments on every branch and '
         '_scale_forward/_scale_reverse are inverse op sequences on the live data; (enclose) every output/'
         'residual-kind vector passed to a user hook (compute, apply_nonlinear, solve_nonlinear, '
         'guess_nonlinear, linearize, apply_linear, solve_linear, compute_jacvec_product) is in the '
         'physical state at the call, resolved through wrapper methods and their call sites; (state) no '
         'binary vector operation inside a function that uses _unscaled_context mixes a scaled and a '
         'physical vector; (who) scale_to_* is only called from the two contexts and Group._transfer, '
         'in matched norm/phys pairs with the same mode; (neutral) the flags and early exits that switch scaling off '
         'test exactly the neutral values ref == 1, ref0 == 0, res_ref == 1 and the sibling derivations agree; '
         '(unitscale) input scaling composed with a unit conversion equals convert_units(a0 + a1*n); (metaalias) '
         'declared ref/ref0/res_ref arrays are never modified in place; (cache) cached adjoint solutions are '
         'stored and replayed in one scaling state. '
         'Convergence values are not decided.',
         ['entry points (_apply_nonlinear, _solve_nonlinear, _apply_linear, _solve_linear, _linearize, '
          '_guess_nonlinear) are entered in the scaled state, as their docstrings state',
          'input vectors are not tracked (their scaling is applied in transfers)'])

INV = {'scale_to_phys': 'scale_to_norm', 'scale_to_norm': 'scale_to_phys'}


# --------------------------------------------------------------------------- ctx
def _const_of(e, env):
    """Constant value of a test expression under the constant-parameter environment, or None."""
    if isinstance(e, ast.Constant):
        return (e.value,)
    if isinstance(e, ast.Name) and e.id in env:
        return (env[e.id],)
    if isinstance(e, ast.UnaryOp) and isinstance(e.op, ast.Not):
        v = _const_of(e.operand, env)
        return None if v is None else (not v[0],)
    return None


class _Inline(ast.NodeTransformer):
    """Replace names by expressions; `getattr(x, 'lit')` becomes `x.lit` (after the replacement)."""

    def __init__(self, env):
        self.env = env

    def visit_Name(self, n):
        if isinstance(n.ctx, ast.Load) and n.id in self.env:
            return self.env[n.id]
        return n

    def visit_Call(self, n):
        self.generic_visit(n)
        if isinstance(n.func, ast.Name) and n.func.id == 'getattr' and len(n.args) == 2 and not n.keywords \
                and isinstance(n.args[1], ast.Constant) and isinstance(n.args[1].value, str) \
                and n.args[1].value.isidentifier():
            return ast.copy_location(ast.Attribute(value=n.args[0], attr=n.args[1].value, ctx=ast.Load()), n)
        return n


def _const_rows(e):
    """Python value of a literal tuple/list of constants or of flat tuples of constants, else None."""
    if not isinstance(e, (ast.Tuple, ast.List)) or not e.elts:
        return None
    rows = []
    for x in e.elts:
        if isinstance(x, ast.Constant):
            rows.append(x.value)
        elif isinstance(x, (ast.Tuple, ast.List)) and x.elts and all(isinstance(y, ast.Constant) for y in x.elts):
            rows.append(tuple(y.value for y in x.elts))
        else:
            return None
    return rows


def _table_rows(it, env):
    if isinstance(it, ast.Name):
        return (env.get('<tables>') or {}).get(it.id)
    return _const_rows(it)


def _no_continue(body):
    """Loop body with `if T: continue` + rest rewritten as `if not T: rest`; None if `continue`/`break`
    occur anywhere else."""
    res = []
    for i, st in enumerate(body):
        if isinstance(st, ast.If) and not st.orelse and len(st.body) == 1 and isinstance(st.body[0], ast.Continue):
            rest = _no_continue(body[i + 1:])
            if rest is None:
                return None
            if rest:
                res.append(ast.copy_location(ast.If(test=ast.UnaryOp(op=ast.Not(), operand=st.test),
                                                    body=rest, orelse=[]), st))
            return res
        if any(isinstance(n, (ast.Continue, ast.Break)) for n in astx.walk(st)
               ) and not isinstance(st, (ast.For, ast.While)):
            return None
        res.append(st)
    return res


def _effects(stmts, repo=None, cls=None, env=None, guards=(), depth=0, helpers=None):
    """[(guards, iterable dump, method)] of a statement list made of
         if G: ...            (G a run-time flag: recorded as a guard; G a constant under `env`: branch taken)
         for v in IT: v.m()   (possibly selected by a constant test)
         self.helper(consts)  (inlined with its parameters bound to the constant arguments)
    None when any statement has another shape.  `helpers` collects the Funcs that were inlined."""
    env = env or {}
    out = []
    stmts = list(stmts)
    while stmts:
        st = stmts.pop(0)
        if isinstance(st, ast.Pass):
            continue
        if isinstance(st, ast.Assign) and len(st.targets) == 1 and isinstance(st.targets[0], ast.Name):
            nm = st.targets[0].id
            rows = _const_rows(st.value)
            if rows is not None:
                # a constant table (`pairs = (('_flag', 'kind'), ...)`) iterated later, possibly in the finally block
                env = dict(env)
                env.setdefault('<tables>', {})
                env['<tables>'] = dict(env['<tables>'], **{nm: rows})
                continue
            if not any(isinstance(n, (ast.Call, ast.Yield, ast.Await, ast.NamedExpr)) for n in astx.walk(st.value)) \
                    and not any(isinstance(n, ast.Name) and isinstance(n.ctx, ast.Store) and n.id == nm
                                for s2 in stmts for n in astx.walk(s2)):
                # pure local alias (`vecs = self._vectors[kind]`): substituted into the rest of the block
                stmts = [_Inline({nm: st.value}).visit(pathx._cp(s2)) for s2 in stmts]
                continue
            return None
        if isinstance(st, ast.For) and not st.orelse:
            rows = _table_rows(st.iter, env)
            names = [st.target] if isinstance(st.target, ast.Name) else \
                list(st.target.elts) if isinstance(st.target, (ast.Tuple, ast.List)) else None
            if rows is not None and names is not None and all(isinstance(n, ast.Name) for n in names):
                # loop over a constant table: unrolled, the loop variables replaced by the row's constants
                for row in rows:
                    vals = [row] if isinstance(st.target, ast.Name) else list(row) if isinstance(row, tuple) else None
                    if vals is None or len(vals) != len(names):
                        return None
                    sub_env = {n.id: ast.Constant(value=v) for n, v in zip(names, vals)}
                    if any(isinstance(v, tuple) for v in vals):
                        return None
                    body = [_Inline(sub_env).visit(pathx._cp(s2)) for s2 in st.body]
                    body = _no_continue(body)
                    if body is None:
                        return None
                    sub = _effects(body, repo, cls, env, guards, depth, helpers)
                    if sub is None:
                        return None
                    out += sub
                continue
        if isinstance(st, ast.If):
            test, tbody, torelse = st.test, st.body, st.orelse
            while isinstance(test, ast.UnaryOp) and isinstance(test.op, ast.Not):
                test, tbody, torelse = test.operand, torelse, tbody
            cv = _const_of(test, env)
            if cv is not None:
                sub = _effects(tbody if cv[0] else torelse, repo, cls, env, guards, depth, helpers)
            else:
                a = _effects(tbody, repo, cls, env, guards + ((astx.dump(test), True),), depth, helpers)
                b = _effects(torelse, repo, cls, env, guards + ((astx.dump(test), False),), depth, helpers)
                sub = None if a is None or b is None else a + b
            if sub is None:
                return None
            out += sub
            continue
        if isinstance(st, ast.For) and not st.orelse and isinstance(st.target, ast.Name):
            inner = _loop_calls(st.body, st.target, env)
            if inner is None:
                return None
            out += [(tuple(sorted(guards)), astx.dump(st.iter), m) for m in inner]
            continue
        if (isinstance(st, ast.Expr) and isinstance(st.value, ast.Call) and repo is not None and depth < 3
                and isinstance(st.value.func, ast.Attribute) and astx.path(st.value.func.value) == 'self'):
            c = st.value
            h = repo.lookup(cls[0], cls[1], c.func.attr) if cls is not None else None
            if (h is None or h.node.args.vararg or h.node.args.kwarg or h.decorators()
                    or repo.overriders(cls[0], cls[1], c.func.attr)):
                return None
            params = [a.arg for a in h.node.args.args[1:]] + [a.arg for a in h.node.args.kwonlyargs]
            henv = {}
            for i, a in enumerate(c.args):
                if i >= len(params) or not isinstance(a, ast.Constant):
                    return None
                henv[params[i]] = a.value
            for k in c.keywords:
                if k.arg not in params or not isinstance(k.value, ast.Constant):
                    return None
                henv[k.arg] = k.value.value
            if set(henv) != set(params):
                return None
            # parameters must not be rebound inside the helper
            for n in astx.walk(h.node):
                if isinstance(n, ast.Name) and isinstance(n.ctx, ast.Store) and n.id in henv:
                    return None
            sub = _effects(astx.strip_doc(h.node.body), repo, cls, henv, guards, depth + 1, helpers)
            if sub is None:
                return None
            if helpers is not None:
                helpers.append(h)
            out += sub
            continue
        return None
    return out


def _loop_calls(body, target, env):
    """Methods called on the loop variable by a loop body of `v.m()` statements / constant selections."""
    ms = []
    for st in body:
        if isinstance(st, ast.If):
            cv = _const_of(st.test, env)
            if cv is None:
                return None
            sub = _loop_calls(st.body if cv[0] else st.orelse, target, env)
            if sub is None:
                return None
            ms += sub
        elif (isinstance(st, ast.Expr) and isinstance(st.value, ast.Call) and
              isinstance(st.value.func, ast.Attribute) and astx.same(st.value.func.value, target)
              and not st.value.args and not st.value.keywords):
            ms.append(st.value.func.attr)
        elif isinstance(st, ast.Pass):
            continue
        else:
            return None
    return ms


def _tables_env(fn, stmts):
    """Constant tables bound once at the top level of *stmts* (and nowhere else in fn): visible in the finally block."""
    tabs = {}
    for st in stmts:
        if isinstance(st, ast.Assign) and len(st.targets) == 1 and isinstance(st.targets[0], ast.Name):
            rows = _const_rows(st.value)
            nm = st.targets[0].id
            stores = [n for n in astx.walk(fn.node) if isinstance(n, ast.Name) and n.id == nm
                      and isinstance(n.ctx, (ast.Store, ast.Del))]
            if rows is not None and len(stores) == 1:
                tabs[nm] = rows
    return {'<tables>': tabs} if tabs else None


def ctx_helpers(repo):
    """Helper methods through which the two context managers apply their effects (inlined by C08.ctx)."""
    hs = []
    for qn in ('System._unscaled_context', 'System._scaled_context_all'):
        fn = repo.try_func(SYSTEM, qn)
        if fn is None:
            continue
        body = astx.strip_doc(fn.node.body)
        trys = [s for s in body if isinstance(s, ast.Try)]
        if len(trys) == 1 and body[-1] is trys[0]:
            cls = (SYSTEM, 'System')
            _effects(body[:-1], repo, cls, helpers=hs)
            _effects(trys[0].finalbody, repo, cls, env=_tables_env(fn, body[:-1]), helpers=hs)
    return {h.ident: h for h in hs}


@rule('C08.ctx', floor=2)
def ctx(repo, out):
    """Scale/unscale context managers restore in `finally` exactly what they changed before the yield."""
    for qn, first in (('System._unscaled_context', 'scale_to_phys'),
                      ('System._scaled_context_all', 'scale_to_norm')):
        fn = repo.func(SYSTEM, qn)
        if 'contextmanager' not in fn.decorators():
            out.bad(fn, fn.node, 'not a @contextmanager any more', key='ctx-shape')
            continue
        body = astx.strip_doc(fn.node.body)
        trys = [s for s in body if isinstance(s, ast.Try)]
        if len(trys) != 1 or body[-1] is not trys[0]:
            # a yield with restore code that is not in a finally block
            ys = [n for n in astx.walk(fn.node) if isinstance(n, ast.Yield)]
            if ys and not trys:
                out.bad(fn, astx.stmt_of(ys[0]), 'yield is not protected by try/finally: an exception in the '
                        'body leaves the vectors in the wrong scaling state', key='ctx-finally')
            else:
                out.unsure(fn, fn.node, 'unrecognised context-manager shape')
            continue
        t = trys[0]
        cls = (SYSTEM, 'System')
        pre = _effects(body[:-1], repo, cls)
        post = _effects(t.finalbody, repo, cls, env=_tables_env(fn, body[:-1]))
        has_yield = any(isinstance(n, ast.Yield) for s in t.body for n in astx.walk(s))
        if not has_yield or t.handlers:
            out.unsure(fn, t, 'yield not directly in try body / handlers present')
            continue
        if not t.finalbody:
            out.bad(fn, t, 'no finally block: vectors are not rescaled when the body raises', key='ctx-finally')
            continue
        if pre is None or post is None:
            out.unsure(fn, fn.node, 'effect list not in the `if guard: for vec in it: vec.m()` form '
                       '(also through self.<helper>(constants))')
            continue
        if not pre:
            out.unsure(fn, fn.node, 'no effect before the yield')
            continue
        want = sorted((g, it, INV.get(m, '?')) for g, it, m in pre)
        got = sorted(post)
        if any(m != first for _, _, m in pre):
            out.bad(fn, body[0], f'{qn} must apply {first} before the yield', key='ctx-direction')
        elif want != got:
            miss = [w for w in want if w not in got]
            extra = [g_ for g_ in got if g_ not in want]
            out.bad(fn, t, 'finally block is not the inverse of the set-up: '
                    f'missing {[(m) for _, _, m in miss]} extra {[(m) for _, _, m in extra]} '
                    '(guard, iterable and method must all match)', key='ctx-mirror')
        else:
            out.ok(fn, t, f'{len(pre)} effect(s) mirrored in finally with identical guards and iterables')


# --------------------------------------------------------------------------- vec
def _atom(e):
    """(dump of the positive atom of a test, polarity): `not X`, `X is not Y`, `X != Y` flip polarity."""
    pol = True
    while True:
        if isinstance(e, ast.UnaryOp) and isinstance(e.op, ast.Not):
            e, pol = e.operand, not pol
        elif isinstance(e, ast.Compare) and len(e.ops) == 1 and isinstance(e.ops[0], (ast.IsNot, ast.NotEq)):
            op = ast.Is() if isinstance(e.ops[0], ast.IsNot) else ast.Eq()
            e, pol = ast.Compare(left=e.left, ops=[op], comparators=e.comparators), not pol
        else:
            return astx.dump(e), pol


class _Subst(ast.NodeTransformer):
    def __init__(self, env):
        self.env = env

    def visit_Name(self, n):
        return self.env.get(n.id, n)


def _paths(stmts, what):
    """All execution paths of a straight-line/if/return body -> [(frozenset of (atom, polarity), [op])].

    Ops are Call expression statements and AugAssigns with local aliases substituted away
    (`a, b = X; f(a, b)` == `f(X[0], X[1])`).  Paths whose conditions contradict are dropped.
    Anything else (loops, try, returns with a value, calls in assignments) -> AnalysisError."""
    done = []

    def run(stmts, conds, env, ops, k):
        """Walk *stmts*; k(conds, env, ops) continues after the list; a return ends the path."""
        if not stmts:
            return k(conds, env, ops)
        st, rest = stmts[0], stmts[1:]
        if isinstance(st, ast.Pass):
            return run(rest, conds, env, ops, k)
        if isinstance(st, ast.Return) and st.value is None:
            done.append((conds, ops))
            return
        if isinstance(st, ast.If):
            atom, pol = _atom(st.test)
            if any(isinstance(n, ast.Call) for n in astx.walk(st.test)):
                raise AnalysisError(f'unrecognised statement in {what}: {astx.src(st)}')
            for branch, p_ in ((st.body, pol), (st.orelse, not pol)):
                if (atom, not p_) in conds:
                    continue        # contradicts an earlier test of the same atom
                run(list(branch), conds | {(atom, p_)}, dict(env), list(ops),
                    lambda c, e, o: run(rest, c, e, o, k))
            return
        if isinstance(st, ast.Assign) and len(st.targets) == 1 and \
                not any(isinstance(n, ast.Call) for n in astx.walk(st.value)):
            tgt = st.targets[0]
            val = _Subst(env).visit(astx._copy(st.value)) if env else st.value
            if isinstance(tgt, ast.Name):
                env = dict(env)
                env[tgt.id] = val
                return run(rest, conds, env, ops, k)
            if isinstance(tgt, ast.Tuple) and all(isinstance(e, ast.Name) for e in tgt.elts):
                env = dict(env)
                for i, e in enumerate(tgt.elts):
                    env[e.id] = ast.Subscript(value=val, slice=ast.Constant(value=i), ctx=ast.Load())
                return run(rest, conds, env, ops, k)
        if isinstance(st, ast.Assign) and len(st.targets) == 1 and isinstance(st.targets[0], ast.Name) \
                and isinstance(st.value, ast.Call) and astx.call_name(st.value) == 'self.asarray':
            env = dict(env)
            env[st.targets[0].id] = st.value        # the live-data handle (checked by the caller)
            return run(rest, conds, env, ops + [('data', st.targets[0].id, st.value)], k)
        if isinstance(st, ast.Expr) and isinstance(st.value, ast.Call):
            c = _Subst(env).visit(astx._copy(st.value)) if env else st.value
            return run(rest, conds, env, ops + [('call', c, st)], k)
        if isinstance(st, ast.AugAssign):
            val = _Subst(env).visit(astx._copy(st.value)) if env else st.value
            tgt = env.get(st.target.id) if isinstance(st.target, ast.Name) else None
            return run(rest, conds, env, ops + [('aug', type(st.op).__name__, astx.dump(val),
                                                 astx.dump(tgt) if tgt is not None else astx.path(st.target), st)], k)
        raise AnalysisError(f'unrecognised statement in {what}: {astx.src(st)}')

    run(list(stmts), frozenset(), {}, [], lambda c, e, o: done.append((c, o)))
    return done


def _norm_args(call):
    """Argument dumps of a call; `X[0], X[1]` (all of a 2-sequence) is written `*X`."""
    args = list(call.args)
    if (len(args) == 2 and all(isinstance(a, ast.Subscript) and isinstance(a.slice, ast.Constant) for a in args)
            and [a.slice.value for a in args] == [0, 1] and astx.same(args[0].value, args[1].value)
            and not call.keywords):
        return ['*' + astx.dump(args[0].value)]
    out = []
    for a in args:
        out.append('*' + astx.dump(a.value) if isinstance(a, ast.Starred) else astx.dump(a))
    return out + [f'{k.arg}={astx.dump(k.value)}' for k in call.keywords]


def _ops(fn):
    """{path conditions: [(op, operand dump)]} of _scale_forward/_scale_reverse + live-data verdict."""
    table = {}
    live = True
    for conds, ops in _paths(astx.strip_doc(fn.node.body), fn.qualname):
        seq = []
        data = None
        for o in ops:
            if o[0] == 'data':
                c = o[2]
                if c.args or any(k.arg == 'copy' for k in c.keywords):
                    live = False
                data = astx.dump(c)
            elif o[0] == 'aug':
                if data is None or o[3] != data:
                    live = False
                seq.append((o[1], o[2]))
            else:
                raise AnalysisError(f'unrecognised statement in {fn.qualname}: {astx.src(o[2])}')
        if data is None:
            live = False
        table[conds] = seq
    return table, live


_OPINV = {'Sub': 'Add', 'Add': 'Sub', 'Div': 'Mult', 'Mult': 'Div'}


def _leafs(fn):
    """{path conditions: the single primitive call made on that path} of scale_to_norm/scale_to_phys."""
    out = {}
    for conds, ops in _paths(astx.strip_doc(fn.node.body), fn.qualname):
        calls = [o for o in ops if o[0] == 'call']
        if len(calls) != 1 or len(ops) != 1:
            raise AnalysisError(f'{fn.qualname}: path {sorted(conds)} does not make exactly one primitive call')
        out[conds] = calls[0]
    return out


@rule('C08.vec', floor=3)
def vec(repo, out):
    """scale_to_norm/scale_to_phys and _scale_forward/_scale_reverse are exact inverses of each other."""
    fwd = repo.func(DVEC, 'DefaultVector._scale_forward')
    rev = repo.func(DVEC, 'DefaultVector._scale_reverse')
    t1, live1 = _ops(fwd)
    t2, live2 = _ops(rev)
    ok = True
    for fn, live in ((fwd, live1), (rev, live2)):
        if not live:
            out.bad(fn, fn.node, 'must operate in place on self.asarray() (the live data, not a copy)',
                    key='vec-live-data')
            ok = False
    if ok:
        if set(t1) != set(t2):
            out.bad(rev, rev.node, '_scale_reverse is not the inverse sequence of _scale_forward: the two '
                    f'branch on different conditions ({sorted(map(sorted, t1))} vs {sorted(map(sorted, t2))})',
                    key='vec-inverse-seq')
        else:
            bad = False
            for conds, s1 in t1.items():
                s2 = t2[conds]
                want = [(_OPINV.get(op, '?'), val) for op, val in reversed(s1)]
                if want != s2:
                    out.bad(rev, rev.node, '_scale_reverse is not the inverse sequence of _scale_forward '
                            f'on path {sorted(conds)} (forward ops {[o for o, _ in s1]}, reverse ops '
                            f'{[o for o, _ in s2]}; inverse needs reversed order, inverse operators, same '
                            'operands and guards)', key='vec-inverse-seq')
                    bad = True
            full = sorted(([o for o, _ in s] for s in t1.values()), key=len)
            if not bad:
                if full != [['Div'], ['Sub', 'Div']]:
                    out.bad(fwd, fwd.node, '_scale_forward must be (x - adder) / scaler, the subtraction '
                            f'skipped only when there is no adder (paths: {full})', key='vec-forward-form')
                else:
                    out.ok(fwd, fwd.node, '_scale_forward = (-= adder | adder is not None; /= scaler); '
                           '_scale_reverse = inverse sequence')
    norm = repo.func(DVEC, 'DefaultVector.scale_to_norm')
    phys = repo.func(DVEC, 'DefaultVector.scale_to_phys')
    ln = _leafs(norm)
    lp = _leafs(phys)
    prim_inv = {'_scale_forward': '_scale_reverse', '_scale_reverse': '_scale_forward'}
    n_ok = 0
    for cond, (_, call, st1) in ln.items():
        other = lp.get(cond)
        cs = sorted(cond)
        if other is None:
            out.bad(phys, phys.node, f'scale_to_phys has no branch for condition {cs} of scale_to_norm',
                    key='vec-branches')
            continue
        _, ocall, st2 = other
        m1, m2 = astx.callee_attr(call), astx.callee_attr(ocall)
        a1, a2 = _norm_args(call), _norm_args(ocall)
        if prim_inv.get(m1) != m2 or astx.path(call.func.value) != 'self' or astx.path(ocall.func.value) != 'self':
            out.bad(phys, st2, f'branch {cs}: scale_to_norm calls {m1} but scale_to_phys calls {m2}; '
                    'they must be inverse primitives', key='vec-branch-inverse')
        elif a1 != a2:
            out.bad(phys, st2, f'branch {cs}: the two directions use different scaling arguments '
                    f'({astx.src(st1)} vs {astx.src(st2)})', key='vec-branch-args')
        else:
            # direction: in fwd mode norm = forward; rev mode (linear vectors) swaps
            is_rev = any(("'rev'" in c and pol) or ("'fwd'" in c and not pol) for c, pol in cond)
            if (m1 == '_scale_forward') == is_rev:
                out.bad(norm, st1, f'branch {cs}: scale_to_norm must use '
                        f"{'_scale_reverse' if is_rev else '_scale_forward'}", key='vec-branch-direction')
            else:
                n_ok += 1
    if set(lp) != set(ln):
        out.bad(phys, phys.node, 'scale_to_norm and scale_to_phys have different branch structure',
                key='vec-branches')
    if n_ok:
        out.ok(norm, norm.node, f'{n_ok} branch(es): inverse primitives with identical arguments')
        if n_ok >= 3:
            out.ok(phys, phys.node, 'branch structure equal')


# --------------------------------------------------------------------------- vector state
OUT_KIND = {'_outputs', '_doutputs', 'outputs', 'd_outputs'}
RES_KIND = {'_residuals', '_dresiduals', 'residuals', 'd_residuals', 'd_resids'}
VEC_DERIVE = {'asarray', '_abs_get_val', 'get_slice', '_get_data', '__getitem__', 'get_val'}


def last_name(p):
    if p is None:
        return None
    p = p.split('[')[0]
    return p.split('.')[-1]


def kind_of(p):
    ln = last_name(p)
    if ln in OUT_KIND:
        return 'outputs'
    if ln in RES_KIND:
        return 'residuals'
    return None


class FnState:
    """Scaling state of vector expressions inside one function."""

    def __init__(self, repo, fn):
        self.repo, self.fn = repo, fn
        self.g = cfgm.build(fn)
        self.rd = cfgm.ReachingDefs(self.g)
        self.ctxs = []   # (With stmt, {canonical path: kind})
        for st in astx.walk_stmts(fn.node.body):
            if isinstance(st, ast.With):
                for it in st.items:
                    c = it.context_expr
                    if isinstance(c, ast.Call) and astx.callee_attr(c) == '_unscaled_context':
                        listed = {}
                        at = self.g.nodes_of(st)[0]
                        for kw, pos in (('outputs', 0), ('residuals', 1)):
                            a = astx.arg(c, pos, kw)
                            if a is None:
                                continue
                            if isinstance(a, ast.Name):
                                # vector list named in a temporary: out_vecs = [self._outputs]
                                v, _d = self._value(at, a.id)
                                if isinstance(v, (ast.List, ast.Tuple)):
                                    a = v
                            if not isinstance(a, (ast.List, ast.Tuple)):
                                raise AnalysisError(f'{fn.ident}: non-literal vector list in _unscaled_context')
                            for e in a.elts:
                                listed[self.canon(e, at)] = kw
                        self.ctxs.append((st, listed))

    def _value(self, at, name, depth=0):
        """Unique Assign value reaching `at` for name, looking through in-place AugAssigns."""
        ds = self.rd.defs(at, name)
        if len(ds) != 1 or depth > 6:
            return None, at
        d = next(iter(ds))
        if d.kind == 'stmt' and isinstance(d.ast, ast.AugAssign):
            return self._value(d, name, depth + 1)
        if d.kind == 'stmt' and isinstance(d.ast, ast.Assign) and len(d.ast.targets) == 1 and \
                astx.path(d.ast.targets[0]) == name:
            return d.ast.value, d
        return None, at

    def canon(self, e, at, depth=0):
        """Canonical name of a vector expression at node `at` (aliases resolved)."""
        p = astx.path(e)
        if p is None:
            return None
        if p.endswith('_wrapper'):
            p = p[:-len('_wrapper')]   # _ResidsWrapper(self._residuals, ...) wraps the same vector
        if isinstance(e, ast.Name) and depth < 4:
            v, _dn = self._value(at, e.id)
            if v is not None and astx.path(v) and (astx.path(v).startswith('self.') or
                                                   isinstance(v, ast.Name)):
                vp = astx.path(v)
                if kind_of(vp) or isinstance(v, ast.Name):
                    c = self.canon(v, _dn, depth + 1)
                    if c and kind_of(c):
                        return c
        return p

    def _defnode(self, at, name):
        ds = self.rd.defs(at, name)
        return next(iter(ds)) if len(ds) == 1 else at

    def lexical_phys(self, stmt_ast, canon):
        for w, listed in self.ctxs:
            if canon in listed and astx.in_body(stmt_ast, w, 'body'):
                return True
        return False


class Resolver:
    """Interprocedural `is this vector physical here?` through self.<wrapper>() call sites."""

    def __init__(self, repo):
        self.repo = repo
        self._fs = {}
        self._callers = None

    def fs(self, fn):
        k = fn.ident
        if k not in self._fs:
            self._fs[k] = FnState(self.repo, fn)
        return self._fs[k]

    def callers(self, name):
        """[(Func, Call)] of `self.<name>(...)` in the analysed files."""
        if self._callers is None:
            self._callers = {}
            for rel in STATE_FILES:
                if not self.repo.exists(rel):
                    continue
                m = self.repo.module(rel)
                for f in m.funcs.values():
                    if '<locals>' in f.qualname:
                        continue
                    for c in astx.calls(f.node):
                        if isinstance(c.func, ast.Attribute) and astx.path(c.func.value) == 'self':
                            self._callers.setdefault(c.func.attr, []).append((f, c))
        return self._callers.get(name, [])

    def state(self, fn, stmt_ast, expr, depth=0):
        """'phys' | 'scaled' | None(unknown) for vector expression at statement."""
        fs = self.fs(fn)
        nodes = fs.g.nodes_of(stmt_ast)
        if not nodes:
            return None
        at = nodes[0]
        canon = fs.canon(expr, at)
        if canon is None:
            return None
        if fs.lexical_phys(stmt_ast, canon):
            return 'phys'
        if depth > 3:
            return None
        # parameter (possibly through `a, b, c = args`)
        params = [a.arg for a in fn.node.args.posonlyargs + fn.node.args.args]
        pidx = None
        if isinstance(expr, ast.Name):
            nm = canon if canon in params else (expr.id if expr.id in params else None)
            if nm and nm in params and fs.rd.defs(at, nm) == {fs.g.entry}:
                pidx = params.index(nm) - (1 if params and params[0] == 'self' else 0)
            elif fn.node.args.vararg is not None:
                va = fn.node.args.vararg.arg
                for d in fs.rd.defs(at, expr.id):
                    if d.kind == 'stmt' and isinstance(d.ast, ast.Assign) and \
                            isinstance(d.ast.targets[0], ast.Tuple) and astx.path(d.ast.value) == va:
                        names = [astx.path(t) for t in d.ast.targets[0].elts]
                        if expr.id in names:
                            pidx = names.index(expr.id) + len([p for p in params if p != 'self'])
        if pidx is None and fn.name in ENTRY_SCALED:
            return 'scaled'   # documented entry state: "the model is assumed to be in a scaled state"
        sites = self.callers(fn.name)
        if pidx is not None:
            if not sites:
                return None
            res = set()
            for cf, call in sites:
                if pidx < len(call.args) and not any(isinstance(a, ast.Starred) for a in call.args):
                    res.add(self.state(cf, astx.stmt_of(call), call.args[pidx], depth + 1))
                else:
                    res.add(None)
            if res == {'phys'}:
                return 'phys'
            if None in res:
                return None
            return 'scaled'
        if canon.startswith('self.'):
            if not sites:
                return 'scaled'   # entry point: model is in the scaled state
            res = set()
            for cf, call in sites:
                e2 = ast.parse(canon, mode='eval').body
                res.add(self.state(cf, astx.stmt_of(call), e2, depth + 1))
            if res == {'phys'}:
                return 'phys'
            if None in res:
                return None
            return 'scaled'
        return 'scaled'


# framework entry points whose contract is "the model is assumed to be in a scaled state"
ENTRY_SCALED = {'_apply_nonlinear', '_solve_nonlinear', '_apply_linear', '_solve_linear', '_linearize',
                '_guess_nonlinear', 'run_apply_nonlinear', 'run_solve_nonlinear', 'run_linearize',
                'run_apply_linear', 'run_solve_linear'}

# hook -> positions of output/residual-kind vector arguments
HOOKS = {
    'compute': [1], 'compute_jacvec_product': [2], 'apply_nonlinear': [1, 2], 'solve_nonlinear': [1],
    'guess_nonlinear': [1, 2], 'linearize': [1], 'apply_linear': [1, 3, 4], 'solve_linear': [0, 1],
}
# tabled exception, see DESIGN section 5 ("observed but not claimed")
ENCLOSE_EXEMPT = {('openmdao/core/group.py', 'Group._guess_nonlinear'):
                  'group-level guess changes the starting iterate only; C08 speaks about converged results'}


@rule('C08.enclose', floor=30)
def enclose(repo, out):
    """Every output/residual vector passed to a user hook is in the physical (unscaled) state."""
    rs = Resolver(repo)
    for rel in CORE_FILES:
        m = repo.module(rel)
        for f in m.funcs.values():
            if '<locals>' in f.qualname:
                continue
            for c in astx.calls(f.node):
                if not (isinstance(c.func, ast.Attribute) and astx.path(c.func.value) == 'self'
                        and c.func.attr in HOOKS):
                    continue
                if (rel, f.qualname) in ENCLOSE_EXEMPT:
                    continue
                if any(isinstance(a, ast.Starred) for a in c.args):
                    continue
                st = astx.stmt_of(c)
                for pos in HOOKS[c.func.attr]:
                    if pos >= len(c.args):
                        continue
                    a = c.args[pos]
                    s = rs.state(f, st, a)
                    if s == 'phys':
                        out.ok(f, st, f'{c.func.attr} arg {pos} ({astx.src(a)}) physical')
                    elif s == 'scaled':
                        out.bad(f, st, f'user hook {c.func.attr} receives {astx.src(a)} in the scaled state: '
                                'no enclosing _unscaled_context lists it (here or at every call site of '
                                f'{f.name})', key=f'enclose-{c.func.attr}-{pos}')
                    else:
                        out.unsure(f, st, f'cannot resolve scaling state of {astx.src(a)} passed to {c.func.attr}')


STATE_FILES = CORE_FILES + ['openmdao/solvers/nonlinear/nonlinear_block_gs.py',
                            'openmdao/jacobians/jacobian.py', 'openmdao/jacobians/dictionary_jacobian.py',
                            'openmdao/solvers/linear/direct.py', 'openmdao/solvers/linear/user_defined.py',
                            'openmdao/solvers/linear/petsc_direct_solver.py']


def _guards(st, fs=None):
    """{(atom dump, truth)} implied at statement st by the tests of its enclosing ifs.

    A test on a local that is an alias of an attribute/option (`flag = self.options['x']`) is recorded
    under the aliased expression, so that guards of different functions on the same option correlate.

    Body side of `A and B` gives both atoms true, else side of `A or B` gives both false; other compound
    tests contribute nothing (sound: fewer facts only make fewer pairs infeasible)."""
    out = set()

    def known(t, val):
        if isinstance(t, ast.BoolOp):
            if (isinstance(t.op, ast.And) and val) or (isinstance(t.op, ast.Or) and not val):
                for v in t.values:
                    known(v, val)
            return
        e, pol = pathx.atom(t)
        if isinstance(e, ast.BoolOp):
            if not pol:
                known(e, not val)
            return
        if isinstance(e, ast.Name) and fs is not None:
            nodes = fs.g.nodes_of(st)
            if nodes:
                v, _d = fs._value(nodes[0], e.id)
                if v is not None and isinstance(v, (ast.Subscript, ast.Attribute)) and \
                        (astx.path(v) or astx.src(v)).startswith('self.'):
                    e = v
        out.add((astx.dump(e), val == pol))
    for a in astx.ancestors(st):
        if isinstance(a, ast.If):
            if astx.in_body(st, a, 'body'):
                known(a.test, True)
            elif astx.in_body(st, a, 'orelse'):
                known(a.test, False)
    return out


def _conflict(g1, g2):
    return any((a, not v) in g2 for a, v in g1)


def _is_copy_val(val):
    return isinstance(val, ast.Call) and (
        (astx.kwarg(val, 'copy') is not None and getattr(astx.kwarg(val, 'copy'), 'value', None) is True)
        or astx.callee_attr(val) in ('copy', '_copy_vars'))


def _param_alternatives(rs, fn, name):
    """[(state, guards, kind, where)] for an array parameter of a private method: the scaling state in
    which each value that can be passed for it was captured from an output/residual vector, with the
    if-guards of the capture and of the call site.  None if any call site passes something unresolved."""
    params = [a.arg for a in fn.node.args.posonlyargs + fn.node.args.args]
    if name not in params or fn.node.args.vararg or fn.node.args.kwarg:
        return None
    pidx = params.index(name) - (1 if params and params[0] == 'self' else 0)
    sites = [(cf, c) for cf, c in rs.callers(fn.name) if cf.rel == fn.rel]
    if not sites:
        return None
    alts = []
    for cf, call in sites:
        if any(isinstance(a, ast.Starred) for a in call.args):
            return None
        arg = call.args[pidx] if pidx < len(call.args) else astx.kwarg(call, name)
        if not isinstance(arg, ast.Name):
            return None
        fs2 = rs.fs(cf)
        cst = astx.stmt_of(call)
        nodes = fs2.g.nodes_of(cst)
        if not nodes:
            return None
        for d in fs2.rd.defs(nodes[0], arg.id):
            if not (d.kind == 'stmt' and isinstance(d.ast, ast.Assign) and len(d.ast.targets) == 1
                    and astx.path(d.ast.targets[0]) == arg.id):
                return None
            val = d.ast.value
            inner = _DefOperand(rs, cf, d, val)
            st_ = inner.state(copy=_is_copy_val(val), use_stmt=cst)
            if st_ is None:
                return None
            alts.append((st_, _guards(d.ast, fs2) | _guards(cst, fs2), inner.kind, f'{cf.name}:{d.ast.lineno}'))
    return alts


def _vector_operands(rs, fn, st):
    """[(expr text, state)] of output/residual-kind vector operands combined by statement st."""
    fs = rs.fs(fn)
    at_nodes = fs.g.nodes_of(st)
    if not at_nodes:
        return []
    at = at_nodes[0]
    found = []

    def base_of(e, depth=0):
        """(base vector expr, is_copy) the expression's data derives from, else None."""
        if depth > 5:
            return None
        if isinstance(e, (ast.Name, ast.Attribute)):
            p = astx.path(e)
            c = fs.canon(e, at)
            if c and kind_of(c):
                return e, False
            if isinstance(e, ast.Name):
                # derived local: x = V.asarray(...), f = V._abs_get_val (in-place updates looked through)
                val, d = fs._value(at, e.id)
                if val is not None:
                    return ('def', d, val)
                pnames = [a.arg for a in fn.node.args.posonlyargs + fn.node.args.args]
                if e.id in pnames and all(x is fs.g.entry or (x.kind == 'stmt' and isinstance(x.ast, ast.AugAssign))
                                          for x in fs.rd.defs(at, e.id)):
                    return ('param', e.id, None)
            return None
        if isinstance(e, ast.Call) and isinstance(e.func, ast.Attribute) and e.func.attr in VEC_DERIVE:
            b = base_of(e.func.value, depth + 1)
            return b
        if isinstance(e, ast.Call) and isinstance(e.func, ast.Name):
            # bound-method alias: get = V._abs_get_val ; get(v)
            ds = fs.rd.defs(at, e.func.id)
            if len(ds) == 1:
                d = next(iter(ds))
                if d.kind == 'stmt' and isinstance(d.ast, ast.Assign) and isinstance(d.ast.value, ast.Attribute) \
                        and d.ast.value.attr in VEC_DERIVE:
                    return base_of(d.ast.value.value, depth + 1)
            return None
        if isinstance(e, ast.Subscript):
            return base_of(e.value, depth + 1)
        return None

    def add(e):
        b = base_of(e)
        if b is None:
            return
        if isinstance(b, tuple) and b[0] == 'param':
            alts = _param_alternatives(rs, fn, b[1])
            use_g = _guards(st, fs)
            for s_, g_, k_, where in alts or []:
                if not _conflict(g_, use_g):
                    found.append((f'{astx.src(e)} (captured at {where})', s_, k_))
            return
        if isinstance(b, tuple) and b[0] == 'def':
            _, d, val = b
            # state at the point of definition for copies, at the point of use for views
            is_copy = _is_copy_val(val)
            inner = _DefOperand(rs, fn, d, val)
            s = inner.state(copy=is_copy, use_stmt=st)
            if s is not None:
                found.append((astx.src(e), s, inner.kind))
            return
        vec_e, _ = b
        s = rs.state(fn, st, vec_e)
        found.append((astx.src(vec_e), s, kind_of(fs.canon(vec_e, at))))

    if isinstance(st, ast.AugAssign) and isinstance(st.op, (ast.Add, ast.Sub)):
        add(st.target)
        for n in _leaf_operands(st.value):
            add(n)
    elif isinstance(st, ast.Expr) and isinstance(st.value, ast.Call) and isinstance(st.value.func, ast.Attribute) \
            and st.value.func.attr in ('set_vec', 'set_val', 'add_scal_vec', 'iadd', 'isub', 'dot'):
        c = st.value
        add(c.func.value)
        for a in c.args:
            for n in _leaf_operands(a):
                add(n)
    elif isinstance(st, ast.Assign) and isinstance(st.value, ast.BinOp) and isinstance(st.value.op, (ast.Add, ast.Sub)):
        for n in _leaf_operands(st.value):
            add(n)
    return found


def _leaf_operands(e):
    """Operands of a +/- expression tree (multiplication by scalars is looked through)."""
    if isinstance(e, ast.BinOp) and isinstance(e.op, (ast.Add, ast.Sub)):
        return _leaf_operands(e.left) + _leaf_operands(e.right)
    if isinstance(e, ast.BinOp) and isinstance(e.op, (ast.Mult, ast.Div)):
        return _leaf_operands(e.left) + (_leaf_operands(e.right) if isinstance(e.op, ast.Mult) else [])
    if isinstance(e, ast.UnaryOp):
        return _leaf_operands(e.operand)
    return [e]


class _DefOperand:
    def __init__(self, rs, fn, dnode, val):
        self.rs, self.fn, self.d, self.val = rs, fn, dnode, val
        self.kind = None

    def state(self, copy, use_stmt):
        # find the vector the value was read from
        e = self.val
        while True:
            if isinstance(e, ast.Call) and isinstance(e.func, ast.Attribute) and \
                    (e.func.attr in VEC_DERIVE or e.func.attr in ('copy', '_copy_vars')):
                e = e.func.value
                continue
            if isinstance(e, ast.Subscript):
                e = e.value
                continue
            if isinstance(e, ast.Call) and isinstance(e.func, ast.Name):
                fs = self.rs.fs(self.fn)
                ds = fs.rd.defs(self.d, e.func.id)
                if len(ds) == 1:
                    d = next(iter(ds))
                    if d.kind == 'stmt' and isinstance(d.ast, ast.Assign) and \
                            isinstance(d.ast.value, ast.Attribute) and d.ast.value.attr in VEC_DERIVE:
                        e = d.ast.value.value
                        continue
                return None
            break
        fs = self.rs.fs(self.fn)
        c = fs.canon(e, self.d) if isinstance(e, (ast.Name, ast.Attribute)) else None
        if not c or not kind_of(c):
            return None
        self.kind = kind_of(c)
        where = self.d.ast if copy else use_stmt
        return self.rs.state(self.fn, where, e)


def _no_scaling_guard(st):
    """True if st lies on the false side of tests that together mention both scaling flags."""
    excluded = set()
    for a in astx.ancestors(st):
        if isinstance(a, ast.If) and astx.in_body(st, a, 'orelse'):
            t = a.test
            # `if A or B:` false side excludes both; `if A:` false side excludes A
            parts = t.values if isinstance(t, ast.BoolOp) and isinstance(t.op, ast.Or) else [t]
            for p_ in parts:
                pth = astx.path(p_) or ''
                for flag in ('_has_output_scaling', '_has_resid_scaling'):
                    if pth.endswith(flag):
                        excluded.add(flag)
        if isinstance(a, ast.If) and astx.in_body(st, a, 'body'):
            t = a.test
            parts = t.values if isinstance(t, ast.BoolOp) and isinstance(t.op, ast.And) else [t]
            for p_ in parts:
                if isinstance(p_, ast.UnaryOp) and isinstance(p_.op, ast.Not):
                    pth = astx.path(p_.operand) or ''
                    for flag in ('_has_output_scaling', '_has_resid_scaling'):
                        if pth.endswith(flag):
                            excluded.add(flag)
    return excluded == {'_has_output_scaling', '_has_resid_scaling'}


@rule('C08.state', floor=12)
def state(repo, out):
    """No vector operation combines a scaled with a physical output/residual vector."""
    rs = Resolver(repo)
    for rel in STATE_FILES:
        if not repo.exists(rel):
            continue
        if '_unscaled_context' not in repo.source(rel):
            continue
        m = repo.module(rel)
        for f in m.funcs.values():
            if '<locals>' in f.qualname:
                continue
            if not any(isinstance(c, ast.Call) and astx.callee_attr(c) == '_unscaled_context'
                       for c in astx.calls(f.node)):
                # also: private methods that receive arrays captured from a vector by a caller in this module
                pn = [a.arg for a in f.node.args.args if a.arg != 'self']
                if not (f.name.startswith('_') and rs.callers(f.name) and
                        any(_param_alternatives(rs, f, n) for n in pn)):
                    continue
            for st in astx.walk_stmts(f.node.body):
                ops3 = [o for o in _vector_operands(rs, f, st) if o[1] is not None]
                ops = [(t, s) for t, s, _ in ops3]
                if len(ops) < 2:
                    continue
                states = {s for _, s in ops}
                kinds = {k for _, _, k in ops3 if k}
                if len(states) > 1:
                    out.bad(f, st, 'operation mixes vectors in different scaling states: ' +
                            ', '.join(f'{t} is {s}' for t, s in ops) +
                            ' (a scaled quantity combined with a physical one leaks ref/ref0 into results)',
                            key='state-mix')
                elif states == {'scaled'} and len(kinds) > 1 and not _no_scaling_guard(st):
                    # outputs are scaled by ref/ref0, residuals by res_ref: in the scaled state the two
                    # kinds are in different units unless neither scaling is active
                    out.bad(f, st, 'operation combines an output-kind and a residual-kind vector while both are '
                            'in the scaled state (' + ', '.join(t for t, _ in ops) + '): outputs are scaled by '
                            'ref/ref0 and residuals by res_ref, so this is only valid when neither scaling is '
                            'active, and the enclosing guards do not exclude _has_output_scaling and '
                            '_has_resid_scaling both', key='state-kind-mix')
                else:
                    out.ok(f, st, ', '.join(f'{t}:{s}' for t, s in ops))


# --------------------------------------------------------------------------- neutral scaling tests
NEUTRAL = {'ref': 1.0, 'ref0': 0.0, 'res_ref': 1.0}
FLAG_ROLES = {'_has_output_scaling': {'ref', 'ref0'}, '_has_output_adder': {'ref0'},
              '_has_resid_scaling': {'res_ref', 'ref'}}
FLAG_SITES = [('openmdao/core/component.py', 'Component.add_output'),
              ('openmdao/core/system.py', 'System._apply_output_solver_options')]


def _flag_test(t):
    """(variable name, constant it is compared against) for `v != c`, `np.any(v != c)`, `np.any(v)`."""
    if isinstance(t, ast.Call) and astx.callee_attr(t) in ('any',) and len(t.args) == 1 and not t.keywords:
        a = t.args[0]
        if isinstance(a, ast.Call) and astx.callee_attr(a) in ('asarray', 'atleast_1d') and len(a.args) == 1:
            a = a.args[0]
        if isinstance(a, ast.Name):
            return a.id, 0.0
        t = a
    if isinstance(t, ast.Compare) and len(t.ops) == 1 and isinstance(t.ops[0], ast.NotEq):
        l, r = t.left, t.comparators[0]
        if isinstance(l, ast.Constant):
            l, r = r, l
        if isinstance(l, ast.Name) and isinstance(r, ast.Constant) and isinstance(r.value, (int, float)) \
                and not isinstance(r.value, bool):
            return l.id, float(r.value)
    return None


def _meta_key_of(fn, name):
    """Keys k of every `name = <meta>['k']` binding in fn (provenance of a ref/ref0/res_ref local)."""
    ks = set()
    for n in astx.walk(fn.node):
        if isinstance(n, ast.Assign) and len(n.targets) == 1 and astx.path(n.targets[0]) == name and \
                isinstance(n.value, ast.Subscript):
            k = astx.const_str(n.value.slice)
            if k is not None:
                ks.add(k)
    return ks


class _Ev:
    """Evaluate a boolean/arith expression over a {name: float|bool} environment (scalars only)."""

    def __init__(self, env):
        self.env = env

    def ev(self, e):
        if isinstance(e, ast.Constant) and isinstance(e.value, (int, float, bool)):
            return e.value
        if isinstance(e, ast.Name) and e.id in self.env:
            return self.env[e.id]
        if isinstance(e, ast.UnaryOp) and isinstance(e.op, ast.Not):
            return not self.ev(e.operand)
        if isinstance(e, ast.UnaryOp) and isinstance(e.op, ast.USub):
            return -self.ev(e.operand)
        if isinstance(e, ast.BoolOp):
            vals = [self.ev(v) for v in e.values]
            return all(vals) if isinstance(e.op, ast.And) else any(vals)
        if isinstance(e, ast.BinOp) and type(e.op) in (ast.Add, ast.Sub, ast.Mult):
            a, b = self.ev(e.left), self.ev(e.right)
            return a + b if isinstance(e.op, ast.Add) else a - b if isinstance(e.op, ast.Sub) else a * b
        if isinstance(e, ast.Compare) and len(e.ops) == 1:
            a, b = self.ev(e.left), self.ev(e.comparators[0])
            op = e.ops[0]
            if isinstance(op, ast.Eq):
                return a == b
            if isinstance(op, ast.NotEq):
                return a != b
            if isinstance(op, ast.Lt):
                return a < b
            if isinstance(op, ast.Gt):
                return a > b
        raise AnalysisError(f'outside the evaluated fragment: {astx.src(e)}')


@rule('C08.neutral', floor=18)
def neutral(repo, out):
    """Scaling is skipped / flagged off only for the neutral values ref == 1, ref0 == 0, res_ref == 1."""
    seen = {}
    for rel in CORE_FILES:
        m = repo.module(rel)
        for f in m.funcs.values():
            for st in astx.walk_stmts(f.node.body):
                if not (isinstance(st, ast.AugAssign) and isinstance(st.op, ast.BitOr) and
                        isinstance(st.target, ast.Attribute) and st.target.attr in FLAG_ROLES):
                    continue
                flag = st.target.attr
                v = st.value
                if isinstance(v, ast.Attribute):
                    # propagation from a child: must copy the same flag
                    if v.attr == flag:
                        out.ok(f, st, 'propagates the same flag')
                    else:
                        out.bad(f, st, f'{flag} is accumulated from {v.attr}', key='neutral-propagate')
                    continue
                if isinstance(v, ast.Name):
                    continue        # gathered per-rank value (MPI bookkeeping), not a test
                ft = _flag_test(v)
                if ft is None:
                    out.unsure(f, st, f'unrecognised scaling test {astx.src(v)}')
                    continue
                name, const = ft
                role = name if name in NEUTRAL else None
                keys = _meta_key_of(f, name)
                if role is None or (keys and keys != {role}):
                    out.bad(f, st, f'{flag} is decided from {name}' +
                            (f' (bound from metadata key {sorted(keys)})' if keys else '') +
                            ', which is not a scaling reference of that name', key='neutral-role')
                    continue
                if role not in FLAG_ROLES[flag]:
                    out.bad(f, st, f'{flag} must not depend on {role}', key='neutral-role')
                    continue
                if const != NEUTRAL[role]:
                    out.bad(f, st, f'{role} is tested against {const}; the value that means "no scaling" is '
                            f'{NEUTRAL[role]} ({flag} would stay off for a {role} that does scale, or turn on '
                            'for none)', key=f'neutral-{role}')
                    continue
                seen.setdefault((rel, f.qualname), set()).add((flag, role, isinstance(v, ast.Call)))
                out.ok(f, st, f'{flag} |= {role} != {const}')
    # the two sibling sites that derive the flags from declarations must set the same (flag, role, form) set
    want = None
    for site in FLAG_SITES:
        got = seen.get(site, set())
        if not got:
            raise AnalysisError(f'{site[1]}: no scaling flag computation recognised')
        if want is None:
            want = (site, got)
        elif got != want[1]:
            fn = repo.func(*site)
            out.bad(fn, fn.node, f'scaling flags are derived differently than in {want[0][1]}: '
                    f'only here {sorted(got - want[1])}, only there {sorted(want[1] - got)}', key='neutral-siblings')
        else:
            out.ok(repo.func(*site), repo.func(*site).node, f'same {len(got)} flag derivations as {want[0][1]}')
    # root input scale factors: the early exit must be taken only for ref == 1 and ref0 == 0
    fn = repo.func('openmdao/core/group.py', 'Group._compute_root_scale_factors')
    defs = [st for st in astx.walk_stmts(fn.node.body) if isinstance(st, ast.Assign) and len(st.targets) == 1
            and astx.path(st.targets[0]) == 'has_scaling']
    if len(defs) != 1:
        out.unsure(fn, fn.node, 'expected one definition of has_scaling')
    else:
        st = defs[0]
        for nm in ('ref', 'ref0'):
            if _meta_key_of(fn, nm) - {nm}:
                out.bad(fn, st, f'{nm} is bound from metadata key {sorted(_meta_key_of(fn, nm))}', key='neutral-role')
        bad = None
        for r, r0 in ((1.0, 0.0), (4.0, 3.0), (2.0, 0.0), (1.0, 0.5), (-1.5, -2.5), (0.5, -0.5), (2.0, 1.0), (0.0, -1.0)):
            try:
                val = _Ev(dict(ref=r, ref0=r0, scalar_ref=True, scalar_ref0=True)).ev(st.value)
            except AnalysisError as e:
                out.unsure(fn, st, str(e))
                bad = 'unsure'
                break
            if bool(val) != ((r, r0) != (1.0, 0.0)):
                bad = (r, r0, val)
                break
        if bad is None:
            out.ok(fn, st, 'has_scaling is False exactly for scalar ref == 1, ref0 == 0 (8 sample pairs)')
        elif bad != 'unsure':
            out.bad(fn, st, f'has_scaling evaluates to {bad[2]} for scalar ref={bad[0]}, ref0={bad[1]}: '
                    'the connected input would ' + ('lose its scale factors' if not bad[2] else 'get scale factors')
                    + ' although the source is ' + ('scaled' if not bad[2] else 'not scaled'), key='neutral-root')
    # _chk_scale_factor: the neutral (a0, a1) pair is (0, 1)
    cf = repo.module('openmdao/core/group.py').funcs.get('_chk_scale_factor')
    if cf is not None:
        cmp_ = [n for n in astx.walk(cf.node) if isinstance(n, ast.Compare) and len(n.ops) == 1 and
                isinstance(n.comparators[0], ast.Tuple)]
        if len(cmp_) == 1 and all(isinstance(x, ast.Constant) for x in cmp_[0].comparators[0].elts):
            tup = tuple(float(x.value) for x in cmp_[0].comparators[0].elts)
            if tup == (0.0, 1.0) and isinstance(cmp_[0].ops[0], ast.Eq):
                out.ok(cf, cmp_[0], 'neutral (a0, a1) == (0, 1)')
            else:
                out.bad(cf, cmp_[0], f'neutral scale-factor pair is tested as {tup}; (a0, a1) = (ref0, ref - ref0) '
                        'is neutral at (0, 1)', key='neutral-pair')
        else:
            out.unsure(cf, cf.node, '_chk_scale_factor shape not recognised')


# --------------------------------------------------------------------------- unit conversion composed with scaling
class _Arith:
    """Evaluate + - * / over {name: float}."""

    def __init__(self, env):
        self.env = env

    def ev(self, e):
        if isinstance(e, ast.Constant) and isinstance(e.value, (int, float)) and not isinstance(e.value, bool):
            return float(e.value)
        if isinstance(e, ast.Name) and e.id in self.env:
            return self.env[e.id]
        if isinstance(e, ast.UnaryOp) and isinstance(e.op, ast.USub):
            return -self.ev(e.operand)
        if isinstance(e, ast.BinOp) and type(e.op) in (ast.Add, ast.Sub, ast.Mult, ast.Div):
            a, b = self.ev(e.left), self.ev(e.right)
            if isinstance(e.op, ast.Add):
                return a + b
            if isinstance(e.op, ast.Sub):
                return a - b
            if isinstance(e.op, ast.Mult):
                return a * b
            return a / b if b else float('nan')
        raise AnalysisError(f'outside the evaluated fragment: {astx.src(e)}')


@rule('C08.unitscale', floor=2)
def unitscale(repo, out):
    """Input scaling composed with a unit conversion is g(a0 + a1*n) for the conversion g of utils/units.py.

    convert_units defines g(x) = (x + offset) * factor; a source with scaling x = a0 + a1*n therefore reaches
    a unit-converted input as scale0 + scale1*n with scale0 = g(a0), scale1 = a1*factor.  The nonlinear
    branch of DefaultVector._set_scaling and the adder-allocation mirror in Group._compute_root_scale_factors
    are evaluated against that composition on sample values."""
    cu = repo.func('openmdao/utils/units.py', 'convert_units')
    rets = [r for r in astx.walk_stmts(cu.node.body) if isinstance(r, ast.Return) and
            isinstance(r.value, ast.BinOp)]
    if len(rets) != 1:
        raise AnalysisError('convert_units: conversion formula not found')
    gexpr = rets[0].value
    vname = cu.node.args.args[0].arg

    def g(x, factor, offset):
        return _Arith({vname: x, 'factor': factor, 'offset': offset}).ev(gexpr)
    samples = [(0.5, 2.0, 100.0, 3.0, 0.7), (-2.5, 1.0, 0.3048, -32.0, 1.3), (3.0, 4.0, 1000.0, 0.0, -0.4),
               (1.0, 0.5, 1.8, 273.15, 2.0)]
    fn = repo.func(DVEC, 'DefaultVector._set_scaling')
    # which locals end up in the adder / scaler arrays
    stores = {}
    for x in astx.walk_stmts(fn.node.body):
        if isinstance(x, ast.Assign) and isinstance(x.targets[0], ast.Subscript) and isinstance(x.value, ast.Name):
            stores[astx.path(x.targets[0].value)] = x.value.id
    add_l, scl_l = stores.get('adder_array'), stores.get('scaler_array')
    # the (a0, a1, factor, offset) tuple of a variable is unpacked into locals: roles by position
    unp4 = [x for x in astx.walk_stmts(fn.node.body) if isinstance(x, ast.Assign) and
            isinstance(x.targets[0], ast.Tuple) and len(x.targets[0].elts) == 4 and
            all(isinstance(e, ast.Name) for e in x.targets[0].elts) and isinstance(x.value, ast.Subscript)]
    rn = [e.id for e in unp4[0].targets[0].elts] if len(unp4) == 1 else ['a0', 'a1', 'factor', 'offset']
    # the nonlinear unit-converted arm: the block that assigns the adder local from the conversion offset
    blocks = []
    for x in astx.walk(fn.node):
        for fld in ('body', 'orelse'):
            blk = getattr(x, fld, None)
            if isinstance(blk, list) and any(isinstance(y, ast.Assign) and len(y.targets) == 1 and
                                             astx.path(y.targets[0]) == add_l and astx.mentions(y.value, rn[3])
                                             for y in blk):
                blocks.append(blk)
    if add_l is None or scl_l is None or len(blocks) != 1:
        out.unsure(fn, fn.node, 'unit-converted nonlinear arm (adder local computed from the conversion offset) '
                   'not recognised')
    else:
        asg = {astx.path(x.targets[0]): x for x in blocks[0] if isinstance(x, ast.Assign) and len(x.targets) == 1}
        if scl_l not in asg:
            out.unsure(fn, asg[add_l], 'scaler local is not assigned next to the adder local')
        else:
            bad = None
            for a0, a1, factor, offset, n in samples:
                env = {rn[0]: a0, rn[1]: a1, rn[2]: factor, rn[3]: offset}
                try:
                    got = _Arith(env).ev(asg[add_l].value) + _Arith(env).ev(asg[scl_l].value) * n
                except AnalysisError as e:
                    out.unsure(fn, asg[add_l], str(e))
                    bad = 'unsure'
                    break
                want = g(a0 + a1 * n, factor, offset)
                if abs(got - want) > 1e-9 * max(1.0, abs(want)):
                    bad = (env, n, got, want)
                    break
            if bad is None:
                out.ok(fn, asg[add_l], f'{add_l} + {scl_l}*n == convert_units(a0 + a1*n) on {len(samples)} samples')
            elif bad != 'unsure':
                out.bad(fn, asg[add_l], f'with {bad[0]} a normalised value n={bad[1]} reaches the unit-converted input as '
                        f'{bad[2]:g}, but convert_units(a0 + a1*n) = {bad[3]:g}: the input no longer holds the '
                        'converted physical source value when the source has ref0/ref and the connection converts units',
                        key='unitscale-compose')
    # mirror used to decide whether an input adder must be allocated
    gf = repo.func('openmdao/core/group.py', 'Group._compute_root_scale_factors')
    # the value tested for the input-adder allocation: `_has_input_adder |= np.any(np.asarray(X))`
    tnames = {'a0'}
    for x in astx.walk_stmts(gf.node.body):
        if isinstance(x, ast.AugAssign) and (astx.path(x.target) or '').endswith('_has_input_adder'):
            tnames |= {n_.id for n_ in astx.walk(x.value) if isinstance(n_, ast.Name)}
    # the conversion locals: `factor, offset = unit_conversion(...)`
    uc = [x for x in astx.walk_stmts(gf.node.body) if isinstance(x, ast.Assign) and isinstance(x.targets[0], ast.Tuple)
          and len(x.targets[0].elts) == 2 and isinstance(x.value, ast.Call) and
          astx.call_name(x.value).endswith('unit_conversion')]
    fo = [e.id for e in uc[0].targets[0].elts] if uc and all(isinstance(e, ast.Name) for e in uc[0].targets[0].elts) \
        else ['factor', 'offset']
    mir = [x for x in astx.walk_stmts(gf.node.body) if isinstance(x, ast.Assign) and len(x.targets) == 1 and
           astx.path(x.targets[0]) in tnames and astx.mentions(x.value, fo[1])]
    if len(mir) != 1:
        out.unsure(gf, gf.node, 'adder-allocation mirror `a0 = g(ref0)` not found')
    else:
        bad = None
        for a0, a1, factor, offset, n in samples:
            try:
                got = _Arith({'ref0': a0, 'a0': a0, fo[0]: factor, fo[1]: offset}).ev(mir[0].value)
            except AnalysisError as e:
                out.unsure(gf, mir[0], str(e))
                bad = 'unsure'
                break
            if abs(got - g(a0, factor, offset)) > 1e-9 * max(1.0, abs(got)):
                bad = (a0, factor, offset, got)
                break
        if bad is None:
            out.ok(gf, mir[0], 'adder-allocation test uses convert_units(ref0)')
        elif bad != 'unsure':
            out.bad(gf, mir[0], f'the adder-allocation test evaluates {bad[3]:g} for ref0={bad[0]}, factor={bad[1]}, '
                    f'offset={bad[2]} but the adder stored by _set_scaling is convert_units(ref0)', key='unitscale-mirror')


# --------------------------------------------------------------------------- declared references are not mutated
META_KEYS = ('ref', 'ref0', 'res_ref')


@rule('C08.metaalias', floor=3)
def metaalias(repo, out):
    """A ref/ref0/res_ref array read from variable metadata is never modified in place.

    `a1 = ref; a1 -= ref0` writes through the alias into the declared metadata: every later consumer of the
    same source (another connected input, the output vector's own scaling) sees a different ref."""
    n = 0
    for rel in CORE_FILES + [DVEC]:
        if not repo.exists(rel):
            continue
        m = repo.module(rel)
        for f in m.funcs.values():
            reads = [x for x in astx.walk(f.node) if isinstance(x, ast.Subscript) and
                     astx.const_str(x.slice) in META_KEYS and isinstance(getattr(x, 'ctx', None), ast.Load)]
            if not reads:
                continue
            fs = None

            def from_meta(at, name, depth=0):
                if depth > 5:
                    return False
                for d in fs.rd.defs(at, name):
                    if d is fs.g.entry or d.kind != 'stmt' or not isinstance(d.ast, ast.Assign):
                        continue
                    v = d.ast.value
                    if len(d.ast.targets) != 1 or astx.path(d.ast.targets[0]) != name:
                        continue
                    if isinstance(v, ast.Subscript) and astx.const_str(v.slice) in META_KEYS:
                        return True
                    if isinstance(v, ast.Name) and from_meta(d, v.id, depth + 1):
                        return True
                return False
            for st in astx.walk_stmts(f.node.body):
                tgt = None
                if isinstance(st, ast.AugAssign) and isinstance(st.target, ast.Name):
                    tgt = st.target.id
                elif isinstance(st, ast.AugAssign) and isinstance(st.target, ast.Subscript) and \
                        isinstance(st.target.value, ast.Name):
                    tgt = st.target.value.id
                elif isinstance(st, ast.Assign) and isinstance(st.targets[0], ast.Subscript) and \
                        isinstance(st.targets[0].value, ast.Name):
                    tgt = st.targets[0].value.id
                if tgt is None:
                    continue
                if fs is None:
                    fs = FnState(repo, f)
                nodes = fs.g.nodes_of(st)
                if nodes and from_meta(nodes[0], tgt):
                    out.bad(f, st, f'`{tgt}` can still be the array stored in the variable metadata '
                            f'({"/".join(META_KEYS)}) when it is modified in place here: the declared scaling '
                            'reference itself is changed', key='meta-alias-mutated')
            n += 1
            out.ok(f, f.node, f'{len(reads)} metadata read(s) of ref/ref0/res_ref, none written through')
    if n < 3:
        raise AnalysisError('readers of ref/ref0/res_ref metadata not found')


# --------------------------------------------------------------------------- cached adjoint solutions
CACHE_FILES = ['openmdao/solvers/linear/direct.py', 'openmdao/solvers/linear/scipy_iter_solver.py',
               'openmdao/solvers/linear/petsc_direct_solver.py', 'openmdao/solvers/linear/petsc_ksp.py']


def _lex_state(fs, st):
    """'phys' inside an _unscaled_context that lists both an output- and a residual-kind vector, 'scaled'
    outside every such context, None when only one kind is listed (a linear solve needs both)."""
    for w, listed in fs.ctxs:
        if astx.in_body(st, w, 'body'):
            return 'phys' if set(listed.values()) >= {'outputs', 'residuals'} else None
    return 'scaled'


def _is_view_expr(e):
    """True for `V`, `V.asarray()`, `V._get_data()`, `V.asarray(copy=False)`: aliases the vector's storage."""
    if isinstance(e, (ast.Name, ast.Attribute)):
        return True
    if isinstance(e, ast.Call) and astx.callee_attr(e) in ('asarray', '_get_data', '_abs_get_val'):
        c = astx.kwarg(e, 'copy') if astx.kwarg(e, 'copy') is not None else (e.args[0] if e.args else None)
        return c is None or (isinstance(c, ast.Constant) and not c.value)
    return False


def _capture_states(fs, call_st, e, depth=0):
    """Set of lexical states in which the array expression e (an argument at call_st) got its contents."""
    if not isinstance(e, ast.Name):
        return {_lex_state(fs, call_st)} if _is_view_expr(e) else {None}
    at = fs.g.nodes_of(call_st)[0]
    out = set()
    for d in fs.rd.defs(at, e.id):
        if d is fs.g.entry or d.kind != 'stmt' or depth > 4:
            out.add(None)
            continue
        a = d.ast
        val = None
        if isinstance(a, ast.Assign):
            val = a.value
        if val is None:
            out.add(None)
        elif isinstance(val, ast.Name):
            out |= _capture_states(fs, call_st, val, depth + 1) if _is_vector_view_local(fs, d, val) \
                else _capture_states(fs, a, val, depth + 1)
        elif _is_view_expr(val):
            out.add(_lex_state(fs, call_st))      # a view follows the vector: state at the use
        else:
            out.add(_lex_state(fs, a))            # computed / copied here: state at the definition
    return out


def _is_vector_view_local(fs, at, name_node):
    """True if the local is bound (on every reaching definition) to a view of a vector."""
    ds = fs.rd.defs(at, name_node.id)
    return bool(ds) and all(d is not fs.g.entry and d.kind == 'stmt' and isinstance(d.ast, ast.Assign) and
                            _is_view_expr(d.ast.value) and not isinstance(d.ast.value, ast.Name) for d in ds)


@rule('C08.cache', floor=3)
def cache(repo, out):
    """A cached adjoint solution is stored and replayed in one scaling state.

    LinearRHSChecker.get_solution(b) compares b with the cached right-hand sides and its result is written
    into the solution vector; add_solution(rhs, sol) must therefore receive rhs in the state get_solution's
    argument is in, and sol in the state the replayed solution is written back in."""
    n = 0
    for rel in CACHE_FILES:
        if not repo.exists(rel):
            continue
        m = repo.module(rel)
        for f in m.funcs.values():
            adds = [c for c in astx.calls(f.node) if astx.callee_attr(c) == 'add_solution']
            gets = [c for c in astx.calls(f.node) if astx.callee_attr(c) == 'get_solution']
            if not adds and not gets:
                continue
            fs = FnState(repo, f)
            n += 1
            replay = set()
            for g_ in gets:
                st = astx.stmt_of(g_)
                s_get = _lex_state(fs, st)
                replay.add(s_get)
                tgt = st.targets[0] if isinstance(st, ast.Assign) else None
                sol = tgt.elts[0].id if isinstance(tgt, ast.Tuple) and isinstance(tgt.elts[0], ast.Name) else \
                    (tgt.id if isinstance(tgt, ast.Name) else None)
                if sol is None:
                    out.unsure(f, st, 'result of get_solution is not bound to a local')
                    continue
                uses = [u for u in astx.walk_stmts(f.node.body)
                        if u is not st and not isinstance(u, (ast.If, ast.For, ast.While, ast.With, ast.Try))
                        and any(isinstance(x, ast.Name) and x.id == sol and isinstance(x.ctx, ast.Load)
                                for x in astx.walk(u))
                        and fs.g.nodes_of(u) and any(d.kind == 'stmt' and d.ast is st
                                                     for d in fs.rd.defs(fs.g.nodes_of(u)[0], sol))]
                for u in uses:
                    if _lex_state(fs, u) != s_get:
                        out.bad(f, u, f'the replayed solution is written back in the {_lex_state(fs, u)} state but '
                                f'the right-hand side was matched in the {s_get} state', key='cache-replay')
                if uses:
                    out.ok(f, st, f'replay in the {s_get} state ({len(uses)} use(s))')
            for a in adds:
                st = astx.stmt_of(a)
                if len(a.args) < 2:
                    out.unsure(f, st, 'add_solution call shape not recognised')
                    continue
                s_rhs = _capture_states(fs, st, a.args[0])
                s_sol = _capture_states(fs, st, a.args[1])
                if None in s_rhs or None in s_sol:
                    out.unsure(f, st, f'cannot resolve where {astx.src(a.args[0])} / {astx.src(a.args[1])} were captured')
                    continue
                want = replay or s_rhs
                if len(s_rhs) != 1 or s_rhs != want:
                    out.bad(f, st, f'right-hand side is cached in state(s) {sorted(s_rhs)} but matched against in '
                            f'{sorted(want)}', key='cache-rhs')
                elif s_sol != s_rhs:
                    out.bad(f, st, f'the cached solution {astx.src(a.args[1])} is captured in state(s) {sorted(s_sol)} '
                            f'while its right-hand side and the replay are in the {sorted(s_rhs)[0]} state: a cache '
                            'hit writes a physical solution into scaled vectors (wrong by ref/res_ref)',
                            key='cache-state')
                else:
                    out.ok(f, st, f'rhs and solution cached in the {sorted(s_rhs)[0]} state')
    if n < 2:
        raise AnalysisError('LinearRHSChecker users not found')


WHO = {
    ('openmdao/core/system.py', 'System._unscaled_context'): 'the unscaled context',
    ('openmdao/core/system.py', 'System._scaled_context_all'): 'the scaled context',
    ('openmdao/core/group.py', 'Group._transfer'): 'input vector rescaling around a transfer',
}


@rule('C08.who', floor=10)
def who(repo, out):
    """scale_to_norm/scale_to_phys are only called from the tabled sites; Group._transfer pairs them."""
    helpers = ctx_helpers(repo)
    for h in helpers.values():
        # a helper inlined by C08.ctx is a legitimate site only if the contexts are its sole users
        for rel in repo.shipped():
            if h.name not in repo.source(rel):
                continue
            for f in repo.module(rel).funcs.values():
                for n in astx.walk(f.node):
                    if isinstance(n, ast.Attribute) and n.attr == h.name and (rel, f.qualname) not in WHO \
                            and f.ident not in helpers:
                        out.bad(f, astx.stmt_of(n), f'{h.name} (which rescales vectors for the scaling contexts) '
                                'is used outside the tabled sites', key='who-scale-call')
    for rel in repo.shipped():
        src = repo.source(rel)
        if 'scale_to_norm' not in src and 'scale_to_phys' not in src:
            continue
        m = repo.module(rel)
        for f in m.funcs.values():
            for c in astx.calls(f.node):
                if astx.callee_attr(c) in INV and isinstance(c.func, ast.Attribute):
                    if (rel, f.qualname) in WHO:
                        out.ok(f, astx.stmt_of(c), WHO[(rel, f.qualname)])
                    elif f.ident in helpers:
                        out.ok(f, astx.stmt_of(c), 'helper of the scaling contexts (inlined and mirrored by C08.ctx)')
                    else:
                        out.bad(f, astx.stmt_of(c), f'{astx.callee_attr(c)} called outside the tabled sites: '
                                'the scaling state of the vector is no longer paired by construction',
                                key='who-scale-call')
    # Group._transfer: on every normal path, each scale_to_norm(mode) is followed by scale_to_phys(mode)
    fn = repo.func('openmdao/core/group.py', 'Group._transfer')
    g = cfgm.build(fn)
    norms = g.calling('scale_to_norm')
    physs = g.calling('scale_to_phys')
    xfers = g.calling('_transfer')

    def mode_of(n, name):
        for c in n.calls():
            if astx.callee_attr(c) == name:
                a = astx.arg(c, 0, 'mode')
                return astx.dump(a) if a is not None else "Constant('fwd')"
        return None
    def innermost_guard(n):
        for a in astx.ancestors(n.ast):
            if isinstance(a, ast.If):
                return astx.dump(a.test)
        return None
    for n in norms:
        md = mode_of(n, 'scale_to_norm')
        same = [p for p in physs if mode_of(p, 'scale_to_phys') == md and
                astx.same(astx.receiver([c for c in p.calls() if astx.callee_attr(c) == 'scale_to_phys'][0]),
                          astx.receiver([c for c in n.calls() if astx.callee_attr(c) == 'scale_to_norm'][0]))]
        # the set-up and the tear-down are guarded by the same condition expression; paths on which a
        # later test of that expression takes the other branch are treated as infeasible
        gd = innermost_guard(n)
        eo = g.assume(gd, True) if gd else None
        w = g.must_pass(g.normal_succ(n), [g.exit], same, labels=cfgm.noexc, edge_ok=eo)
        if w is not None:
            out.bad(fn, n.ast, 'scale_to_norm is not followed by scale_to_phys with the same mode on the '
                    'same vector on every path: ' + g.fmt_path(w), key='transfer-pair')
            continue
        # a transfer happens in between
        w2 = g.must_pass(g.normal_succ(n), same, xfers, labels=cfgm.noexc, edge_ok=eo)
        if w2 is not None:
            out.bad(fn, n.ast, 'no transfer between scale_to_norm and scale_to_phys', key='transfer-pair')
            continue
        out.ok(fn, n.ast, f'paired with scale_to_phys (mode {md}) around the transfer')
    for p in physs:
        md = mode_of(p, 'scale_to_phys')
        same = [n for n in norms if mode_of(n, 'scale_to_norm') == md]
        gd = innermost_guard(p)
        eo = g.assume(gd, True) if gd else None
        if g.dominated_by(p, same, labels=cfgm.noexc, edge_ok=eo) is not None:
            out.bad(fn, p.ast, 'scale_to_phys without a dominating scale_to_norm of the same mode',
                    key='transfer-pair')
    # guards of the pair must agree (same condition expression)
    for n in norms:
        gn = [a for a in astx.ancestors(n.ast) if isinstance(a, ast.If)]
        if not gn:
            continue
        cond = astx.dump(gn[0].test)
        md = mode_of(n, 'scale_to_norm')
        for p in physs:
            if mode_of(p, 'scale_to_phys') != md:
                continue
            gp = [a for a in astx.ancestors(p.ast) if isinstance(a, ast.If)]
            if gp and astx.dump(gp[0].test) != cond:
                out.bad(fn, p.ast, 'scale_to_phys is guarded by a different condition than its scale_to_norm',
                        key='transfer-guard')


# --------------------------------------------------------------------------- self-test

_CTX_ALL_OLD = ("        if self._has_output_scaling:\n            for vec in self._vectors['output'].values():\n                vec.scale_to_norm()\n"
                "        if self._has_resid_scaling:\n            for vec in self._vectors['residual'].values():\n                vec.scale_to_norm()\n\n"
                "        try:\n\n            yield\n\n        finally:\n\n"
                "            if self._has_output_scaling:\n                for vec in self._vectors['output'].values():\n                    vec.scale_to_phys()\n"
                "            if self._has_resid_scaling:\n                for vec in self._vectors['residual'].values():\n                    vec.scale_to_phys()\n")


def _ctx_all_table(fin_table='flag_kinds', skip='if not getattr(self, flag_name):'):
    return ("        flag_kinds = (('_has_output_scaling', 'output'), ('_has_resid_scaling', 'residual'))\n\n"
            "        for flag_name, kind in flag_kinds:\n            if getattr(self, flag_name):\n"
            "                for vec in self._vectors[kind].values():\n                    vec.scale_to_norm()\n\n"
            "        try:\n\n            yield\n\n        finally:\n\n"
            "            for flag_name, kind in " + fin_table + ":\n                " + skip + "\n                    continue\n"
            "                kind_vecs = self._vectors[kind]\n                for vec in kind_vecs.values():\n"
            "                    vec.scale_to_phys()\n")


def _ctx_all_helper(res_else='res_vec.scale_to_phys()', extra=''):
    return ("        self._rescale_all(to_norm=True)\n\n        try:\n\n            yield\n\n        finally:\n\n"
            "            self._rescale_all(False)\n" + extra + "\n"
            "    def _rescale_all(self, to_norm):\n"
            "        if self._has_output_scaling:\n            for out_vec in self._vectors['output'].values():\n"
            "                if to_norm:\n                    out_vec.scale_to_norm()\n                else:\n                    out_vec.scale_to_phys()\n"
            "        if self._has_resid_scaling:\n            for res_vec in self._vectors['residual'].values():\n"
            "                if not to_norm:\n                    " + res_else + "\n                else:\n                    res_vec.scale_to_norm()\n")


_EC = 'openmdao/core/explicitcomponent.py'
_IC = 'openmdao/core/implicitcomponent.py'
selftest(
    'C08',
    Mutant('ctx-no-finally', SYSTEM,
           "        try:\n\n            yield\n\n        finally:\n\n            if self._has_output_scaling:\n                for vec in outputs:\n                    vec.scale_to_norm()\n\n            if self._has_resid_scaling:\n                for vec in residuals:\n                    vec.scale_to_norm()",
           "        yield\n\n        if self._has_output_scaling:\n            for vec in outputs:\n                vec.scale_to_norm()\n\n        if self._has_resid_scaling:\n            for vec in residuals:\n                vec.scale_to_norm()",
           'C08.ctx'),
    Mutant('ctx-wrong-guard', SYSTEM,
           "            if self._has_resid_scaling:\n                for vec in residuals:\n                    vec.scale_to_norm()",
           "            if self._has_output_scaling:\n                for vec in residuals:\n                    vec.scale_to_norm()", 'C08.ctx'),
    Mutant('ctx-all-wrong-iter', SYSTEM,
           "            if self._has_resid_scaling:\n                for vec in self._vectors['residual'].values():\n                    vec.scale_to_phys()",
           "            if self._has_resid_scaling:\n                for vec in self._vectors['output'].values():\n                    vec.scale_to_phys()", 'C08.ctx'),
    Mutant('vec-order', DVEC, "        data *= scaler\n        if adder is not None:  # nonlinear only\n            data += adder",
           "        if adder is not None:  # nonlinear only\n            data += adder\n        data *= scaler", 'C08.vec'),
    Mutant('vec-copy', DVEC, "        data = self.asarray()\n        data *= scaler", "        data = self.asarray(copy=True)\n        data *= scaler", 'C08.vec'),
    Mutant('vec-branch-args', DVEC, "                self._scale_reverse(self._nlvec._scaling[0], None)",
           "                self._scale_reverse(*self._scaling)", 'C08.vec'),
    Mutant('vec-branch-same-prim', DVEC, "        if mode == 'rev':\n            self._scale_forward(*self._scaling)",
           "        if mode == 'rev':\n            self._scale_reverse(*self._scaling)", 'C08.vec'),
    Mutant('enclose-compute', _EC, "            with self._unscaled_context(outputs=[self._outputs]):\n                self._compute_wrapper()",
           "            with self._unscaled_context(residuals=[self._residuals]):\n                self._compute_wrapper()", 'C08.enclose'),
    Mutant('enclose-solve-linear', _IC, "            with self._unscaled_context(outputs=[d_outputs], residuals=[d_residuals]):\n                # set appropriate",
           "            with self._unscaled_context(outputs=[d_outputs]):\n                # set appropriate", 'C08.enclose'),
    Mutant('enclose-linearize', _IC, "            with self._unscaled_context(outputs=[self._outputs], residuals=[self._residuals]):\n                # Computing the approximation",
           "            if True:\n                # Computing the approximation", 'C08.enclose'),
    Mutant('state-F11', _EC, "            with self._unscaled_context(outputs=[self._outputs, d_outputs],\n                                        residuals=[d_residuals]):",
           "            with self._unscaled_context(outputs=[self._outputs],\n                                        residuals=[d_residuals]):", 'C08.state'),
    Mutant('state-nlbgs', 'openmdao/solvers/nonlinear/nonlinear_block_gs.py',
           "            with system._unscaled_context(outputs=[outputs], residuals=[residuals]):\n                residuals.set_val(outputs.asarray() - outputs_n)",
           "            with system._unscaled_context(residuals=[residuals]):\n                residuals.set_val(outputs.asarray() - outputs_n)", 'C08.state'),
    Mutant('state-solve-linear', _EC, "                with self._unscaled_context(outputs=[d_outputs], residuals=[d_residuals]):\n                    d_outputs.set_vec(d_residuals)",
           "                with self._unscaled_context(residuals=[d_residuals]):\n                    d_outputs.set_vec(d_residuals)", 'C08.state'),
    Mutant('state-prefix-resid-flag-only', _EC, "            if self._has_resid_scaling or self._has_output_scaling:\n                with self._unscaled_context(outputs=[d_outputs], residuals=[d_residuals]):\n                    d_outputs.set_vec(d_residuals)",
           "            if self._has_resid_scaling:\n                with self._unscaled_context(outputs=[d_outputs], residuals=[d_residuals]):\n                    d_outputs.set_vec(d_residuals)", 'C08.state'),
    Mutant('state-group-output-flag-only', 'openmdao/core/group.py', "                if self._has_resid_scaling or self._has_output_scaling:\n                    with self._unscaled_context(outputs=[d_outputs], residuals=[d_residuals]):\n                        d_residuals.set_vec(d_outputs)",
           "                if self._has_output_scaling:\n                    with self._unscaled_context(outputs=[d_outputs], residuals=[d_residuals]):\n                        d_residuals.set_vec(d_outputs)", 'C08.state'),
    Mutant('state-group-rev-only-outputs-unscaled', 'openmdao/core/group.py', "                    with self._unscaled_context(outputs=[d_outputs], residuals=[d_residuals]):\n                        d_residuals.set_vec(d_outputs)",
           "                    with self._unscaled_context(outputs=[d_outputs]):\n                        d_residuals.set_vec(d_outputs)", 'C08.state'),
    Twin('twin-state-always-context', _EC, "            if self._has_resid_scaling or self._has_output_scaling:\n                with self._unscaled_context(outputs=[d_outputs], residuals=[d_residuals]):\n                    d_outputs.set_vec(d_residuals)\n            else:\n                d_outputs.set_vec(d_residuals)",
         "            with self._unscaled_context(outputs=[d_outputs], residuals=[d_residuals]):\n                d_outputs.set_vec(d_residuals)"),
    Twin('twin-state-flags-swapped', _EC, "            if self._has_resid_scaling or self._has_output_scaling:\n                with self._unscaled_context(outputs=[d_outputs], residuals=[d_residuals]):\n                    d_outputs.set_vec(d_residuals)",
         "            if self._has_output_scaling or self._has_resid_scaling:\n                with self._unscaled_context(outputs=[d_outputs], residuals=[d_residuals]):\n                    d_outputs.set_vec(d_residuals)"),
    Mutant('who-extra-call', 'openmdao/core/group.py', "        vec_inputs = self._vectors['input'][vec_name]\n",
           "        vec_inputs = self._vectors['input'][vec_name]\n        self._vectors['output'][vec_name].scale_to_phys()\n", 'C08.who', nth=0),
    Mutant('who-transfer-mode', 'openmdao/core/group.py', "                    vec_inputs.scale_to_phys(mode='rev')", "                    vec_inputs.scale_to_phys()", 'C08.who'),
    Mutant('who-transfer-unpaired', 'openmdao/core/group.py', "                    xfer._transfer(vec_inputs, self._vectors['output'][vec_name], mode)\n                    vec_inputs.scale_to_phys()\n",
           "                    xfer._transfer(vec_inputs, self._vectors['output'][vec_name], mode)\n", 'C08.who'),
    Mutant('state-aitken-restore-unscaled-dropped', 'openmdao/solvers/nonlinear/nonlinear_block_gs.py',
           "        if not self.options['use_apply_nonlinear']:\n            with system._unscaled_context(outputs=[outputs]):\n                outputs.set_val(outputs_n)\n        else:\n            outputs.set_val(outputs_n)\n",
           "        outputs.set_val(outputs_n)\n", 'C08.state'),
    Mutant('state-aitken-capture-scaled', 'openmdao/solvers/nonlinear/nonlinear_block_gs.py',
           "            if not self.options['use_apply_nonlinear']:\n                with system._unscaled_context(outputs=[outputs]):\n                    outputs_n = outputs.asarray(copy=True)\n            else:\n                outputs_n = outputs.asarray(copy=True)\n",
           "            outputs_n = outputs.asarray(copy=True)\n", 'C08.state'),
    Twin('twin-state-aitken-branches-swapped', 'openmdao/solvers/nonlinear/nonlinear_block_gs.py',
         "        if not self.options['use_apply_nonlinear']:\n            with system._unscaled_context(outputs=[outputs]):\n                outputs.set_val(outputs_n)\n        else:\n            outputs.set_val(outputs_n)\n",
         "        if self.options['use_apply_nonlinear']:\n            outputs.set_val(outputs_n)\n        else:\n            with system._unscaled_context(outputs=[outputs]):\n                outputs.set_val(outputs_n)\n"),
    Mutant('neutral-array-ref0-vs-one', SYSTEM, "                    subsys._has_output_scaling |= np.any(ref0)\n                    subsys._has_output_adder |= np.any(ref0)",
           "                    subsys._has_output_scaling |= np.any(ref0 != 1.0)\n                    subsys._has_output_adder |= np.any(ref0 != 1.0)", 'C08.neutral'),
    Mutant('neutral-scalar-ref-vs-zero', 'openmdao/core/component.py', "            self._has_output_scaling |= ref != 1.0", "            self._has_output_scaling |= ref != 0.0", 'C08.neutral'),
    Mutant('neutral-adder-from-ref', 'openmdao/core/component.py', "            self._has_output_adder |= ref0 != 0.0", "            self._has_output_adder |= ref != 1.0", 'C08.neutral'),
    Mutant('neutral-sibling-missing-adder', SYSTEM, "                    subsys._has_output_scaling |= ref0 != 0.0\n                    subsys._has_output_adder |= ref0 != 0.0",
           "                    subsys._has_output_scaling |= ref0 != 0.0", 'C08.neutral'),
    Mutant('neutral-propagate-wrong-flag', 'openmdao/core/group.py', "                grp._has_output_adder |= subsys._has_output_adder", "                grp._has_output_adder |= subsys._has_output_scaling", 'C08.neutral'),
    Mutant('neutral-root-difference-only', 'openmdao/core/group.py', "has_scaling = not scalar_ref or not scalar_ref0 or ref != 1.0 or ref0 != 0.0",
           "has_scaling = not scalar_ref or not scalar_ref0 or (ref - ref0) != 1.0", 'C08.neutral'),
    Mutant('neutral-root-and', 'openmdao/core/group.py', "has_scaling = not scalar_ref or not scalar_ref0 or ref != 1.0 or ref0 != 0.0",
           "has_scaling = not scalar_ref or not scalar_ref0 or (ref != 1.0 and ref0 != 0.0)", 'C08.neutral'),
    Mutant('neutral-pair-swapped', 'openmdao/core/group.py', "        if factor == (0.0, 1.0):", "        if factor == (1.0, 0.0):", 'C08.neutral'),
    Twin('twin-neutral-demorgan', 'openmdao/core/group.py', "has_scaling = not scalar_ref or not scalar_ref0 or ref != 1.0 or ref0 != 0.0",
         "has_scaling = not (scalar_ref and scalar_ref0 and ref == 1.0 and ref0 == 0.0)"),
    Twin('twin-neutral-explicit-zero', 'openmdao/core/component.py', "            self._has_output_scaling |= np.any(ref0)\n            self._has_output_adder |= np.any(ref0)",
         "            self._has_output_adder |= np.any(ref0 != 0.0)\n            self._has_output_scaling |= np.any(0.0 != ref0)"),
    Twin('twin-state-option-alias', 'openmdao/solvers/nonlinear/nonlinear_block_gs.py',
         "        if use_aitken or not self.options['use_apply_nonlinear']:\n            # store a copy of the outputs\n            if not self.options['use_apply_nonlinear']:\n                with system._unscaled_context(outputs=[outputs]):\n                    outputs_n = outputs.asarray(copy=True)\n            else:\n                outputs_n = outputs.asarray(copy=True)\n",
         "        use_apply = self.options['use_apply_nonlinear']\n        if not use_apply:\n            with system._unscaled_context(outputs=[outputs]):\n                outputs_n = outputs.asarray(copy=True)\n        elif use_aitken:\n            outputs_n = outputs.asarray(copy=True)\n"),
    Mutant('state-option-alias-capture-swapped', 'openmdao/solvers/nonlinear/nonlinear_block_gs.py',
           "        if use_aitken or not self.options['use_apply_nonlinear']:\n            # store a copy of the outputs\n            if not self.options['use_apply_nonlinear']:\n                with system._unscaled_context(outputs=[outputs]):\n                    outputs_n = outputs.asarray(copy=True)\n            else:\n                outputs_n = outputs.asarray(copy=True)\n",
           "        use_apply = self.options['use_apply_nonlinear']\n        if use_apply:\n            with system._unscaled_context(outputs=[outputs]):\n                outputs_n = outputs.asarray(copy=True)\n        else:\n            outputs_n = outputs.asarray(copy=True)\n", 'C08.state'),
    Twin('twin-enclose-named-vector-lists', _EC, "            with self._unscaled_context(outputs=[self._outputs]):\n                self._compute_wrapper()",
         "            out_vecs = [self._outputs]\n            with self._unscaled_context(outputs=out_vecs):\n                self._compute_wrapper()"),
    Mutant('unitscale-adder-factor-dropped', DVEC, "                            scale0 = (a0 + offset) * factor", "                            scale0 = a0 + offset * factor", 'C08.unitscale'),
    Mutant('unitscale-scaler-no-factor', DVEC, "                            scale1 = a1 * factor", "                            scale1 = a1", 'C08.unitscale'),
    Mutant('unitscale-mirror-wrong', 'openmdao/core/group.py', "                    a0 = (ref0 + offset) * factor", "                    a0 = ref0 * factor + offset", 'C08.unitscale'),
    Twin('twin-unitscale-distributed', DVEC, "                            scale0 = (a0 + offset) * factor", "                            scale0 = a0 * factor + offset * factor"),
    Mutant('metaalias-inplace-difference', 'openmdao/core/group.py', "                a1 = ref - ref0\n", "                a1 = ref\n                a1 -= ref0\n", 'C08.metaalias'),
    Twin('twin-metaalias-fresh-array', 'openmdao/core/group.py', "                a1 = ref - ref0\n", "                a1 = np.subtract(ref, ref0)\n"),
    Twin('twin-vec-early-return', DVEC, "        data *= scaler\n        if adder is not None:  # nonlinear only\n            data += adder",
         "        data *= scaler\n        if adder is None:\n            return\n        data += adder"),
    Twin('twin-vec-unpack-elif', DVEC,
         "        if mode == 'rev':\n            self._scale_forward(*self._scaling)\n        else:\n            if self._has_solver_ref:\n                self._scale_reverse(self._nlvec._scaling[0], None)\n            else:\n                self._scale_reverse(*self._scaling)",
         "        if mode != 'rev':\n            if not self._has_solver_ref:\n                scaler, adder = self._scaling\n                self._scale_reverse(scaler, adder)\n                return\n            nl = self._nlvec._scaling[0]\n            self._scale_reverse(nl, None)\n        else:\n            self._scale_forward(*self._scaling)"),
    Mutant('vec-unpack-swapped', DVEC,
           "        if mode == 'rev':\n            self._scale_forward(*self._scaling)\n        else:",
           "        if mode == 'rev':\n            adder, scaler = self._scaling\n            self._scale_forward(scaler, adder)\n        else:", 'C08.vec'),
    Mutant('vec-early-return-skips-scaler', DVEC, "        data = self.asarray()\n        if adder is not None:  # nonlinear only\n            data -= adder\n        data /= scaler",
           "        data = self.asarray()\n        if adder is None:\n            return\n        data -= adder\n        data /= scaler", 'C08.vec'),
    Twin('twin-ctx-table', SYSTEM, _CTX_ALL_OLD, _ctx_all_table()),
    Mutant('ctx-table-finally-other-table', SYSTEM, _CTX_ALL_OLD,
           _ctx_all_table(fin_table="(('_has_output_scaling', 'output'), ('_has_output_scaling', 'residual'))"), 'C08.ctx'),
    Mutant('ctx-table-finally-inverted-skip', SYSTEM, _CTX_ALL_OLD, _ctx_all_table(skip='if getattr(self, flag_name):'), 'C08.ctx'),
    Twin('twin-ctx-helper', SYSTEM, _CTX_ALL_OLD, _ctx_all_helper()),
    Mutant('ctx-helper-asymmetric', SYSTEM, _CTX_ALL_OLD, _ctx_all_helper(res_else='pass'), 'C08.ctx'),
    Mutant('ctx-helper-second-user', SYSTEM, _CTX_ALL_OLD,
           _ctx_all_helper(extra="\n    def _force_scaled(self):\n        self._rescale_all(True)\n"), 'C08.who'),
    Twin('twin-ctx-order', SYSTEM,
         "            if self._has_output_scaling:\n                for vec in outputs:\n                    vec.scale_to_norm()\n\n            if self._has_resid_scaling:\n                for vec in residuals:\n                    vec.scale_to_norm()",
         "            if self._has_resid_scaling:\n                for vec in residuals:\n                    vec.scale_to_norm()\n\n            if self._has_output_scaling:\n                for vec in outputs:\n                    vec.scale_to_norm()"),
    Twin('twin-alias', _EC, "            with self._unscaled_context(outputs=[self._outputs]):\n                self._compute_wrapper()",
         "            outs = self._outputs\n            with self._unscaled_context(outputs=[outs]):\n                self._compute_wrapper()"),
    Twin('twin-kw-order', 'openmdao/solvers/nonlinear/nonlinear_block_gs.py',
         "with system._unscaled_context(residuals=[residuals], outputs=[outputs]):", "with system._unscaled_context(outputs=[outputs], residuals=[residuals]):"),
)
